//! C33 — only valid signatures authorize a transaction.
//!
//! area `c33` (stateless, one case per line):
//!   vs <payload-hex> <version 1|2|2p> <maxPerIntent> <maxTotal> <v1AllowNotaryDup 0|1> <nSubintents> <root> <batch>*
//!     root  := t:<signatory 0|1>:<notaryKey>:<notaryVerifies 0|1>:<recovered>    (transaction intent)
//!            | s:<recovered>                                                      (root subintent, version 2p)
//!     batch := s:<recovered>
//!     recovered := `-` | item(,item)* ; item := key | `x` (the signature does not verify over the intent's hash)
//!     key := s<hex 33 bytes> (Secp256k1) | e<hex 32 bytes> (Ed25519)
//!   answer: ok <total validations> <root signer keys> <subintent signer keys;…>
//!           | err <root|sub<i>|across> <TooMany:t:l|InvalidIntentSignature|InvalidNotarySignature|DuplicateSigner|NotaryDup|BatchCount>
//!           | other <…>        (a non-signature validation error; the generator avoids these)
//!
//! The payload is a real raw notarized V1/V2 transaction or signed partial transaction (built with the public
//! builders and real Secp256k1/Ed25519 test keys, then possibly tampered with). The abstract description after
//! it (what each signature recovers to over the hash of the intent it is attached to, whether the notary
//! signature verifies over the signed-intent hash) is what the Lean model consumes; the runner re-derives it
//! from the payload with the real `verify_and_recover` / `verify` and fails if it differs. The implementation
//! answer comes from the REAL `TransactionValidator::{validate_notarized_v1, validate_notarized_v2,
//! validate_signed_partial_transaction_v2}` on the prepared payload under the given configuration.
//!
//! Property oracle (implementation only):
//!   accepted-unverified     accepted although a signature does not verify over its intent's hash / the notary
//!                           signature does not verify over the signed-intent hash
//!   signer-set              the signer set is not exactly the recovered keys (+ notary if signatory), or has duplicates
//!   rejected-valid          every signature condition and limit holds but a signature error was returned
//!   mutation                a single-bit change of the payload is accepted with a different signed-intent hash
//!                           or different signer sets, or is accepted in violation of the two rules above
#[path = "../c32c33_common.rs"]
mod common;
use common::*;
use harness::util::*;
use radix_common::prelude::*;
use radix_transactions::errors::*;
use radix_transactions::model::*;
use radix_transactions::prelude::*;
use radix_transactions::validation::*;
use std::io::Write;

pub struct A;

fn key_str(k: &PublicKey) -> String {
    match k {
        PublicKey::Secp256k1(k) => format!("s{}", hex::encode(k.0)),
        PublicKey::Ed25519(k) => format!("e{}", hex::encode(k.0)),
    }
}
fn keys_str<'a>(ks: impl Iterator<Item = &'a PublicKey>) -> String {
    let v: Vec<String> = ks.map(key_str).collect();
    if v.is_empty() {
        "-".into()
    } else {
        v.join(",")
    }
}

#[derive(Clone, Copy, PartialEq, Eq, Debug)]
enum Ver {
    V1,
    V2,
    V2P,
}
fn ver_str(v: Ver) -> &'static str {
    match v {
        Ver::V1 => "1",
        Ver::V2 => "2",
        Ver::V2P => "2p",
    }
}

/// abstract view of one intent's signatures: what each recovers to
struct Batch {
    recovered: Vec<Option<PublicKey>>,
}
struct Desc {
    notary: Option<(bool, PublicKey, bool)>, // (is_signatory, key, verifies)
    root: Batch,
    n_sub: usize,
    batches: Vec<Batch>,
    signed_hash: Hash, // hash the notary signs (or the partial transaction root hash)
    /// hashes of the root intent and of every non-root subintent
    intent_hashes: Vec<Hash>,
}

fn rec_str(b: &Batch) -> String {
    if b.recovered.is_empty() {
        return "-".into();
    }
    b.recovered.iter().map(|r| r.as_ref().map(key_str).unwrap_or("x".into())).collect::<Vec<_>>().join(",")
}

impl Desc {
    fn tokens(&self) -> String {
        let mut s = match &self.notary {
            Some((sig, k, v)) => format!("{} t:{}:{}:{}:{}", self.n_sub, *sig as u8, key_str(k), *v as u8, rec_str(&self.root)),
            None => format!("{} s:{}", self.n_sub, rec_str(&self.root)),
        };
        for b in &self.batches {
            s.push_str(&format!(" s:{}", rec_str(b)));
        }
        s
    }
}

fn batch(h: &Hash, sigs: &[IntentSignatureV1]) -> Batch {
    Batch { recovered: sigs.iter().map(|s| verify_and_recover(h, &s.0)).collect() }
}

enum Prepared {
    V1(PreparedNotarizedTransactionV1),
    V2(PreparedNotarizedTransactionV2),
    P(PreparedSignedPartialTransactionV2),
}

fn prepare(ver: Ver, payload: &[u8]) -> Result<Prepared, String> {
    let s = PreparationSettings::latest_ref();
    match ver {
        Ver::V1 => PreparedNotarizedTransactionV1::prepare(&RawNotarizedTransaction::from_vec(payload.to_vec()), s).map(Prepared::V1).map_err(|e| format!("{:?}", e)),
        Ver::V2 => PreparedNotarizedTransactionV2::prepare(&RawNotarizedTransaction::from_vec(payload.to_vec()), s).map(Prepared::V2).map_err(|e| format!("{:?}", e)),
        Ver::V2P => PreparedSignedPartialTransactionV2::prepare(&RawSignedPartialTransaction::from_vec(payload.to_vec()), s).map(Prepared::P).map_err(|e| format!("{:?}", e)),
    }
}

#[allow(deprecated)]
fn describe(p: &Prepared) -> Desc {
    match p {
        Prepared::V1(p) => {
            let h = &p.signed_intent.intent.header.inner;
            let ih = *p.transaction_intent_hash().as_hash();
            let sh = *p.signed_transaction_intent_hash().as_hash();
            Desc {
                notary: Some((h.notary_is_signatory, h.notary_public_key, verify(&sh, &h.notary_public_key, &p.notary_signature.inner.0))),
                root: batch(&ih, &p.signed_intent.intent_signatures.inner.signatures),
                n_sub: 0,
                batches: vec![],
                signed_hash: sh,
                intent_hashes: vec![ih],
            }
        }
        Prepared::V2(p) => {
            let ti = &p.signed_intent.transaction_intent;
            let h = &ti.transaction_header.inner;
            let ih = *p.transaction_intent_hash().as_hash();
            let sh = *p.signed_transaction_intent_hash().as_hash();
            let subs = &ti.non_root_subintents.subintents;
            let bs = &p.signed_intent.non_root_subintent_signatures.by_subintent;
            Desc {
                notary: Some((h.notary_is_signatory, h.notary_public_key, verify(&sh, &h.notary_public_key, &p.notary_signature.inner.0))),
                root: batch(&ih, &p.signed_intent.transaction_intent_signatures.inner.signatures),
                n_sub: subs.len(),
                // a batch beyond the subintents has no hash to verify against; it is never verified (count mismatch)
                batches: bs.iter().enumerate().map(|(i, b)| match subs.get(i) { Some(s) => batch(s.subintent_hash().as_hash(), &b.inner.signatures), None => Batch { recovered: b.inner.signatures.iter().map(|_| None).collect() } }).collect(),
                signed_hash: sh,
                intent_hashes: std::iter::once(ih).chain(subs.iter().map(|s| *s.subintent_hash().as_hash())).collect(),
            }
        }
        Prepared::P(p) => {
            let pt = &p.partial_transaction;
            let subs = &pt.non_root_subintents.subintents;
            let bs = &p.non_root_subintent_signatures.by_subintent;
            Desc {
                notary: None,
                root: batch(pt.root_subintent.subintent_hash().as_hash(), &p.root_subintent_signatures.inner.signatures),
                n_sub: subs.len(),
                batches: bs.iter().enumerate().map(|(i, b)| match subs.get(i) { Some(s) => batch(s.subintent_hash().as_hash(), &b.inner.signatures), None => Batch { recovered: b.inner.signatures.iter().map(|_| None).collect() } }).collect(),
                signed_hash: p.summary.hash,
                intent_hashes: std::iter::once(*pt.root_subintent.subintent_hash().as_hash()).chain(subs.iter().map(|s| *s.subintent_hash().as_hash())).collect(),
            }
        }
    }
}

struct Outcome {
    ans: String,
    /// Ok((root keys, sub keys, total)) | Err(is signature error)
    res: Result<(Vec<PublicKey>, Vec<Vec<PublicKey>>, usize), bool>,
}

fn loc_str(l: &TransactionValidationErrorLocation) -> String {
    match l {
        TransactionValidationErrorLocation::RootTransactionIntent(_) | TransactionValidationErrorLocation::RootSubintent(_) => "root".into(),
        TransactionValidationErrorLocation::NonRootSubintent(SubintentIndex(i), _) => format!("sub{}", i),
        TransactionValidationErrorLocation::AcrossTransaction => "across".into(),
        TransactionValidationErrorLocation::Unlocatable => "unlocatable".into(),
    }
}

fn validate(p: Prepared, cfg: &TransactionValidationConfig) -> Outcome {
    let v = TransactionValidator::new_with_static_config(*cfg, NetworkDefinition::simulator().id);
    let r: Result<(Vec<PublicKey>, Vec<Vec<PublicKey>>, usize), TransactionValidationError> = match p {
        Prepared::V1(p) => v.validate_notarized_v1(p).map(|x| (x.signer_keys.into_iter().collect(), vec![], x.num_of_signature_validations)),
        Prepared::V2(p) => v.validate_notarized_v2(p).map(|x| (x.transaction_intent_info.signer_keys.into_iter().collect(), x.non_root_subintents_info.into_iter().map(|i| i.signer_keys.into_iter().collect()).collect(), x.total_signature_validations)),
        Prepared::P(p) => v.validate_signed_partial_transaction_v2(p).map(|x| (x.root_subintent_info.signer_keys.into_iter().collect(), x.non_root_subintents_info.into_iter().map(|i| i.signer_keys.into_iter().collect()).collect(), x.total_signature_validations)),
    };
    match r {
        Ok((rk, sk, t)) => {
            let subs = if sk.is_empty() { "-".to_string() } else { sk.iter().map(|k| keys_str(k.iter())).collect::<Vec<_>>().join(";") };
            Outcome { ans: format!("ok {} {} {}", t, keys_str(rk.iter()), subs), res: Ok((rk, sk, t)) }
        }
        Err(TransactionValidationError::SignatureValidationError(loc, e)) => {
            let es = match e {
                SignatureValidationError::TooManySignatures { total, limit } => format!("TooMany:{}:{}", total, limit),
                SignatureValidationError::InvalidIntentSignature => "InvalidIntentSignature".into(),
                SignatureValidationError::InvalidNotarySignature => "InvalidNotarySignature".into(),
                SignatureValidationError::DuplicateSigner => "DuplicateSigner".into(),
                SignatureValidationError::NotaryIsSignatorySoShouldNotAlsoBeASigner => "NotaryDup".into(),
                SignatureValidationError::IncorrectNumberOfSubintentSignatureBatches => "BatchCount".into(),
                SignatureValidationError::SerializationError(_) => "Serialization".into(),
            };
            Outcome { ans: format!("err {} {}", loc_str(&loc), es), res: Err(true) }
        }
        Err(e) => {
            let mut s = format!("{:?}", e).replace(' ', "");
            s.truncate(60);
            Outcome { ans: format!("other {}", s), res: Err(false) }
        }
    }
}

fn cfg_of(mpi: usize, mt: usize, allow: bool) -> TransactionValidationConfig {
    let mut c = TransactionValidationConfig::latest();
    c.max_signer_signatures_per_intent = mpi;
    c.max_total_signature_validations = mt;
    c.v1_transactions_allow_notary_to_duplicate_signer = allow;
    c
}

/// The property, evaluated directly on (description, outcome): Some(key, text) when violated.
fn judge(ver: Ver, d: &Desc, cfg: &TransactionValidationConfig, out: &Outcome) -> Option<(String, String)> {
    let dedup_ok = |b: &Batch| -> bool {
        let ks: Vec<&PublicKey> = b.recovered.iter().flatten().collect();
        (0..ks.len()).all(|i| (0..i).all(|j| ks[i] != ks[j]))
    };
    let all_verify = |b: &Batch| b.recovered.iter().all(|r| r.is_some());
    let expected_set = |b: &Batch| -> Vec<PublicKey> { b.recovered.iter().flatten().cloned().collect() };
    match &out.res {
        Ok((rk, sk, total)) => {
            if !all_verify(&d.root) || d.batches.iter().any(|b| !all_verify(b)) {
                return Some(("accepted-unverified:intent-signature".into(), "accepted although an intent signature does not verify over the hash of its intent".into()));
            }
            let mut exp = expected_set(&d.root);
            if let Some((sig, nk, nv)) = &d.notary {
                if !nv {
                    return Some(("accepted-unverified:notary-signature".into(), "accepted although the notary signature does not verify over the signed intent hash".into()));
                }
                if *sig && !exp.contains(nk) {
                    exp.push(*nk);
                }
            }
            if *rk != exp {
                return Some(("signer-set:root".into(), format!("root signer keys {} but verified keys are {}", keys_str(rk.iter()), keys_str(exp.iter()))));
            }
            if sk.len() != d.n_sub || d.batches.len() != d.n_sub {
                return Some(("signer-set:count".into(), format!("{} subintents, {} batches, {} signer sets", d.n_sub, d.batches.len(), sk.len())));
            }
            for (i, b) in d.batches.iter().enumerate() {
                if sk[i] != expected_set(b) {
                    return Some((format!("signer-set:sub"), format!("subintent {} signer keys differ from the keys recovered from its signatures", i)));
                }
            }
            let all: Vec<&Vec<PublicKey>> = std::iter::once(rk).chain(sk.iter()).collect();
            for s in all {
                if (0..s.len()).any(|i| (0..i).any(|j| s[i] == s[j])) {
                    return Some(("signer-set:duplicate".into(), "a signer set contains a key twice".into()));
                }
            }
            let count: usize = d.root.recovered.len() + d.batches.iter().map(|b| b.recovered.len()).sum::<usize>() + d.notary.is_some() as usize;
            if *total != count || count > cfg.max_total_signature_validations || d.root.recovered.len() > cfg.max_signer_signatures_per_intent || d.batches.iter().any(|b| b.recovered.len() > cfg.max_signer_signatures_per_intent) {
                return Some(("limits:accepted-over-limit".into(), format!("accepted with {} signature validations (reported {})", count, total)));
            }
            None
        }
        Err(true) => {
            // completeness: a signature error needs a reason
            let count: usize = d.root.recovered.len() + d.batches.iter().map(|b| b.recovered.len()).sum::<usize>() + d.notary.is_some() as usize;
            let limits_ok = count <= cfg.max_total_signature_validations && d.root.recovered.len() <= cfg.max_signer_signatures_per_intent && d.batches.iter().all(|b| b.recovered.len() <= cfg.max_signer_signatures_per_intent);
            let sigs_ok = all_verify(&d.root) && d.batches.iter().all(all_verify) && dedup_ok(&d.root) && d.batches.iter().all(dedup_ok);
            let notary_ok = match &d.notary {
                None => true,
                Some((sig, nk, nv)) => *nv && (!*sig || !expected_set(&d.root).contains(nk) || (ver == Ver::V1 && cfg.v1_transactions_allow_notary_to_duplicate_signer)),
            };
            if limits_ok && sigs_ok && notary_ok && d.batches.len() == d.n_sub {
                return Some(("rejected-valid".into(), format!("all signatures verify and all limits hold but the answer is {}", out.ans)));
            }
            None
        }
        Err(false) => None,
    }
}

// ------------------------------------------------------------------------------------------ generator

fn tamper_sig(s: &mut SignatureWithPublicKeyV1, rng: &mut Rng) {
    match s {
        SignatureWithPublicKeyV1::Secp256k1 { signature } => signature.0[1 + rng.below(64) as usize] ^= 1 << rng.below(8),
        SignatureWithPublicKeyV1::Ed25519 { public_key, signature } => {
            if rng.chance(1, 3) {
                *public_key = Ed25519PrivateKey::from_u64(900 + rng.below(5)).unwrap().public_key();
            } else {
                signature.0[rng.below(64) as usize] ^= 1 << rng.below(8)
            }
        }
    }
}
fn tamper_nsig(s: &mut SignatureV1, rng: &mut Rng) {
    match s {
        SignatureV1::Secp256k1(signature) => signature.0[rng.below(65) as usize] ^= 1 << rng.below(8),
        SignatureV1::Ed25519(signature) => signature.0[rng.below(64) as usize] ^= 1 << rng.below(8),
    }
}

fn gen_case(rng: &mut Rng) -> (Ver, Vec<u8>) {
    let pool = *rng.pick(&[3u64, 6, 40]);
    let max_signers = *rng.pick(&[1u64, 2, 3, 5]);
    match rng.below(10) {
        0..=3 => {
            let mut spec = gen_v1_spec(rng, max_signers, pool);
            spec.with_blobs = false;
            if rng.chance(1, 4) && !spec.signers.is_empty() {
                spec.notary = spec.signers[0];
            }
            let mut tx = build_v1(rng, &spec);
            match rng.below(8) {
                0 => {
                    if let Some(s) = tx.signed_intent.intent_signatures.signatures.first_mut() {
                        tamper_sig(&mut s.0, rng)
                    }
                }
                1 => tamper_nsig(&mut tx.notary_signature.0, rng),
                2 => {
                    // signature made for another hash
                    let k = key(1 + rng.below(pool), rng.chance(1, 2));
                    tx.signed_intent.intent_signatures.signatures.push(IntentSignatureV1(k.sign_with_public_key(&Hash([7u8; 32]))));
                }
                3 => {
                    // notary signature by another key
                    let k = key(77, rng.chance(1, 2));
                    let h = tx.signed_intent.prepare(PreparationSettings::latest_ref()).unwrap().signed_transaction_intent_hash();
                    tx.notary_signature.0 = k.sign_without_public_key(&h);
                }
                4 => {
                    // notary signs the intent hash instead of the signed intent hash
                    let k = key(spec.notary.0, spec.notary.1);
                    let h = tx.signed_intent.intent.prepare(PreparationSettings::latest_ref()).unwrap().transaction_intent_hash();
                    tx.notary_signature.0 = k.sign_without_public_key(&h);
                }
                5 => {
                    // tamper with an intent signature, then notarize again
                    if let Some(s) = tx.signed_intent.intent_signatures.signatures.last_mut() {
                        tamper_sig(&mut s.0, rng)
                    }
                    let k = key(spec.notary.0, spec.notary.1);
                    let h = tx.signed_intent.prepare(PreparationSettings::latest_ref()).unwrap().signed_transaction_intent_hash();
                    tx.notary_signature.0 = k.sign_without_public_key(&h);
                }
                _ => {}
            }
            (Ver::V1, tx.to_raw().unwrap().to_vec())
        }
        4..=7 => {
            let mut spec = gen_v2_spec(rng, max_signers, pool, 3);
            if rng.chance(1, 4) && !spec.signers.is_empty() {
                spec.notary = spec.signers[0];
            }
            let mut tx = build_v2(rng, &spec);
            let st = &mut tx.signed_transaction_intent;
            match rng.below(10) {
                0 => {
                    if let Some(s) = st.transaction_intent_signatures.signatures.first_mut() {
                        tamper_sig(&mut s.0, rng)
                    }
                }
                1 => tamper_nsig(&mut tx.notary_signature.0, rng),
                2 => {
                    if let Some(b) = st.non_root_subintent_signatures.by_subintent.last_mut() {
                        if let Some(s) = b.signatures.first_mut() {
                            tamper_sig(&mut s.0, rng)
                        }
                    }
                }
                3 => {
                    st.non_root_subintent_signatures.by_subintent.pop();
                }
                4 => st.non_root_subintent_signatures.by_subintent.push(IntentSignaturesV2 { signatures: vec![] }),
                5 => {
                    // swap two signature batches (signatures then belong to another subintent's hash)
                    let b = &mut st.non_root_subintent_signatures.by_subintent;
                    if b.len() >= 2 {
                        b.swap(0, 1)
                    }
                }
                6 => {
                    // a subintent signature moved to the root intent
                    if let Some(b) = st.non_root_subintent_signatures.by_subintent.first_mut() {
                        if let Some(s) = b.signatures.pop() {
                            st.transaction_intent_signatures.signatures.push(s)
                        }
                    }
                }
                _ => {}
            }
            if rng.chance(1, 2) {
                // notarize again after the tampering, so that validation gets past the notary signature
                let k = key(spec.notary.0, spec.notary.1);
                if let Ok(p) = tx.signed_transaction_intent.prepare(PreparationSettings::latest_ref()) {
                    tx.notary_signature.0 = k.sign_without_public_key(&p.signed_transaction_intent_hash());
                }
            }
            (Ver::V2, tx.to_raw().unwrap().to_vec())
        }
        _ => {
            let ns = rng.below(max_signers + 1);
            let s: Vec<KeySpec> = (0..ns).map(|_| rand_key(rng, pool)).collect();
            let nc = rng.below(3);
            let ch: Vec<Vec<KeySpec>> = (0..nc).map(|_| (0..rng.below(max_signers + 1)).map(|_| rand_key(rng, pool)).collect()).collect();
            let mut p = build_partial(rng, 5, &s, &ch);
            match rng.below(6) {
                0 => {
                    if let Some(s) = p.root_subintent_signatures.signatures.first_mut() {
                        tamper_sig(&mut s.0, rng)
                    }
                }
                1 => {
                    p.non_root_subintent_signatures.by_subintent.pop();
                }
                _ => {}
            }
            (Ver::V2P, p.to_raw().unwrap().to_vec())
        }
    }
}

impl Area for A {
    fn gen(&self, rng: &mut Rng, n: usize, out: &mut dyn Write) {
        FIXED_HEADERS.store(true, std::sync::atomic::Ordering::Relaxed);
        for _ in 0..n {
            let mut r = rng.fork();
            let (ver, payload) = match catch(move || gen_case(&mut r)) {
                Ok(x) => x,
                Err(_) => continue,
            };
            let p = match prepare(ver, &payload) {
                Ok(p) => p,
                Err(_) => continue,
            };
            let d = describe(&p);
            let most = d.root.recovered.len().max(d.batches.iter().map(|b| b.recovered.len()).max().unwrap_or(0));
            let count = d.root.recovered.len() + d.batches.iter().map(|b| b.recovered.len()).sum::<usize>() + d.notary.is_some() as usize;
            let mpi = match rng.below(6) {
                0 => most.saturating_sub(1),
                1 => most,
                2 => rng.below(4) as usize,
                _ => 16,
            };
            let mt = match rng.below(6) {
                0 => count.saturating_sub(1),
                1 => count,
                2 => rng.below(8) as usize,
                _ => 64,
            };
            let allow = rng.chance(2, 3);
            writeln!(out, "vs {} {} {} {} {} {}", hex(&payload), ver_str(ver), mpi, mt, allow as u8, d.tokens()).unwrap();
        }
        for l in ["vs", "vs 00 3 1 1 1 0 t:0:sab:1:-", "vs 00 1 1 1 2 0 t:0:sab:1:-", "vs 00 1 1 1 1 0 t:0:sab:1:x,,", "vs 00 1 1 1 1 0 z:0", "frob 1"] {
            writeln!(out, "{}", l).unwrap();
        }
    }
    fn runner(&self) -> Box<dyn Runner> {
        Box::new(R)
    }
}

struct R;

fn run_one(ver: Ver, payload: &[u8], cfg: &TransactionValidationConfig) -> Result<Option<(Desc, Outcome)>, String> {
    catch(|| {
        let p = prepare(ver, payload).ok()?;
        let d = describe(&p);
        let o = validate(p, cfg);
        Some((d, o))
    })
}

impl Runner for R {
    fn step(&mut self, line: &str) -> Answer {
        let t: Vec<&str> = line.split(' ').filter(|x| !x.is_empty()).collect();
        if t.len() < 8 || t[0] != "vs" {
            return Answer::ok("bad-op");
        }
        let ver = match t[2] {
            "1" => Ver::V1,
            "2" => Ver::V2,
            "2p" => Ver::V2P,
            _ => return Answer::ok("bad-op"),
        };
        let (payload, mpi, mt, allow) = match (unhex(t[1]), t[3].parse::<usize>(), t[4].parse::<usize>(), t[5]) {
            (Some(p), Ok(a), Ok(b), "0") => (p, a, b, false),
            (Some(p), Ok(a), Ok(b), "1") => (p, a, b, true),
            _ => return Answer::ok("bad-op"),
        };
        // syntactic check of the description tokens (same grammar as the model driver)
        let item_ok = |i: &str| i == "x" || (i.len() > 1 && (i.starts_with('s') || i.starts_with('e')) && i[1..].chars().all(|c| c.is_ascii_hexdigit()));
        let list_ok = |l: &str| l == "-" || l.split(',').all(item_ok);
        if t[6].parse::<usize>().is_err() {
            return Answer::ok("bad-op");
        }
        for (i, tok) in t[7..].iter().enumerate() {
            let f: Vec<&str> = tok.split(':').collect();
            let ok = match f.as_slice() {
                ["t", a, k, b, l] => i == 0 && (*a == "0" || *a == "1") && (*b == "0" || *b == "1") && item_ok(k) && *k != "x" && list_ok(l),
                ["s", l] => list_ok(l),
                _ => false,
            };
            if !ok {
                return Answer::ok("bad-op");
            }
        }
        let cfg = cfg_of(mpi, mt, allow);
        let (d, o) = match run_one(ver, &payload, &cfg) {
            Err(m) => return Answer::fail("panic", "validate-panic", m),
            Ok(None) => return Answer::ok("unpreparable"),
            Ok(Some(x)) => x,
        };
        let ans = o.ans.clone();
        let given = t[6..].join(" ");
        if given != d.tokens() {
            return Answer::fail(ans, "desc-mismatch", format!("the description on the line is not what the real crypto derives from the payload: {}", d.tokens()));
        }
        if let Some((k, m)) = judge(ver, &d, &cfg, &o) {
            return Answer::fail(ans, k, m);
        }
        // byte-level mutations of the signed payload
        let mut seed = 0xcbf29ce484222325u64;
        for b in &payload {
            seed = (seed ^ *b as u64).wrapping_mul(0x100000001b3);
        }
        let mut rng = Rng::new(seed);
        for _ in 0..10.min(payload.len()) {
            let i = rng.below(payload.len() as u64) as usize;
            let delta = 1u8 << rng.below(8);
            let mut p = payload.clone();
            p[i] ^= delta;
            match run_one(ver, &p, &cfg) {
                Err(m) => return Answer::fail(ans, "validate-panic", format!("byte {} xor {:02x}: {}", i, delta, m)),
                Ok(None) => {}
                Ok(Some((d2, o2))) => {
                    if let Some((k, m)) = judge(ver, &d2, &cfg, &o2) {
                        return Answer::fail(ans, format!("mutation:{}", k), format!("byte {} xor {:02x}: {}", i, delta, m));
                    }
                    if let (Ok(a), Ok(b)) = (&o.res, &o2.res) {
                        // a notarized transaction: the notary signature covers everything below it
                        if ver != Ver::V2P && (d2.signed_hash != d.signed_hash || a.0 != b.0 || a.1 != b.1) {
                            return Answer::fail(ans, "mutation:accepted-with-different-content", format!("byte {} xor {:02x}: still valid but signed hash or signer sets changed", i, delta));
                        }
                    }
                    if o2.res.is_ok() && d2.intent_hashes.len() == d.intent_hashes.len() {
                        // any version: when the content of an intent changed, none of the keys that signed the
                        // original may come out as a signer of the changed one (recoverable Secp256k1 signatures
                        // always recover to *some* unrelated key; that is not an authorization by the original key)
                        for j in 0..d.intent_hashes.len() {
                            let get = |x: &Desc| -> Vec<PublicKey> { if j == 0 { x.root.recovered.iter().flatten().cloned().collect() } else { x.batches.get(j - 1).map(|b| b.recovered.iter().flatten().cloned().collect()).unwrap_or_default() } };
                            let before = get(&d);
                            let after = get(&d2);
                            if d.intent_hashes[j] != d2.intent_hashes[j] && after.iter().any(|k| before.contains(k)) {
                                return Answer::fail(ans, "mutation:signed-intent-changed", format!("byte {} xor {:02x}: intent #{} changed but a signature of an original signer still verifies", i, delta, j));
                            }
                        }
                    }
                }
            }
        }
        Answer::ok(ans)
    }
}

fn main() {
    main_with(&[("c33", &A)]);
}
