//! C27 — Decimal / PreciseDecimal text forms: `FromStr` and `Display` of the real types.
//!
//! ops (stateless, one case per line):
//!   parse <d|p> <hex of the UTF-8 bytes>   -> `ok <subunits>` | `err <Kind>` | `panic`
//!   print <d|p> <subunits>                 -> `s <text>`
//! The property oracle is independent of the Lean model: an optionally signed decimal numeral grammar
//! and its exact value computed with num-bigint.
use harness::util::*;
use num_bigint::BigInt;
use num_traits::{One, Signed, Zero};
use radix_common::math::*;
use std::io::Write;
use std::str::FromStr;

pub struct A;

fn bits_scale(t: &str) -> Option<(u32, u32)> {
    match t {
        "d" => Some((Decimal::BITS as u32, Decimal::SCALE)),
        "p" => Some((PreciseDecimal::BITS as u32, PreciseDecimal::SCALE)),
        _ => None,
    }
}

fn pow10(n: u32) -> BigInt {
    num_traits::pow(BigInt::from(10), n as usize)
}
fn min_of(bits: u32) -> BigInt {
    -(BigInt::one() << (bits as usize - 1))
}
fn max_of(bits: u32) -> BigInt {
    (BigInt::one() << (bits as usize - 1)) - 1
}
fn in_range(bits: u32, v: &BigInt) -> bool {
    *v >= min_of(bits) && *v <= max_of(bits)
}

fn dec_subunits(d: &Decimal) -> BigInt {
    BigInt::from_signed_bytes_le(&d.attos().to_le_bytes())
}
fn pdec_subunits(d: &PreciseDecimal) -> BigInt {
    BigInt::from_signed_bytes_le(&d.precise_subunits().to_le_bytes())
}
fn dec_of(v: &BigInt) -> Option<Decimal> {
    I192::try_from(v.clone()).ok().map(Decimal::from_attos)
}
fn pdec_of(v: &BigInt) -> Option<PreciseDecimal> {
    I256::try_from(v.clone()).ok().map(PreciseDecimal::from_precise_subunits)
}

/// strict decimal integer literal of the protocol: -?[0-9]+ without leading zeros / "-0"
fn int_strict(s: &str) -> Option<BigInt> {
    let (neg, digits) = match s.strip_prefix('-') {
        Some(r) => (true, r),
        None => (false, s),
    };
    if digits.is_empty() || !digits.bytes().all(|b| b.is_ascii_digit()) {
        return None;
    }
    if digits.len() > 1 && digits.starts_with('0') {
        return None;
    }
    let n = BigInt::from_str(digits).ok()?;
    if neg && n.is_zero() {
        return None;
    }
    Some(if neg { -n } else { n })
}

/// The property's own reading of a text: `[+-]? digit+ ('.' digit{1,scale})?`, exact value in subunits.
/// Returns None when the text is not such a numeral.
fn numeral_value(s: &[u8], scale: u32) -> Option<BigInt> {
    let mut i = 0;
    let mut neg = false;
    if i < s.len() && (s[i] == b'+' || s[i] == b'-') {
        neg = s[i] == b'-';
        i += 1;
    }
    let int_start = i;
    while i < s.len() && s[i].is_ascii_digit() {
        i += 1;
    }
    if i == int_start {
        return None;
    }
    let mut val = BigInt::zero();
    for &b in &s[int_start..i] {
        val = val * 10 + (b - b'0') as u32;
    }
    val *= pow10(scale);
    if i < s.len() {
        if s[i] != b'.' {
            return None;
        }
        i += 1;
        let fs = i;
        while i < s.len() && s[i].is_ascii_digit() {
            i += 1;
        }
        if i != s.len() || i == fs || (i - fs) as u64 > scale as u64 {
            return None;
        }
        let mut f = BigInt::zero();
        for &b in &s[fs..i] {
            f = f * 10 + (b - b'0') as u32;
        }
        val += f * pow10(scale - (i - fs) as u32);
    }
    Some(if neg { -val } else { val })
}

/// canonical printed form: -?(0|[1-9][0-9]*)(\.[0-9]*[1-9])?  and not "-0"
fn is_canonical(s: &str) -> bool {
    let b = s.as_bytes();
    let mut i = 0;
    let neg = !b.is_empty() && b[0] == b'-';
    if neg {
        i = 1;
    }
    let st = i;
    while i < b.len() && b[i].is_ascii_digit() {
        i += 1;
    }
    if i == st || (i - st > 1 && b[st] == b'0') {
        return false;
    }
    let int_zero = i - st == 1 && b[st] == b'0';
    if i == b.len() {
        return !(neg && int_zero);
    }
    if b[i] != b'.' {
        return false;
    }
    i += 1;
    let fs = i;
    while i < b.len() && b[i].is_ascii_digit() {
        i += 1;
    }
    i == b.len() && i > fs && b[i - 1] != b'0'
}

// ---------------------------------------------------------------------------------------------- generator

fn rand_digits(rng: &mut Rng, n: usize) -> String {
    (0..n).map(|_| (b'0' + rng.below(10) as u8) as char).collect()
}

fn boundary_value(rng: &mut Rng, bits: u32, scale: u32) -> BigInt {
    let one = pow10(scale);
    let v = match rng.below(12) {
        0 => min_of(bits) + rng.below(3),
        1 => max_of(bits) - rng.below(3),
        2 => BigInt::from(rng.range(-3, 3)),
        3 => {
            // ±2^k ± δ
            let k = rng.below(bits as u64 - 1) as usize;
            let v = (BigInt::one() << k) + rng.range(-2, 2);
            if rng.chance(1, 2) { -v } else { v }
        }
        4 => {
            // ±10^k ± δ
            let k = rng.below(if bits == 192 { 58 } else { 77 }) as u32;
            let v = pow10(k) + rng.range(-2, 2);
            if rng.chance(1, 2) { -v } else { v }
        }
        5 => {
            // whole numbers
            let v = BigInt::from(rng.range(-1000, 1000)) * &one;
            v
        }
        6 => {
            // |v| < 1 : the "-0.x" class
            let k = rng.below(scale as u64 + 1) as u32;
            let v = BigInt::from(rng.range(1, 999)) * pow10(k) % &one;
            if rng.chance(2, 3) { -v } else { v }
        }
        7 => {
            // few fractional digits
            let k = rng.below(scale as u64) as u32;
            let v = BigInt::from(rng.next() as i64) * pow10(k);
            v
        }
        8 => {
            // near the extremes' integer part
            let q = max_of(bits) / &one;
            let v = (q - rng.below(2)) * &one + BigInt::from(rng.below(1000)) * pow10(scale - 3);
            if rng.chance(1, 2) { -v } else { v }
        }
        _ => {
            let nbytes = 1 + rng.below(bits as u64 / 8) as usize;
            let bytes = rng.bytes(nbytes);
            BigInt::from_signed_bytes_le(&bytes)
        }
    };
    if in_range(bits, &v) { v } else { BigInt::from(rng.range(-5, 5)) }
}

fn gen_numeral(rng: &mut Rng, bits: u32, scale: u32) -> String {
    let mut s = String::new();
    match rng.below(6) {
        0 => s.push('+'),
        1 | 2 => s.push('-'),
        _ => {}
    }
    // integer part
    let maxq = (max_of(bits) / pow10(scale)).to_string();
    match rng.below(10) {
        0 => s.push('0'),
        1 => {
            s.push_str(&"0".repeat(1 + rng.below(25) as usize));
            let n = rng.below(6) as usize;
            s.push_str(&rand_digits(rng, n));
        }
        2 => s.push_str(&maxq),
        3 => {
            // max integer part ± small
            let q = max_of(bits) / pow10(scale) + rng.range(-2, 2);
            s.push_str(&q.to_string());
        }
        4 => {
            // around 2^(bits-1) and 2^bits as *integers* (integer parser overflow classes)
            let sh = if rng.chance(1, 2) { bits as usize - 1 } else { bits as usize };
            let q = (BigInt::one() << sh) + rng.range(-2, 2);
            s.push_str(&q.to_string());
        }
        5 => {
            // long digit strings (chunk structure of the integer parser: 19-digit chunks)
            let n = 17 + rng.below(90) as usize;
            let lead = if rng.chance(1, 2) { "0".repeat(rng.below(40) as usize) } else { String::new() };
            s.push_str(&lead);
            s.push_str(&rand_digits(rng, n));
        }
        _ => {
            let n = 1 + rng.below(maxq.len() as u64 + 1) as usize;
            s.push_str(&rand_digits(rng, n));
        }
    }
    // fraction
    match rng.below(10) {
        0 | 1 => {}
        2 => s.push('.'),
        3 => {
            s.push('.');
            let n = scale as usize + rng.below(4) as usize;
            s.push_str(&rand_digits(rng, n));
        }
        4 => {
            s.push('.');
            s.push_str(&"0".repeat(rng.below(scale as u64 + 2) as usize));
            if rng.chance(1, 2) {
                s.push((b'1' + rng.below(9) as u8) as char);
            }
        }
        5 => {
            // the extreme fractional parts
            s.push('.');
            let m = (max_of(bits) % pow10(scale)) + rng.range(-1, 2);
            s.push_str(&format!("{:0w$}", m, w = scale as usize));
        }
        _ => {
            s.push('.');
            let n = 1 + rng.below(scale as u64) as usize;
            s.push_str(&rand_digits(rng, n));
        }
    }
    s
}

const JUNK: &[&str] = &[
    "+", "-", ".", " ", "e", "E", "x", "_", ",", "é", "٣", "０", "\t", "\n", "\u{0}", "0x", "a", "Z", "/", ":", "−", "1e5", "١",
    "🙂", "\u{7f}", "\u{80}",
];

fn mutate(rng: &mut Rng, s: &str) -> String {
    let chars: Vec<char> = s.chars().collect();
    let mut out: Vec<String> = chars.iter().map(|c| c.to_string()).collect();
    let k = 1 + rng.below(2);
    for _ in 0..k {
        let j = *rng.pick(JUNK);
        // bias towards positions right after the '.' (the fractional part) and the very start / end
        let dot = out.iter().position(|c| c == ".");
        let pos = match (rng.below(6), dot) {
            (0, _) => 0,
            (1, _) => out.len(),
            (2, Some(d)) | (3, Some(d)) => (d + 1 + rng.below(2) as usize).min(out.len()),
            _ => rng.below(out.len() as u64 + 1) as usize,
        };
        match rng.below(3) {
            0 if pos < out.len() => out[pos] = j.to_string(),
            1 if pos < out.len() && out.len() > 1 => {
                out.remove(pos);
            }
            _ => out.insert(pos, j.to_string()),
        }
    }
    out.concat()
}

impl Area for A {
    fn gen(&self, rng: &mut Rng, n: usize, out: &mut dyn Write) {
        for i in 0..n {
            let t = if rng.chance(1, 2) { "d" } else { "p" };
            let (bits, scale) = bits_scale(t).unwrap();
            match rng.below(20) {
                0..=5 => {
                    let s = gen_numeral(rng, bits, scale);
                    writeln!(out, "parse {} {}", t, hex(s.as_bytes())).unwrap();
                }
                6..=9 => {
                    let s = gen_numeral(rng, bits, scale);
                    let m = mutate(rng, &s);
                    writeln!(out, "parse {} {}", t, hex(m.as_bytes())).unwrap();
                }
                10..=13 => {
                    let v = boundary_value(rng, bits, scale);
                    writeln!(out, "print {} {}", t, v).unwrap();
                }
                14..=15 => {
                    // the printed form of a value, parsed by the *other* type too (36 vs 18 places)
                    let v = boundary_value(rng, bits, scale);
                    let s = if t == "d" { dec_of(&v).unwrap().to_string() } else { pdec_of(&v).unwrap().to_string() };
                    let t2 = if rng.chance(3, 4) { t } else if t == "d" { "p" } else { "d" };
                    writeln!(out, "parse {} {}", t2, hex(s.as_bytes())).unwrap();
                }
                16 => {
                    // a long digit string with one bad byte: which error comes first depends on the
                    // 19-digit chunking of the integer parser
                    let len = 20 + rng.below(120) as usize;
                    let mut s = rand_digits(rng, len);
                    if rng.chance(1, 2) {
                        s = format!("{}{}", "0".repeat(rng.below(60) as usize), s);
                    }
                    let pos = rng.below(s.len() as u64) as usize;
                    let j = *rng.pick(&["x", "-", "+", " ", "é", "."]);
                    s.replace_range(pos..pos + 1, j);
                    if rng.chance(1, 3) {
                        s.insert(0, if rng.chance(1, 2) { '-' } else { '+' });
                    }
                    writeln!(out, "parse {} {}", t, hex(s.as_bytes())).unwrap();
                }
                17 => {
                    // free text
                    let k = rng.below(6);
                    let mut s = String::new();
                    for _ in 0..k {
                        if rng.chance(1, 2) {
                            s.push_str(*rng.pick(JUNK));
                        } else {
                            s.push((b'0' + rng.below(10) as u8) as char);
                        }
                    }
                    writeln!(out, "parse {} {}", t, hex(s.as_bytes())).unwrap();
                }
                18 => {
                    // many dots / signs
                    let parts = 1 + rng.below(4);
                    let mut s = String::new();
                    for p in 0..parts {
                        if p > 0 {
                            s.push('.');
                        }
                        if rng.chance(1, 4) {
                            s.push(*rng.pick(&['+', '-']));
                        }
                        let n = rng.below(4) as usize;
                        s.push_str(&rand_digits(rng, n));
                    }
                    writeln!(out, "parse {} {}", t, hex(s.as_bytes())).unwrap();
                }
                _ => {
                    // malformed protocol lines (both sides must answer bad-op)
                    match i % 6 {
                        0 => writeln!(out, "parse {} zz", t).unwrap(),
                        1 => writeln!(out, "parse q 31").unwrap(),
                        2 => writeln!(out, "print {} 1.5", t).unwrap(),
                        3 => writeln!(out, "print {} {}", t, max_of(bits) + 1).unwrap(),
                        4 => writeln!(out, "parse {} ff", t).unwrap(), // not UTF-8
                        _ => writeln!(out, "frobnicate {}", t).unwrap(),
                    }
                }
            }
        }
    }

    fn runner(&self) -> Box<dyn Runner> {
        Box::new(R)
    }

    fn consts(&self) -> Vec<(String, String)> {
        vec![
            ("DEC_BITS".into(), Decimal::BITS.to_string()),
            ("DEC_SCALE".into(), Decimal::SCALE.to_string()),
            ("PDEC_BITS".into(), PreciseDecimal::BITS.to_string()),
            ("PDEC_SCALE".into(), PreciseDecimal::SCALE.to_string()),
        ]
    }
}

struct R;

fn err_name(e: &str) -> String {
    // Debug names of ParseDecimalError / ParsePreciseDecimalError
    match e {
        "MoreThanEighteenDecimalPlaces" | "MoreThanThirtySixDecimalPlaces" => "TooManyPlaces".to_string(),
        other => other.to_string(),
    }
}

/// real parse: Ok(Ok(subunits)) | Ok(Err(kind)) | Err(panic)
fn real_parse(t: &str, s: &str) -> Result<Result<BigInt, String>, String> {
    if t == "d" {
        catch(|| Decimal::from_str(s).map(|d| dec_subunits(&d)).map_err(|e| err_name(&format!("{:?}", e))))
    } else {
        catch(|| PreciseDecimal::from_str(s).map(|d| pdec_subunits(&d)).map_err(|e| err_name(&format!("{:?}", e))))
    }
}

fn short(s: &str) -> String {
    let e: String = s.chars().take(48).flat_map(|c| c.escape_default()).collect();
    e
}

impl Runner for R {
    fn step(&mut self, line: &str) -> Answer {
        let w: Vec<&str> = line.split(' ').filter(|x| !x.is_empty()).collect();
        match w.as_slice() {
            ["parse", t, h] => {
                let (bits, scale) = match bits_scale(t) {
                    Some(x) => x,
                    None => return Answer::ok("bad-op"),
                };
                let bytes = match unhex(h) {
                    Some(b) => b,
                    None => return Answer::ok("bad-op"),
                };
                let s = match String::from_utf8(bytes) {
                    Ok(s) => s,
                    Err(_) => return Answer::ok("bad-op"),
                };
                let r = real_parse(t, &s);
                let spec = numeral_value(s.as_bytes(), scale).filter(|v| in_range(bits, v));
                match r {
                    Err(msg) => Answer::fail("panic", format!("parse-panic:{}", short(&s)), format!("from_str({:?}) panicked: {}", s, msg)),
                    Ok(Ok(v)) => {
                        let ans = format!("ok {}", v);
                        match spec {
                            None => Answer::fail(ans, format!("parse-accepts-non-numeral:{}", short(&s)), format!("from_str({:?}) = Ok({} subunits) but the text is not an in-range decimal numeral with at most {} fractional digits", s, v, scale)),
                            Some(e) if e != v => Answer::fail(ans, format!("parse-wrong-value:{}", short(&s)), format!("from_str({:?}) = {} subunits, exact value is {}", s, v, e)),
                            Some(_) => Answer::ok(ans),
                        }
                    }
                    Ok(Err(e)) => {
                        let ans = format!("err {}", e);
                        match spec {
                            Some(v) => Answer::fail(ans, format!("parse-rejects-numeral:{}", short(&s)), format!("from_str({:?}) = Err({}) but the text is a decimal numeral of value {} subunits, in range", s, e, v)),
                            None => Answer::ok(ans),
                        }
                    }
                }
            }
            ["print", t, v] => {
                let (bits, scale) = match bits_scale(t) {
                    Some(x) => x,
                    None => return Answer::ok("bad-op"),
                };
                let v = match int_strict(v) {
                    Some(v) if in_range(bits, &v) => v,
                    _ => return Answer::ok("bad-op"),
                };
                let printed = if *t == "d" {
                    let d = dec_of(&v).expect("in range");
                    catch(|| d.to_string())
                } else {
                    let d = pdec_of(&v).expect("in range");
                    catch(|| d.to_string())
                };
                let s = match printed {
                    Ok(s) => s,
                    Err(m) => return Answer::fail("panic", format!("print-panic:{}", v), format!("to_string of {} subunits panicked: {}", v, m)),
                };
                let ans = format!("s {}", s);
                // property: parse(print(v)) == v on the real code
                match real_parse(t, &s) {
                    Ok(Ok(back)) if back == v => {}
                    other => {
                        return Answer::fail(ans, format!("print-parse-roundtrip:{}:{}", t, v), format!("to_string({} subunits) = {:?}, parsed back as {:?}", v, s, other));
                    }
                }
                // and the text denotes exactly v, in canonical form
                if numeral_value(s.as_bytes(), scale).as_ref() != Some(&v) {
                    return Answer::fail(ans, format!("print-wrong-text:{}:{}", t, v), format!("to_string({} subunits) = {:?} does not denote that value", v, s));
                }
                if !is_canonical(&s) {
                    return Answer::fail(ans, format!("print-not-canonical:{}:{}", t, v), format!("to_string({} subunits) = {:?} is not in canonical form", v, s));
                }
                let _ = v.is_negative();
                Answer::ok(ans)
            }
            _ => Answer::ok("bad-op"),
        }
    }
}

fn main() {
    main_with(&[("c27", &A)]);
}
