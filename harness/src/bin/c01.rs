//! C01 — transaction execution is deterministic.
//!
//! Three areas, one binary:
//!
//! * `c01a` (model-compared, stateful): the real `radix_engine::kernel::id_allocator::IdAllocator`.
//!     reset                      -> ok
//!     new <hash 32 bytes hex>    -> ok
//!     alloc <entity byte>        -> <node id 30 bytes hex> | err:out-of-id | err:no-allocator
//!   Oracle (independent of the Lean model): the i-th id of a stream is
//!   `entity ++ blake2b(txhash ++ le32 i)[3..32]` (recomputed with radix_common's `hash`), a second
//!   allocator created from the same hash and driven by the same entity sequence returns the same
//!   ids, and ids of one stream are pairwise distinct after the entity byte is masked out.
//!
//! * `c01r` (model-compared, stateless): `System::init` → `resolve_modules` of the real system layer,
//!   called through the public `KernelTransactionExecutor::init` on a real ledger state.
//!     resolve <kt> <cb> <et> <dbg> <ov> <dc> <dl> <da> <ab> <co> <lo> <nd> <ex>
//!   kt/cb/dbg ∈ {0,1}; et ∈ {n, <depth>}; ov = system_overrides present; dc/dl/da/ab = disable_costing /
//!   disable_limits / disable_auth / abort_when_loan_repaid; co/lo/nd = costing / limit / network
//!   override present; ex = executable.disable_limits_and_costing_modules.
//!   Answer: `bits=<u32> abort=<b> cb=<b> dcb=<b> cost=<base|ovr> lim=<base|ovr> net=<base|ovr>`.
//!   Oracle: the answer projected on the state-affecting part (bits without KERNEL_TRACE /
//!   EXECUTION_TRACE, abort, cost, lim, net) is the same as for the same line with all four
//!   diagnostic settings switched off.
//!
//! * `c01d` (oracle only — exploration): determinism differential on whole transactions.
//!     tx <nonce> <lock|nolock> <op>,<op>,…
//!   The transaction is executed on clones of one in-memory ledger state under
//!   {diagnostic-flag combinations: the 8 without `enable_debug_information` in every case, 4 of the 8
//!   with it per case (it makes execution ~100x slower), rotating so that 4 consecutive cases cover all
//!   16} × {fresh ScryptoVm, warm shared ScryptoVm} × {1 thread, 8 threads at once} × {this process, a
//!   second process (this binary re-spawned, which also runs the kernel-trace variants because they
//!   print to stdout)} — 34 executions per case; the `scrypto_encode`d outcome, state
//!   updates, application events and fee summary (plus logs, fee source/destination, state update
//!   summary) must be byte-identical. Key on failure: `nondeterminism:<variant>:<piece>`.
use harness::util::*;
use radix_common::prelude::*;
use radix_engine::errors::*;
use radix_engine::kernel::id_allocator::IdAllocator;
use radix_engine::kernel::kernel::KernelBoot;
use radix_engine::kernel::kernel_callback_api::KernelTransactionExecutor;
use radix_engine::system::system_callback::{System, SystemInit};
use radix_engine::system::system_modules::costing::{ExecutionFeeReserve, SystemLoanFeeReserve};
use radix_engine::system::system_modules::EnabledModules;
use radix_engine::track::Track;
use radix_engine::transaction::*;
use radix_engine::vm::wasm::DefaultWasmEngine;
use radix_engine::vm::*;
use radix_engine_interface::prelude::*;
use radix_substate_store_impls::memory_db::InMemorySubstateDatabase;
use radix_transactions::manifest::*;
use radix_transactions::prelude::*;
use scrypto_test::prelude::*;
use std::io::{BufRead, BufReader, Write};
use std::process::{Child, ChildStderr, ChildStdin, Command, Stdio};

// ============================================================================================ c01a

pub struct IdAlloc;

const ENTITY_BYTES: [u8; 12] = [
    EntityType::GlobalPackage as u8,
    EntityType::GlobalFungibleResourceManager as u8,
    EntityType::GlobalNonFungibleResourceManager as u8,
    EntityType::GlobalGenericComponent as u8,
    EntityType::GlobalAccount as u8,
    EntityType::GlobalValidator as u8,
    EntityType::InternalFungibleVault as u8,
    EntityType::InternalNonFungibleVault as u8,
    EntityType::InternalGenericComponent as u8,
    EntityType::InternalKeyValueStore as u8,
    EntityType::GlobalOneResourcePool as u8,
    EntityType::GlobalAccessController as u8,
];

impl Area for IdAlloc {
    fn gen(&self, rng: &mut Rng, n: usize, out: &mut dyn Write) {
        for i in 0..n {
            writeln!(out, "reset").unwrap();
            if i % 37 == 5 {
                // malformed / out-of-protocol stream
                writeln!(out, "alloc 93").unwrap();
                writeln!(out, "new 00ff").unwrap();
                writeln!(out, "alloc 7").unwrap();
                continue;
            }
            let h = match rng.below(6) {
                0 => vec![0u8; 32],
                1 => vec![0xffu8; 32],
                _ => rng.bytes(32),
            };
            writeln!(out, "new {}", hex(&h)).unwrap();
            let len = 1 + rng.below(24);
            for _ in 0..len {
                let e = *rng.pick(&ENTITY_BYTES);
                writeln!(out, "alloc {}", e).unwrap();
            }
            if rng.chance(1, 5) {
                // a second allocator with the same hash inside the same case
                writeln!(out, "new {}", hex(&h)).unwrap();
                writeln!(out, "alloc {}", rng.pick(&ENTITY_BYTES)).unwrap();
            }
        }
    }
    fn runner(&self) -> Box<dyn Runner> {
        Box::new(IdR { a: None, twin: None, h: vec![], i: 0, seen: vec![] })
    }
    fn consts(&self) -> Vec<(String, String)> {
        consts_c01()
    }
}

struct IdR {
    a: Option<IdAllocator>,
    twin: Option<IdAllocator>,
    h: Vec<u8>,
    i: u32,
    seen: Vec<Vec<u8>>,
}

impl Runner for IdR {
    fn step(&mut self, line: &str) -> Answer {
        let t: Vec<&str> = line.split(' ').filter(|x| !x.is_empty()).collect();
        match t.as_slice() {
            ["reset"] => {
                self.a = None;
                self.twin = None;
                self.seen.clear();
                Answer::ok("ok")
            }
            ["new", h] => match unhex(h) {
                Some(b) if b.len() == 32 => {
                    let hash = Hash(b.clone().try_into().unwrap());
                    self.a = Some(IdAllocator::new(hash));
                    self.twin = Some(IdAllocator::new(hash));
                    self.h = b;
                    self.i = 0;
                    self.seen.clear();
                    Answer::ok("ok")
                }
                _ => Answer::ok("bad-op"),
            },
            ["alloc", e] => {
                let e: u8 = match e.parse() {
                    Ok(v) if e.to_string() == format!("{}", v) => v,
                    _ => return Answer::ok("bad-op"),
                };
                let et = match EntityType::from_repr(e) {
                    Some(et) => et,
                    None => return Answer::ok("bad-op"),
                };
                let (a, twin) = match (self.a.as_mut(), self.twin.as_mut()) {
                    (Some(a), Some(t)) => (a, t),
                    _ => return Answer::ok("err:no-allocator"),
                };
                let r = a.allocate_node_id(et);
                let r2 = twin.allocate_node_id(et);
                match (r, r2) {
                    (Ok(id), Ok(id2)) => {
                        let ans = hex(&id.0);
                        // independent recomputation
                        let mut buf = self.h.clone();
                        buf.extend_from_slice(&self.i.to_le_bytes());
                        let hh = hash(&buf);
                        let mut exp = hh.0[2..32].to_vec();
                        exp[0] = e;
                        self.i += 1;
                        if id.0.to_vec() != exp {
                            return Answer::fail(ans, "id-not-hash-of-txhash-and-counter", format!("expected {}", hex(&exp)));
                        }
                        if id != id2 {
                            return Answer::fail(ans, "id-differs-between-allocators", "two allocators with the same hash and history disagree");
                        }
                        let masked = id.0[1..].to_vec();
                        if self.seen.contains(&masked) {
                            return Answer::fail(ans, "id-repeated", "the same hash tail was handed out twice in one stream");
                        }
                        self.seen.push(masked);
                        Answer::ok(ans)
                    }
                    (Err(RuntimeError::KernelError(KernelError::IdAllocationError(IdAllocationError::OutOfID))), _) => Answer::ok("err:out-of-id"),
                    _ => Answer::fail("err:other", "id-alloc-unexpected-error", "allocate_node_id failed with an unexpected error"),
                }
            }
            _ => Answer::ok("bad-op"),
        }
    }
}

// ============================================================================================ shared ledger

const KV_COMPONENTS: usize = 2;

pub struct Env {
    pub ledger: DefaultLedgerSimulator,
    pub db: InMemorySubstateDatabase,
    pub pk: Secp256k1PublicKey,
    pub account: ComponentAddress,
    pub account2: ComponentAddress,
    pub res: ResourceAddress,
    pub kv_pkg: Option<PackageAddress>,
    pub kv: Vec<ComponentAddress>,
    pub ev_pkg: Option<PackageAddress>,
}

fn load_cached_package(name: &str) -> Option<(Vec<u8>, PackageDefinition)> {
    let dir = "/repo/radix-engine-tests/assets/blueprints/target/scrypto_cache";
    let mut found: Vec<std::path::PathBuf> = vec![];
    for e in std::fs::read_dir(dir).ok()? {
        let p = e.ok()?.path();
        let w = p.join(format!("{}.wasm", name));
        if w.exists() && p.join(format!("{}.rpd", name)).exists() {
            found.push(p);
        }
    }
    found.sort();
    let p = found.first()?;
    let code = std::fs::read(p.join(format!("{}.wasm", name))).ok()?;
    let def = std::fs::read(p.join(format!("{}.rpd", name))).ok()?;
    let def: PackageDefinition = manifest_decode::<ManifestPackageDefinition>(&def).ok()?.try_into_typed().ok()?;
    Some((code, def))
}

impl Env {
    pub fn new() -> Env {
        let mut ledger = LedgerSimulatorBuilder::new().without_kernel_trace().build();
        let (pk, _sk, account) = ledger.new_allocated_account();
        let (_pk2, _sk2, account2) = ledger.new_allocated_account();
        let res = ledger.create_fungible_resource(Decimal::from(1000u32), 18, account);
        let mut kv_pkg = None;
        let mut kv = vec![];
        let mut ev_pkg = None;
        if let Some((code, def)) = load_cached_package("kv_store") {
            let r = catch(|| ledger.publish_package((code, def), BTreeMap::new(), OwnerRole::None));
            if let Ok(p) = r {
                kv_pkg = Some(p);
                for _ in 0..KV_COMPONENTS {
                    let m = ManifestBuilder::new().lock_fee_from_faucet().call_function(p, "Basic", "new", manifest_args!()).build();
                    let rc = ledger.execute_manifest(m, vec![]);
                    kv.push(rc.expect_commit_success().new_component_addresses()[0]);
                }
            }
        }
        if let Some((code, def)) = load_cached_package("events") {
            if let Ok(p) = catch(|| ledger.publish_package((code, def), BTreeMap::new(), OwnerRole::None)) {
                ev_pkg = Some(p);
            }
        }
        let db = ledger.substate_db().clone();
        Env { ledger, db, pk, account, account2, res, kv_pkg, kv, ev_pkg }
    }

    /// manifest of a `tx` line; None = unparseable
    fn manifest(&self, lock: bool, ops: &str) -> Option<TransactionManifestV1> {
        let mut b = ManifestBuilder::new();
        if lock {
            b = b.lock_fee_from_faucet();
        }
        let mut deposit = false;
        for op in ops.split(',').filter(|x| !x.is_empty()) {
            let f: Vec<&str> = op.split(':').collect();
            match f.as_slice() {
                ["free"] => {
                    b = b.call_method(FAUCET, "free", manifest_args!());
                    deposit = true;
                }
                ["xfer", a] => {
                    let a: i128 = a.parse().ok()?;
                    b = b.withdraw_from_account(self.account, XRD, Decimal::from_attos(I192::from(a)));
                    b = b.try_deposit_entire_worktop_or_abort(self.account2, None);
                }
                ["xres", a] => {
                    let a: i128 = a.parse().ok()?;
                    b = b.withdraw_from_account(self.account, self.res, Decimal::from_attos(I192::from(a)));
                    deposit = true;
                }
                ["newacct"] => {
                    b = b.new_account_advanced(OwnerRole::None, None);
                }
                ["newres", d, s] => {
                    let d: u8 = d.parse().ok()?;
                    let s: u32 = s.parse().ok()?;
                    b = b.create_fungible_resource(OwnerRole::None, true, d, FungibleResourceRoles::default(), metadata!(), Some(Decimal::from(s)));
                    deposit = true;
                }
                ["mintnf", n] => {
                    let n: u64 = n.parse().ok()?;
                    if n > 200 {
                        return None;
                    }
                    let entries: Vec<(NonFungibleLocalId, ())> = (1..=n).map(|i| (NonFungibleLocalId::integer(i * 7919 % 1000003), ())).collect();
                    b = b.create_non_fungible_resource(OwnerRole::None, NonFungibleIdType::Integer, true, NonFungibleResourceRoles::default(), metadata!(), Some(entries));
                    deposit = true;
                }
                ["kvins", c, k, v] => {
                    let c: usize = c.parse().ok()?;
                    match self.kv.get(c % KV_COMPONENTS.max(1)) {
                        Some(addr) => b = b.call_method(*addr, "insert", manifest_args!(k.to_string(), v.to_string())),
                        None => b = b.new_account_advanced(OwnerRole::None, None),
                    }
                }
                ["kvrm", c, k] => {
                    let c: usize = c.parse().ok()?;
                    match self.kv.get(c % KV_COMPONENTS.max(1)) {
                        Some(addr) => b = b.call_method(*addr, "remove", manifest_args!(k.to_string())),
                        None => b = b.new_account_advanced(OwnerRole::None, None),
                    }
                }
                ["kvnew", k, v] => match self.kv_pkg {
                    Some(p) => b = b.call_function(p, "Basic", "new_with_entry", manifest_args!(k.to_string(), v.to_string())),
                    None => b = b.new_account_advanced(OwnerRole::None, None),
                },
                ["emit", n] => {
                    let n: u64 = n.parse().ok()?;
                    match self.ev_pkg {
                        Some(p) => b = b.call_function(p, "ScryptoEvents", "emit_registered_event", manifest_args!(n)),
                        None => b = b.call_method(FAUCET, "free", manifest_args!()),
                    }
                    if self.ev_pkg.is_none() {
                        deposit = true;
                    }
                }
                ["meta", k, v] => {
                    b = b.set_metadata(self.account, k.to_string(), MetadataValue::String(v.to_string()));
                }
                ["failassert"] => {
                    b = b.assert_worktop_contains(self.res, Decimal::from(123456789u32));
                }
                ["badcall"] => {
                    b = b.call_method(self.account, "no_such_method", manifest_args!());
                }
                _ => return None,
            }
        }
        if deposit {
            b = b.try_deposit_entire_worktop_or_abort(self.account, None);
        }
        Some(b.build())
    }

    fn executable(&self, nonce: u32, lock: bool, ops: &str) -> Option<ExecutableTransaction> {
        let m = self.manifest(lock, ops)?;
        let proofs: BTreeSet<NonFungibleGlobalId> = [NonFungibleGlobalId::from_public_key(&self.pk)].into_iter().collect();
        m.into_executable_with_proofs(nonce, proofs, self.ledger.transaction_validator()).ok()
    }
}

// ============================================================================================ c01r

pub struct Resolve;

impl Area for Resolve {
    fn gen(&self, rng: &mut Rng, n: usize, out: &mut dyn Write) {
        let b = |r: &mut Rng| r.below(2);
        for i in 0..n {
            if i % 41 == 7 {
                writeln!(out, "resolve 1 0 x 0 1 0 0 0 0 0 0 0 0").unwrap();
                continue;
            }
            if i % 41 == 8 {
                writeln!(out, "resolve 1 0 n 0 1 0 0").unwrap();
                continue;
            }
            let et = match rng.below(4) {
                0 | 1 => "n".to_string(),
                2 => "16".to_string(),
                _ => rng.below(40).to_string(),
            };
            let ov = if rng.chance(4, 5) { 1 } else { 0 };
            // without overrides the sub-flags are irrelevant for the code; keep them random so that the
            // model has to ignore them too. network override is needed by pre-bottlenose states only.
            writeln!(
                out,
                "resolve {} {} {} {} {} {} {} {} {} {} {} {} {}",
                b(rng), b(rng), et, b(rng), ov, b(rng), b(rng), b(rng), b(rng), b(rng), b(rng), b(rng), b(rng)
            )
            .unwrap();
        }
    }
    fn runner(&self) -> Box<dyn Runner> {
        Box::new(ResolveR { env: None })
    }
    fn consts(&self) -> Vec<(String, String)> {
        consts_c01()
    }
}

struct ResolveR {
    env: Option<Env>,
}

#[derive(Clone, Debug)]
struct RCfg {
    kt: bool,
    cb: bool,
    et: Option<usize>,
    dbg: bool,
    ov: bool,
    dc: bool,
    dl: bool,
    da: bool,
    ab: bool,
    co: bool,
    lo: bool,
    nd: bool,
    ex: bool,
}

fn parse_rcfg(t: &[&str]) -> Option<RCfg> {
    if t.len() != 14 || t[0] != "resolve" {
        return None;
    }
    let pb = |s: &str| -> Option<bool> {
        match s {
            "0" => Some(false),
            "1" => Some(true),
            _ => None,
        }
    };
    let et = if t[3] == "n" {
        None
    } else {
        let v: usize = t[3].parse().ok()?;
        if v.to_string() != t[3] || v > 1_000_000 {
            return None;
        }
        Some(v)
    };
    Some(RCfg {
        kt: pb(t[1])?,
        cb: pb(t[2])?,
        et,
        dbg: pb(t[4])?,
        ov: pb(t[5])?,
        dc: pb(t[6])?,
        dl: pb(t[7])?,
        da: pb(t[8])?,
        ab: pb(t[9])?,
        co: pb(t[10])?,
        lo: pb(t[11])?,
        nd: pb(t[12])?,
        ex: pb(t[13])?,
    })
}

fn override_costing() -> CostingParameters {
    let mut c = CostingParameters::latest();
    c.execution_cost_unit_limit = 77_777_777;
    c.finalization_cost_unit_limit = 55_555_555;
    c
}
fn override_limits() -> LimitParameters {
    let mut l = LimitParameters::babylon_genesis();
    l.max_call_depth = 5;
    l.max_number_of_events = 77;
    l
}
fn override_network() -> NetworkDefinition {
    NetworkDefinition::stokenet()
}

#[derive(PartialEq, Eq, Clone, Debug)]
struct Resolved {
    bits: u32,
    abort: bool,
    cb: bool,
    dcb: bool,
    cost_ovr: bool,
    lim_ovr: bool,
    net_ovr: bool,
}

impl Resolved {
    fn show(&self) -> String {
        let o = |b: bool| if b { "ovr" } else { "base" };
        format!("bits={} abort={} cb={} dcb={} cost={} lim={} net={}", self.bits, self.abort, self.cb, self.dcb, o(self.cost_ovr), o(self.lim_ovr), o(self.net_ovr))
    }
    fn state_affecting(&self) -> (u32, bool, bool, bool, bool) {
        let diag = EnabledModules::KERNEL_TRACE.bits() | EnabledModules::EXECUTION_TRACE.bits();
        (self.bits & !diag, self.abort, self.cost_ovr, self.lim_ovr, self.net_ovr)
    }
}

impl ResolveR {
    fn resolve(&mut self, c: &RCfg) -> Result<Resolved, String> {
        if self.env.is_none() {
            self.env = Some(Env::new());
        }
        let env = self.env.as_ref().unwrap();
        let config = ExecutionConfig {
            enable_kernel_trace: c.kt,
            enable_cost_breakdown: c.cb,
            execution_trace: c.et,
            enable_debug_information: c.dbg,
            system_overrides: if c.ov {
                Some(SystemOverrides {
                    disable_costing: c.dc,
                    disable_limits: c.dl,
                    disable_auth: c.da,
                    abort_when_loan_repaid: c.ab,
                    network_definition: if c.nd { Some(override_network()) } else { None },
                    costing_parameters: if c.co { Some(override_costing()) } else { None },
                    limit_parameters: if c.lo { Some(override_limits()) } else { None },
                })
            } else {
                None
            },
        };
        let proofs: BTreeSet<NonFungibleGlobalId> = BTreeSet::new();
        let validator = env.ledger.transaction_validator();
        let executable = if c.ex {
            ManifestBuilder::new_system_v1().build().into_executable_with_proofs(1, proofs, validator)?
        } else {
            ManifestBuilder::new().lock_fee_from_faucet().build().into_executable_with_proofs(1, proofs, validator)?
        };
        if executable.disable_limits_and_costing_modules() != c.ex {
            return Err("executable flag could not be set".to_string());
        }
        let vm_modules = DefaultVmModules::default();
        let vm_init = VmInit::load(&env.db, &vm_modules);
        let system_init = SystemInit::load(&env.db, config, vm_init);
        let kernel_boot = KernelBoot::load(&env.db);
        let mut track = Track::new(&env.db);
        // stdout is not touched by init unless kernel trace prints the executable: handled by the caller
        let r = <System<Vm<'_, DefaultWasmEngine, NoExtension>> as KernelTransactionExecutor>::init(&mut track, &executable, system_init, kernel_boot.always_visible_global_nodes());
        let (mut system, _frames) = match r {
            Ok(x) => x,
            Err(_receipt) => return Err("init-rejected".to_string()),
        };
        let bits = system.modules.enabled_modules.bits();
        let net = system.modules.transaction_runtime().map(|m| m.network_definition.clone());
        let lim = system.modules.limits_mut().map(|l| l.config().max_number_of_events);
        let costing = system.modules.costing_mut_even_if_disabled();
        let cost_ovr = costing.fee_reserve.costing_parameters().execution_cost_unit_limit == override_costing().execution_cost_unit_limit;
        let cb = costing.cost_breakdown.is_some();
        let dcb = costing.detailed_cost_breakdown.is_some();
        // abort_when_loan_repaid is private: observe it through the reserve's behaviour
        let mut fr: SystemLoanFeeReserve = costing.fee_reserve.clone();
        fr.lock_fee(NodeId([EntityType::InternalFungibleVault as u8; NodeId::LENGTH]), LiquidFungibleResource::new(Decimal::from(1_000_000u32)), false);
        let abort = match fr.repay_all() {
            Ok(()) => false,
            Err(e) => e.abortion().is_some(),
        };
        // limits: the module state is only reachable when enabled; when disabled the parameters cannot
        // affect execution and are reported as the model computes them (base/ovr by construction)
        let lim_ovr = match lim {
            Some(v) => v == override_limits().max_number_of_events,
            None => c.ov && c.lo,
        };
        let net_ovr = match net {
            Some(n) => n == override_network(),
            None => false,
        };
        Ok(Resolved { bits, abort, cb, dcb, cost_ovr, lim_ovr, net_ovr })
    }
}

impl Runner for ResolveR {
    fn step(&mut self, line: &str) -> Answer {
        let t: Vec<&str> = line.split(' ').filter(|x| !x.is_empty()).collect();
        let c = match parse_rcfg(&t) {
            Some(c) => c,
            None => return Answer::ok("bad-op"),
        };
        // `System::init` prints the executable when kernel trace is on; the correspondence protocol owns
        // stdout, so the print is diverted for the duration of the call.
        let r = with_stdout_diverted(c.kt, || self.resolve(&c));
        let r = match r {
            Ok(r) => r,
            Err(e) => return Answer::fail(format!("err:{}", e), "resolve-failed", e),
        };
        let mut plain = c.clone();
        plain.kt = false;
        plain.cb = false;
        plain.et = None;
        plain.dbg = false;
        let r0 = match self.resolve(&plain) {
            Ok(r) => r,
            Err(e) => return Answer::fail(format!("err:{}", e), "resolve-failed", e),
        };
        let ans = r.show();
        if r.state_affecting() != r0.state_affecting() {
            return Answer::fail(ans, "diagnostics-select-modules", format!("with diagnostics: {} — without: {}", r.show(), r0.show()));
        }
        let kt_bit = r.bits & EnabledModules::KERNEL_TRACE.bits() != 0;
        let et_bit = r.bits & EnabledModules::EXECUTION_TRACE.bits() != 0;
        if kt_bit != c.kt || et_bit != c.et.is_some() || r.cb != c.cb || r.dcb != c.dbg {
            return Answer::fail(ans, "diagnostic-flag-not-honoured", "trace bits / breakdown switches do not follow the configuration");
        }
        Answer::ok(ans)
    }
}

extern "C" {
    fn dup(fd: i32) -> i32;
    fn dup2(a: i32, b: i32) -> i32;
    fn close(fd: i32) -> i32;
}

/// Run `f` with fd 1 pointing at /dev/null (only when `divert`); our own buffered answers are flushed
/// by `run_stream` only at the end of the stream, so nothing of ours is lost.
fn with_stdout_diverted<T>(divert: bool, f: impl FnOnce() -> T) -> T {
    if !divert {
        return f();
    }
    use std::os::fd::AsRawFd;
    let null = std::fs::OpenOptions::new().write(true).open("/dev/null").unwrap();
    let _ = std::io::stdout().flush();
    let saved = unsafe { dup(1) };
    unsafe { dup2(null.as_raw_fd(), 1) };
    let r = f();
    let _ = std::io::stdout().flush();
    unsafe {
        dup2(saved, 1);
        close(saved);
    }
    r
}

// ============================================================================================ c01d

pub struct Diff;

fn gen_ops(rng: &mut Rng) -> String {
    let n = 1 + rng.below(6);
    let mut ops: Vec<String> = vec![];
    for _ in 0..n {
        let key = |r: &mut Rng| format!("k{}", r.below(12));
        ops.push(match rng.below(16) {
            0 | 1 => "free".to_string(),
            2 => format!("xfer:{}", [1i128, 1_000_000_000_000_000_000, 123_456_789_012_345_678_901, 0][rng.below(4) as usize]),
            3 => format!("xres:{}", [1i128, 5_000_000_000_000_000_000, 999_999_999_999_999_999_999][rng.below(3) as usize]),
            4 => "newacct".to_string(),
            5 => format!("newres:{}:{}", [0u8, 2, 18][rng.below(3) as usize], 1 + rng.below(1000)),
            6 | 7 => format!("mintnf:{}", [1u64, 3, 17, 60, 150][rng.below(5) as usize]),
            8 | 9 | 10 => format!("kvins:{}:{}:v{}", rng.below(2), key(rng), rng.below(1000)),
            11 => format!("kvrm:{}:{}", rng.below(2), key(rng)),
            12 => format!("kvnew:{}:v{}", key(rng), rng.below(50)),
            13 => format!("emit:{}", rng.below(1 << 20)),
            14 => format!("meta:m{}:v{}", rng.below(5), rng.below(100)),
            _ => if rng.chance(1, 2) { "failassert".to_string() } else { "badcall".to_string() },
        });
    }
    ops.join(",")
}

impl Area for Diff {
    fn gen(&self, rng: &mut Rng, n: usize, out: &mut dyn Write) {
        for i in 0..n {
            let nonce = 5000 + i as u32;
            if i % 29 == 11 {
                writeln!(out, "tx {} nolock {}", nonce, gen_ops(rng)).unwrap();
            } else if i % 53 == 17 {
                writeln!(out, "tx {} lock what:ever", nonce).unwrap();
            } else {
                writeln!(out, "tx {} lock {}", nonce, gen_ops(rng)).unwrap();
            }
        }
    }
    fn runner(&self) -> Box<dyn Runner> {
        Box::new(DiffR { env: None, warm: DefaultVmModules::default(), child: None })
    }
    fn consts(&self) -> Vec<(String, String)> {
        consts_c01()
    }
}

struct ChildProc {
    _child: Child,
    stdin: ChildStdin,
    stderr: BufReader<ChildStderr>,
}

struct DiffR {
    env: Option<Env>,
    warm: DefaultVmModules,
    child: Option<ChildProc>,
}

const PIECES: [&str; 8] = ["class", "outcome", "state_updates", "events", "fee_summary", "logs", "fee_flow", "summary"];

/// `scrypto_encode`d pieces of a receipt, hashed.
fn digest(r: &TransactionReceipt) -> Vec<String> {
    let h = |b: Vec<u8>| hex(&hash(&b).0[0..8]);
    let fee = h(scrypto_encode(&r.fee_summary).unwrap());
    match &r.result {
        TransactionResult::Commit(c) => {
            let class = match &c.outcome {
                TransactionOutcome::Success(_) => "commit-success",
                TransactionOutcome::Failure(_) => "commit-failure",
            };
            vec![
                class.to_string(),
                h(scrypto_encode(&c.outcome).unwrap()),
                h(scrypto_encode(&c.state_updates).unwrap()),
                h(scrypto_encode(&c.application_events).unwrap()),
                fee,
                h(scrypto_encode(&c.application_logs).unwrap()),
                h(scrypto_encode(&(&c.fee_source, &c.fee_destination)).unwrap()),
                h(scrypto_encode(&c.state_update_summary).unwrap()),
            ]
        }
        TransactionResult::Reject(rej) => vec!["reject".to_string(), h(scrypto_encode(&rej.reason).unwrap()), "-".into(), "-".into(), fee, "-".into(), "-".into(), "-".into()],
        TransactionResult::Abort(a) => vec!["abort".to_string(), h(scrypto_encode(&a.reason).unwrap()), "-".into(), "-".into(), fee, "-".into(), "-".into(), "-".into()],
    }
}

fn flags_config(bits: u32, depth: usize) -> ExecutionConfig {
    let mut c = ExecutionConfig::for_notarized_transaction(NetworkDefinition::simulator());
    c.enable_kernel_trace = bits & 1 != 0;
    c.enable_cost_breakdown = bits & 2 != 0;
    c.execution_trace = if bits & 4 != 0 { Some(depth) } else { None };
    c.enable_debug_information = bits & 8 != 0;
    c
}

fn run_one(db: &InMemorySubstateDatabase, vm: &DefaultVmModules, cfg: &ExecutionConfig, exe: &ExecutableTransaction) -> Vec<String> {
    match catch(|| execute_transaction(db, vm, cfg, exe)) {
        Ok(r) => digest(&r),
        Err(m) => {
            let mut v = vec!["panic".to_string(), hex(&hash(m.as_bytes()).0[0..8])];
            v.resize(PIECES.len(), "-".to_string());
            v
        }
    }
}

fn trace_depth(nonce: u32) -> usize {
    [16usize, 1, 0, 3][(nonce % 4) as usize]
}

impl DiffR {
    fn child(&mut self) -> &mut ChildProc {
        if self.child.is_none() {
            let exe = std::env::current_exe().unwrap();
            let mut ch = Command::new(exe).arg("child").stdin(Stdio::piped()).stdout(Stdio::null()).stderr(Stdio::piped()).spawn().unwrap();
            let stdin = ch.stdin.take().unwrap();
            let stderr = BufReader::new(ch.stderr.take().unwrap());
            self.child = Some(ChildProc { _child: ch, stdin, stderr });
        }
        self.child.as_mut().unwrap()
    }
}

impl Runner for DiffR {
    fn step(&mut self, line: &str) -> Answer {
        let t: Vec<&str> = line.split(' ').filter(|x| !x.is_empty()).collect();
        let (nonce, lock, ops) = match t.as_slice() {
            ["tx", n, l, ops] if *l == "lock" || *l == "nolock" => match n.parse::<u32>() {
                Ok(v) => (v, *l == "lock", *ops),
                Err(_) => return Answer::ok("bad-op"),
            },
            _ => return Answer::ok("bad-op"),
        };
        if self.env.is_none() {
            self.env = Some(Env::new());
        }
        let exe = match self.env.as_ref().unwrap().executable(nonce, lock, ops) {
            Some(e) => e,
            None => return Answer::ok("bad-op"),
        };
        let depth = trace_depth(nonce);
        let mut results: Vec<(String, Vec<String>)> = vec![];
        {
            let env = self.env.as_ref().unwrap();
            // this process: combinations without kernel trace (which prints to stdout). The detailed cost
            // breakdown (`enable_debug_information`) makes an execution ~100x slower, so only two of the
            // eight combinations containing it run per case and process, rotating with the nonce: every
            // 4 consecutive cases cover all 16 combinations.
            let rot = (nonce % 4) * 2;
            for bits in [0u32, 2, 4, 6, 8 + rot] {
                let cfg = flags_config(bits, depth);
                let db = env.db.clone();
                if bits == 0 || bits == 6 {
                    let fresh = DefaultVmModules::default();
                    results.push((format!("p0-cold-f{}", bits), run_one(&db, &fresh, &cfg, &exe)));
                }
                results.push((format!("p0-warm-f{}", bits), run_one(&db, &self.warm, &cfg, &exe)));
            }
            // 8 threads at once, each on its own clone; half share the warm VM, half use a fresh one
            let warm = &self.warm;
            let exe_ref = &exe;
            let thr: Vec<(String, Vec<String>)> = std::thread::scope(|s| {
                let hs: Vec<_> = (0..8u32)
                    .map(|i| {
                        let db = env.db.clone();
                        s.spawn(move || {
                            let bits = [0u32, 2, 4, 6, 0, 2, 4, 8 + ((rot + 2) % 8)][i as usize];
                            let cfg = flags_config(bits, depth);
                            if i % 4 != 3 {
                                (format!("p0-thread{}-warm-f{}", i, bits), run_one(&db, warm, &cfg, exe_ref))
                            } else {
                                let fresh = DefaultVmModules::default();
                                (format!("p0-thread{}-cold-f{}", i, bits), run_one(&db, &fresh, &cfg, exe_ref))
                            }
                        })
                    })
                    .collect();
                hs.into_iter().map(|h| h.join().unwrap_or_else(|_| ("p0-thread-died".to_string(), vec!["panic".to_string(); PIECES.len()]))).collect()
            });
            results.extend(thr);
        }
        // second process: all 16 combinations (cold), one warm, and 8 threads with kernel trace mixed in
        {
            let ch = self.child();
            let ok = writeln!(ch.stdin, "{}", line).and_then(|_| ch.stdin.flush()).is_ok();
            let mut resp = String::new();
            if !ok || ch.stderr.read_line(&mut resp).unwrap_or(0) == 0 {
                return Answer::fail("child-died", "second-process-died", "the second process did not answer");
            }
            for item in resp.trim().split(';').filter(|x| !x.is_empty()) {
                if let Some((name, val)) = item.split_once('=') {
                    results.push((format!("p1-{}", name), val.split('/').map(|x| x.to_string()).collect()));
                }
            }
        }
        let base = results[0].1.clone();
        let ans = format!("{} su={} ev={} fee={} variants={}", base[0], base[2], base[3], base[4], results.len());
        if results.len() < 7 + 8 + 11 + 8 {
            return Answer::fail(ans, "variants-missing", format!("only {} variants ran", results.len()));
        }
        for (name, d) in &results {
            if d.len() != base.len() {
                return Answer::fail(ans, format!("nondeterminism:{}:shape", name), "digest shape differs");
            }
            for (i, piece) in PIECES.iter().enumerate() {
                if d[i] != base[i] {
                    // strip the per-case part of the variant name to get a stable key
                    let vclass: String = name.chars().filter(|c| !c.is_ascii_digit()).collect();
                    return Answer::fail(
                        ans,
                        format!("nondeterminism:{}:{}", vclass, piece),
                        format!("variant {} differs from {} in {}: {} vs {}", name, results[0].0, piece, d[i], base[i]),
                    );
                }
            }
        }
        if base[0] == "panic" {
            return Answer::fail(ans, "execute-transaction-panicked", "execute_transaction panicked (see C11)");
        }
        Answer::ok(ans)
    }
}

/// second process: reads `tx` lines on stdin, answers one line per request on stderr
fn child_main() {
    std::panic::set_hook(Box::new(|_| {}));
    let env = Env::new();
    let warm = DefaultVmModules::default();
    let stdin = std::io::stdin();
    let mut line = String::new();
    loop {
        line.clear();
        if stdin.lock().read_line(&mut line).unwrap_or(0) == 0 {
            break;
        }
        let t: Vec<&str> = line.trim().split(' ').filter(|x| !x.is_empty()).collect();
        let mut out = String::new();
        if let ["tx", n, l, ops] = t.as_slice() {
            if let (Ok(nonce), Some(lock)) = (n.parse::<u32>(), match *l { "lock" => Some(true), "nolock" => Some(false), _ => None }) {
                if let Some(exe) = env.executable(nonce, lock, ops) {
                    let depth = trace_depth(nonce);
                    let rot = (nonce % 4) * 2;
                    for bits in [0u32, 1, 2, 3, 4, 5, 6, 7, 9 + rot] {
                        let cfg = flags_config(bits, depth);
                        let db = env.db.clone();
                        if bits == 0 || bits == 7 {
                            let fresh = DefaultVmModules::default();
                            out.push_str(&format!("cold-f{}={};", bits, run_one(&db, &fresh, &cfg, &exe).join("/")));
                        }
                        out.push_str(&format!("warm-f{}={};", bits, run_one(&db, &warm, &cfg, &exe).join("/")));
                    }
                    let exe_ref = &exe;
                    let warm_ref = &warm;
                    let envr = &env;
                    let thr: Vec<String> = std::thread::scope(|s| {
                        let hs: Vec<_> = (0..8u32)
                            .map(|i| {
                                let db = envr.db.clone();
                                s.spawn(move || {
                                    // odd threads trace the kernel (stdout of this process is /dev/null)
                                    let bits = [1u32, 3, 5, 7, 0, 2, 4, 9 + ((rot + 2) % 8)][i as usize];
                                    let cfg = flags_config(bits, depth);
                                    format!("thread{}-f{}={};", i, bits, run_one(&db, warm_ref, &cfg, exe_ref).join("/"))
                                })
                            })
                            .collect();
                        hs.into_iter().map(|h| h.join().unwrap_or_else(|_| "thread-died=panic;".to_string())).collect()
                    });
                    for s in thr {
                        out.push_str(&s);
                    }
                }
            }
        }
        eprintln!("{}", out);
    }
}

// ============================================================================================ consts

/// Declarative facts for `Generated/C01.lean`: the module bits as compiled, and — from the source text,
/// because the items are private — the field list of `ExecutionConfig` / `SystemOverrides` and the set
/// of `init_input.*` / `system_overrides.*` fields that `resolve_modules` reads.
fn consts_c01() -> Vec<(String, String)> {
    let mut v: Vec<(String, String)> = vec![];
    let n = |k: &str, x: u64| (k.to_string(), x.to_string());
    v.push(n("KERNEL_TRACE", EnabledModules::KERNEL_TRACE.bits() as u64));
    v.push(n("LIMITS", EnabledModules::LIMITS.bits() as u64));
    v.push(n("COSTING", EnabledModules::COSTING.bits() as u64));
    v.push(n("AUTH", EnabledModules::AUTH.bits() as u64));
    v.push(n("TRANSACTION_RUNTIME", EnabledModules::TRANSACTION_RUNTIME.bits() as u64));
    v.push(n("EXECUTION_TRACE", EnabledModules::EXECUTION_TRACE.bits() as u64));
    v.push(n("HASH_LENGTH", Hash::LENGTH as u64));
    v.push(n("NODE_ID_LENGTH", NodeId::LENGTH as u64));
    v.push(n("ID_COUNTER_MAX", u32::MAX as u64));
    let ets: Vec<String> = (0..=255u8).filter(|b| EntityType::from_repr(*b).is_some()).map(|b| b.to_string()).collect();
    v.push(("entityTypeBytes".to_string(), format!("[{}]\traw\tList Nat", ets.join(", "))));

    let exec_src = std::fs::read_to_string("/repo/radix-engine/src/transaction/transaction_executor.rs").unwrap_or_default();
    let cb_src = std::fs::read_to_string("/repo/radix-engine/src/system/system_callback.rs").unwrap_or_default();
    let fields = |src: &str, name: &str| -> Vec<String> {
        let re = regex::Regex::new(&format!(r"(?s)pub struct {}\s*\{{(.*?)\n\}}", name)).unwrap();
        let body = re.captures(src).map(|c| c[1].to_string()).unwrap_or_default();
        let fre = regex::Regex::new(r"(?m)^\s*pub\s+([a-z_0-9]+)\s*:").unwrap();
        fre.captures_iter(&body).map(|c| c[1].to_string()).collect()
    };
    const CFG: [&str; 5] = ["enable_kernel_trace", "enable_cost_breakdown", "execution_trace", "enable_debug_information", "system_overrides"];
    const OV: [&str; 7] = ["disable_costing", "disable_limits", "disable_auth", "abort_when_loan_repaid", "network_definition", "costing_parameters", "limit_parameters"];
    const INIT: [&str; 7] = ["enable_kernel_trace", "enable_cost_breakdown", "execution_trace", "enable_debug_information", "system_parameters", "system_logic_version", "system_overrides"];
    // name -> code of the Lean constructor (`CfgField.code` etc.); an unknown name gets 999 so that the
    // Lean side condition `… = all.map code` fails when the code grows a field the model does not know
    let code = |tbl: &[&str], x: &str| -> usize { tbl.iter().position(|y| *y == x).unwrap_or(999) };
    let codes = |tbl: &[&str], xs: &[String]| -> String { format!("[{}]", xs.iter().map(|x| code(tbl, x).to_string()).collect::<Vec<_>>().join(", ")) };
    let names = |xs: &[String]| -> String { format!("[{}]", xs.iter().map(|x| format!("\"{}\"", x)).collect::<Vec<_>>().join(", ")) };
    let raw = |k: &str, term: String, ty: &str| (k.to_string(), format!("{}\traw\t{}", term, ty));
    let cfg_fields = fields(&exec_src, "ExecutionConfig");
    let ov_fields = fields(&exec_src, "SystemOverrides");
    let init_fields = fields(&cb_src, "SystemSelfInit");
    v.push(raw("executionConfigFieldNames", names(&cfg_fields), "List String"));
    v.push(raw("executionConfigFields", codes(&CFG, &cfg_fields), "List Nat"));
    v.push(raw("systemOverridesFieldNames", names(&ov_fields), "List String"));
    v.push(raw("systemOverridesFields", codes(&OV, &ov_fields), "List Nat"));
    v.push(raw("systemSelfInitFieldNames", names(&init_fields), "List String"));
    v.push(raw("systemSelfInitFields", codes(&INIT, &init_fields), "List Nat"));
    // body of resolve_modules
    let body = {
        let start = cb_src.find("fn resolve_modules(").unwrap_or(0);
        let rest = &cb_src[start..];
        let end = rest.find("\nimpl<").unwrap_or(rest.len());
        rest[..end].to_string()
    };
    let uniq = |re: &str| -> Vec<String> {
        let r = regex::Regex::new(re).unwrap();
        let mut xs: Vec<String> = vec![];
        for c in r.captures_iter(&body) {
            let f = c[1].to_string();
            if !xs.contains(&f) {
                xs.push(f);
            }
        }
        xs.sort_by_key(|x| x.clone());
        xs
    };
    let mut init_reads = uniq(r"init_input\s*\.\s*([a-z_0-9]+)");
    init_reads.sort_by_key(|x| code(&INIT, x));
    let mut ov_reads = uniq(r"system_overrides\s*\.\s*([a-z_0-9]+)");
    ov_reads.sort_by_key(|x| code(&OV, x));
    v.push(raw("resolveReadsInitNames", names(&init_reads), "List String"));
    v.push(raw("resolveReadsInit", codes(&INIT, &init_reads), "List Nat"));
    v.push(raw("resolveReadsOverridesNames", names(&ov_reads), "List String"));
    v.push(raw("resolveReadsOverrides", codes(&OV, &ov_reads), "List Nat"));
    // how SystemSelfInit::new fills its fields: pairs (init field, config field) for `x: execution_config.y`
    let pairs = {
        let start = cb_src.find("impl SystemSelfInit").unwrap_or(0);
        let rest = &cb_src[start..];
        let end = rest.find("\n}\n").unwrap_or(rest.len());
        let r = regex::Regex::new(r"([a-z_0-9]+)\s*:\s*execution_config\s*\.\s*([a-z_0-9]+)").unwrap();
        let mut ps: Vec<(usize, usize)> = r.captures_iter(&rest[..end]).map(|c| (code(&INIT, &c[1]), code(&CFG, &c[2]))).collect();
        ps.sort();
        ps.iter().map(|(a, b)| format!("({}, {})", a, b)).collect::<Vec<_>>()
    };
    v.push(raw("selfInitFromConfig", format!("[{}]", pairs.join(", ")), "List (Nat × Nat)"));
    v
}

fn main() {
    let args: Vec<String> = std::env::args().collect();
    if args.len() >= 2 && args[1] == "child" {
        child_main();
        return;
    }
    if args.len() >= 2 && args[1] == "timing" {
        // developer aid: cost of one execution per variant class (stdout should be /dev/null)
        let env = Env::new();
        let warm = DefaultVmModules::default();
        let exe = env.executable(1, true, "free,kvins:0:k1:v1,mintnf:17").unwrap();
        for (name, bits, cold) in [("warm-f0", 0u32, false), ("f2", 2, false), ("f4", 4, false), ("f8", 8, false), ("f8", 8, false), ("f12", 12, false), ("f6", 6, false)] {
            let t0 = std::time::Instant::now();
            let db = env.db.clone();
            let t1 = std::time::Instant::now();
            let fresh = DefaultVmModules::default();
            let d = run_one(&db, if cold { &fresh } else { &warm }, &flags_config(bits, 16), &exe);
            eprintln!("{} clone={:?} run={:?} {}", name, t1 - t0, t1.elapsed(), d[0]);
        }
        return;
    }
    main_with(&[("c01a", &IdAlloc), ("c01r", &Resolve), ("c01d", &Diff)]);
}
