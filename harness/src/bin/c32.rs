//! C32 — transaction identifiers commit to the whole transaction.
//!
//! area `c32` (stateless, one case per line):
//!   prep  <kind> <v2> <maxUser> <maxLedger> <maxChild> <maxSub> <maxBlobs> <payload-hex>
//!   prepx <kind> <v2> <maxUser> <maxLedger> <maxChild> <maxSub> <maxBlobs> <payload-hex> <implAccepts>
//!     <kind> := v1intent | v1signed | v1notarized | v2subintent | v2txintent | v2signed | v2notarized
//!               | v2partial | v2signedpartial | user
//!   answer: ok k=<resolved kind> eff=<effective_length> tot=<total_bytes_hashed> ids=<hash,hash,…>
//!           | err <NotSupported|TooLarge|Decode|TooMany:<type>:<actual>:<max>|LengthOverflow|BadDisc:<none|n>>
//!           | rej        (prepx only, when the implementation rejected)
//!   `ids` = root summary hash, then the enclosed identifiers outermost first
//!           (notarized, signed intent, transaction intent, subintent₁ …; partial: partial, root subintent, subintents).
//!
//! The runner calls the REAL `Prepared*::prepare(raw, settings)`. `prepx` is used for payloads mutated inside
//! a typed leaf, where the Lean model (untyped leaves) is only an over-approximation (see Model/TxHash.lean).
//!
//! Property oracle (on the implementation only, for every accepted payload):
//!   reencode      typed decode → encode gives the same bytes; preparing the typed value gives the same ids
//!   accessor      the public hash accessors return the summary hashes
//!   trailing      payload ++ [b] is rejected
//!   prefix/disc   wrong payload prefix / enum kind / discriminator / field count is rejected
//!   byte-binds    changing any (sampled) byte gives a rejected payload or a different root hash, and appending
//!   field-binds   changing a typed field changes exactly the identifiers that cover it (V1/V2 notarized)
//!   too-large     a user payload longer than max_user_payload_length is rejected with TransactionTooLarge
#[path = "../c32c33_common.rs"]
mod common;
use common::*;
use harness::util::*;
use radix_common::prelude::*;
use radix_transactions::manifest::*;
use radix_transactions::model::*;
use radix_transactions::prelude::*;
use std::io::Write;

pub struct A;

#[derive(Clone, Copy, PartialEq, Eq, Debug)]
enum Kind {
    V1Intent,
    V1Signed,
    V1Notarized,
    V2Subintent,
    V2TxIntent,
    V2Signed,
    V2Notarized,
    V2Partial,
    V2SignedPartial,
    User,
}

const KINDS: [(Kind, &str); 10] = [
    (Kind::V1Intent, "v1intent"),
    (Kind::V1Signed, "v1signed"),
    (Kind::V1Notarized, "v1notarized"),
    (Kind::V2Subintent, "v2subintent"),
    (Kind::V2TxIntent, "v2txintent"),
    (Kind::V2Signed, "v2signed"),
    (Kind::V2Notarized, "v2notarized"),
    (Kind::V2Partial, "v2partial"),
    (Kind::V2SignedPartial, "v2signedpartial"),
    (Kind::User, "user"),
];

fn kind_name(k: Kind) -> &'static str {
    KINDS.iter().find(|x| x.0 == k).unwrap().1
}
fn parse_kind(s: &str) -> Option<Kind> {
    KINDS.iter().find(|x| x.1 == s).map(|x| x.0)
}
/// number of leading payload bytes that are pure framing (prefix, enum header, nested tuple headers and the
/// value-kind bytes that `prepare_from_value` checks itself) before the first typed leaf starts
fn leading_framing(k: Kind) -> usize {
    match k {
        Kind::V1Intent => 4,
        Kind::V1Signed => 6,
        Kind::V1Notarized | Kind::User => 8,
        Kind::V2Subintent => 7,
        Kind::V2TxIntent => 5,
        Kind::V2Signed => 7,
        Kind::V2Notarized => 9,
        Kind::V2Partial => 9,
        Kind::V2SignedPartial => 11,
    }
}
fn is_user(k: Kind) -> bool {
    matches!(k, Kind::V1Notarized | Kind::V2Notarized | Kind::User)
}

struct Info {
    kind: Kind,
    eff: usize,
    tot: usize,
    ids: Vec<Hash>,
    /// the same identifiers through the public accessor traits (None where there is no accessor)
    acc: Vec<Option<Hash>>,
}

fn subs(n: &PreparedNonRootSubintentsV2) -> Vec<Hash> {
    n.subintents.iter().map(|s| s.summary.hash).collect()
}

fn info_v1n(p: &PreparedNotarizedTransactionV1) -> Info {
    Info {
        kind: Kind::V1Notarized,
        eff: p.summary.effective_length,
        tot: p.summary.total_bytes_hashed,
        ids: vec![p.summary.hash, p.signed_intent.summary.hash, p.signed_intent.intent.summary.hash],
        acc: vec![Some(*p.notarized_transaction_hash().as_hash()), Some(*p.signed_transaction_intent_hash().as_hash()), Some(*p.transaction_intent_hash().as_hash())],
    }
}
fn info_v2n(p: &PreparedNotarizedTransactionV2) -> Info {
    let ti = &p.signed_intent.transaction_intent;
    let mut ids = vec![p.summary.hash, p.signed_intent.summary.hash, ti.summary.hash];
    ids.extend(subs(&ti.non_root_subintents));
    let mut acc = vec![Some(*p.notarized_transaction_hash().as_hash()), Some(*p.signed_transaction_intent_hash().as_hash()), Some(*p.transaction_intent_hash().as_hash())];
    acc.extend(p.non_root_subintent_hashes().into_iter().map(|h| Some(*h.as_hash())));
    Info { kind: Kind::V2Notarized, eff: p.summary.effective_length, tot: p.summary.total_bytes_hashed, ids, acc }
}

fn prepare_kind(k: Kind, payload: &[u8], s: &PreparationSettings) -> Result<Info, PrepareError> {
    let v = payload.to_vec();
    Ok(match k {
        Kind::V1Intent => {
            let p = PreparedIntentV1::prepare(&RawTransactionIntent::from_vec(v), s)?;
            Info { kind: k, eff: p.summary.effective_length, tot: p.summary.total_bytes_hashed, ids: vec![p.summary.hash], acc: vec![Some(*p.transaction_intent_hash().as_hash())] }
        }
        Kind::V1Signed => {
            let p = PreparedSignedIntentV1::prepare(&RawSignedTransactionIntent::from_vec(v), s)?;
            Info {
                kind: k,
                eff: p.summary.effective_length,
                tot: p.summary.total_bytes_hashed,
                ids: vec![p.summary.hash, p.intent.summary.hash],
                acc: vec![Some(*p.signed_transaction_intent_hash().as_hash()), Some(*p.transaction_intent_hash().as_hash())],
            }
        }
        Kind::V1Notarized => info_v1n(&PreparedNotarizedTransactionV1::prepare(&RawNotarizedTransaction::from_vec(v), s)?),
        Kind::V2Subintent => {
            let p = PreparedSubintentV2::prepare(&RawSubintent::from_vec(v), s)?;
            Info { kind: k, eff: p.summary.effective_length, tot: p.summary.total_bytes_hashed, ids: vec![p.summary.hash], acc: vec![Some(*p.subintent_hash().as_hash())] }
        }
        Kind::V2TxIntent => {
            let p = PreparedTransactionIntentV2::prepare(&RawTransactionIntent::from_vec(v), s)?;
            let mut ids = vec![p.summary.hash];
            ids.extend(subs(&p.non_root_subintents));
            let mut acc = vec![Some(*p.transaction_intent_hash().as_hash())];
            acc.extend(p.non_root_subintent_hashes().into_iter().map(|h| Some(*h.as_hash())));
            Info { kind: k, eff: p.summary.effective_length, tot: p.summary.total_bytes_hashed, ids, acc }
        }
        Kind::V2Signed => {
            let p = PreparedSignedTransactionIntentV2::prepare(&RawSignedTransactionIntent::from_vec(v), s)?;
            let mut ids = vec![p.summary.hash, p.transaction_intent.summary.hash];
            ids.extend(subs(&p.transaction_intent.non_root_subintents));
            let mut acc = vec![Some(*p.signed_transaction_intent_hash().as_hash()), Some(*p.transaction_intent_hash().as_hash())];
            acc.extend(p.non_root_subintent_hashes().into_iter().map(|h| Some(*h.as_hash())));
            Info { kind: k, eff: p.summary.effective_length, tot: p.summary.total_bytes_hashed, ids, acc }
        }
        Kind::V2Notarized => info_v2n(&PreparedNotarizedTransactionV2::prepare(&RawNotarizedTransaction::from_vec(v), s)?),
        Kind::V2Partial => {
            let p = PreparedPartialTransactionV2::prepare(&RawPartialTransaction::from_vec(v), s)?;
            let mut ids = vec![p.summary.hash, p.root_subintent.summary.hash];
            ids.extend(subs(&p.non_root_subintents));
            let mut acc = vec![None, Some(*p.subintent_hash().as_hash())];
            acc.extend(p.non_root_subintent_hashes().map(|h| Some(*h.as_hash())));
            Info { kind: k, eff: p.summary.effective_length, tot: p.summary.total_bytes_hashed, ids, acc }
        }
        Kind::V2SignedPartial => {
            let p = PreparedSignedPartialTransactionV2::prepare(&RawSignedPartialTransaction::from_vec(v), s)?;
            let pt = &p.partial_transaction;
            let mut ids = vec![p.summary.hash, pt.summary.hash, pt.root_subintent.summary.hash];
            ids.extend(subs(&pt.non_root_subintents));
            let mut acc = vec![None, None, Some(*p.subintent_hash().as_hash())];
            acc.extend(p.non_root_subintent_hashes().map(|h| Some(*h.as_hash())));
            Info { kind: k, eff: p.summary.effective_length, tot: p.summary.total_bytes_hashed, ids, acc }
        }
        Kind::User => match RawNotarizedTransaction::from_vec(v).prepare(s)? {
            PreparedUserTransaction::V1(p) => info_v1n(&p),
            PreparedUserTransaction::V2(p) => info_v2n(&p),
        },
    })
}

/// typed decode → re-encode (None: typed decode failed)
fn reencode(k: Kind, payload: &[u8]) -> Option<Result<Vec<u8>, String>> {
    let v = payload.to_vec();
    fn e<T: std::fmt::Debug>(x: T) -> String {
        format!("{:?}", x)
    }
    macro_rules! rt {
        ($ty:ty, $raw:ty) => {{
            let raw = <$raw>::from_vec(v);
            match <$ty>::from_raw(&raw) {
                Err(_) => None,
                Ok(t) => Some(t.to_raw().map(|r| r.to_vec()).map_err(e)),
            }
        }};
    }
    match k {
        Kind::V1Intent => rt!(IntentV1, RawTransactionIntent),
        Kind::V1Signed => rt!(SignedIntentV1, RawSignedTransactionIntent),
        Kind::V1Notarized => rt!(NotarizedTransactionV1, RawNotarizedTransaction),
        Kind::V2Subintent => rt!(SubintentV2, RawSubintent),
        Kind::V2TxIntent => rt!(TransactionIntentV2, RawTransactionIntent),
        Kind::V2Signed => rt!(SignedTransactionIntentV2, RawSignedTransactionIntent),
        Kind::V2Notarized => rt!(NotarizedTransactionV2, RawNotarizedTransaction),
        Kind::V2Partial => rt!(PartialTransactionV2, RawPartialTransaction),
        Kind::V2SignedPartial => rt!(SignedPartialTransactionV2, RawSignedPartialTransaction),
        Kind::User => match RawNotarizedTransaction::from_vec(v).into_typed() {
            Err(_) => None,
            Ok(UserTransaction::V1(t)) => Some(t.to_raw().map(|r| r.to_vec()).map_err(e)),
            Ok(UserTransaction::V2(t)) => Some(t.to_raw().map(|r| r.to_vec()).map_err(e)),
        },
    }
}

fn err_name(e: &PrepareError) -> String {
    match e {
        PrepareError::TransactionTypeNotSupported => "err NotSupported".into(),
        PrepareError::TransactionTooLarge => "err TooLarge".into(),
        PrepareError::DecodeError(_) => "err Decode".into(),
        PrepareError::EncodeError(_) => "err Encode".into(),
        PrepareError::TooManyValues { value_type, actual, max } => format!("err TooMany:{:?}:{}:{}", value_type, actual, max),
        PrepareError::LengthOverflow => "err LengthOverflow".into(),
        PrepareError::UnexpectedTransactionDiscriminator { actual } => match actual {
            None => "err BadDisc:none".into(),
            Some(d) => format!("err BadDisc:{}", d),
        },
    }
}

fn show(r: &Result<Info, PrepareError>) -> String {
    match r {
        Err(e) => err_name(e),
        Ok(i) => format!("ok k={} eff={} tot={} ids={}", kind_name(i.kind), i.eff, i.tot, i.ids.iter().map(|h| hex::encode(h.0)).collect::<Vec<_>>().join(",")),
    }
}

fn settings_str(s: &PreparationSettings) -> String {
    format!("{} {} {} {} {} {}", s.v2_transactions_permitted as u8, s.max_user_payload_length, s.max_ledger_payload_length, s.max_child_subintents_per_intent, s.max_subintents_per_transaction, s.max_blobs)
}

fn parse_settings(t: &[&str]) -> Option<PreparationSettings> {
    let n = |i: usize| -> Option<usize> { t[i].parse::<usize>().ok() };
    Some(PreparationSettings {
        v2_transactions_permitted: match t[0] {
            "0" => false,
            "1" => true,
            _ => return None,
        },
        max_user_payload_length: n(1)?,
        max_ledger_payload_length: n(2)?,
        max_child_subintents_per_intent: n(3)?,
        max_subintents_per_transaction: n(4)?,
        max_blobs: n(5)?,
    })
}

fn run(k: Kind, payload: &[u8], s: &PreparationSettings) -> Result<Result<Info, PrepareError>, String> {
    catch(|| prepare_kind(k, payload, s))
}

// ------------------------------------------------------------------------------------------ typed field perturbations

/// (name, mutation, indices of ids that MUST change; all other ids must stay the same; subintent ids (index ≥ 3) handled by `sub`)
type MutV1 = (&'static str, Box<dyn Fn(&mut NotarizedTransactionV1)>, &'static [usize]);

fn flip_pk(pk: &mut PublicKey) {
    match pk {
        PublicKey::Secp256k1(k) => k.0[7] ^= 1,
        PublicKey::Ed25519(k) => k.0[7] ^= 1,
    }
}
fn flip_sig(s: &mut SignatureV1) {
    match s {
        SignatureV1::Secp256k1(k) => k.0[9] ^= 1,
        SignatureV1::Ed25519(k) => k.0[9] ^= 1,
    }
}
fn dummy_sig() -> SignatureWithPublicKeyV1 {
    SignatureWithPublicKeyV1::Secp256k1 { signature: Secp256k1Signature([3u8; 65]) }
}

fn muts_v1() -> Vec<MutV1> {
    const ALL: &[usize] = &[0, 1, 2];
    vec![
        ("header.network_id", Box::new(|t| t.signed_intent.intent.header.network_id ^= 1), ALL),
        ("header.start_epoch", Box::new(|t| t.signed_intent.intent.header.start_epoch_inclusive = Epoch::of(t.signed_intent.intent.header.start_epoch_inclusive.number() ^ 1)), ALL),
        ("header.end_epoch", Box::new(|t| t.signed_intent.intent.header.end_epoch_exclusive = Epoch::of(t.signed_intent.intent.header.end_epoch_exclusive.number() ^ 1)), ALL),
        ("header.nonce", Box::new(|t| t.signed_intent.intent.header.nonce ^= 1), ALL),
        ("header.notary_public_key", Box::new(|t| flip_pk(&mut t.signed_intent.intent.header.notary_public_key)), ALL),
        ("header.notary_is_signatory", Box::new(|t| t.signed_intent.intent.header.notary_is_signatory ^= true), ALL),
        ("header.tip_percentage", Box::new(|t| t.signed_intent.intent.header.tip_percentage ^= 1), ALL),
        ("instructions.push", Box::new(|t| t.signed_intent.intent.instructions.0.push(InstructionV1::DropAuthZoneProofs(DropAuthZoneProofs))), ALL),
        ("instructions.pop", Box::new(|t| { t.signed_intent.intent.instructions.0.pop(); }), ALL),
        ("blobs.push", Box::new(|t| t.signed_intent.intent.blobs.blobs.push(BlobV1(vec![1, 2, 3]))), ALL),
        ("blobs.push_empty", Box::new(|t| t.signed_intent.intent.blobs.blobs.push(BlobV1(vec![]))), ALL),
        ("blobs.flip", Box::new(|t| if let Some(b) = t.signed_intent.intent.blobs.blobs.first_mut() { b.0.push(0) } else { t.signed_intent.intent.blobs.blobs.push(BlobV1(vec![9])) }), ALL),
        ("message", Box::new(|t| t.signed_intent.intent.message = match &t.signed_intent.intent.message { MessageV1::None => MessageV1::Plaintext(PlaintextMessageV1::text("x")), _ => MessageV1::None }), ALL),
        ("intent_signatures.push", Box::new(|t| t.signed_intent.intent_signatures.signatures.push(IntentSignatureV1(dummy_sig()))), &[0, 1]),
        ("intent_signatures.pop", Box::new(|t| if t.signed_intent.intent_signatures.signatures.pop().is_none() { t.signed_intent.intent_signatures.signatures.push(IntentSignatureV1(dummy_sig())) }), &[0, 1]),
        ("notary_signature", Box::new(|t| flip_sig(&mut t.notary_signature.0)), &[0]),
    ]
}

/// (name, mutation, base ids that must change, index of the subintent whose id must change)
type MutV2 = (&'static str, Box<dyn Fn(&mut NotarizedTransactionV2)>, &'static [usize], Option<usize>);

fn muts_v2() -> Vec<MutV2> {
    const ALL: &[usize] = &[0, 1, 2];
    fn ti(t: &mut NotarizedTransactionV2) -> &mut TransactionIntentV2 {
        &mut t.signed_transaction_intent.transaction_intent
    }
    vec![
        ("txheader.notary_public_key", Box::new(|t| flip_pk(&mut ti(t).transaction_header.notary_public_key)), ALL, None),
        ("txheader.notary_is_signatory", Box::new(|t| ti(t).transaction_header.notary_is_signatory ^= true), ALL, None),
        ("txheader.tip_basis_points", Box::new(|t| ti(t).transaction_header.tip_basis_points ^= 1), ALL, None),
        ("root.header.network_id", Box::new(|t| ti(t).root_intent_core.header.network_id ^= 1), ALL, None),
        ("root.header.start_epoch", Box::new(|t| { let h = &mut ti(t).root_intent_core.header; h.start_epoch_inclusive = Epoch::of(h.start_epoch_inclusive.number() ^ 1) }), ALL, None),
        ("root.header.end_epoch", Box::new(|t| { let h = &mut ti(t).root_intent_core.header; h.end_epoch_exclusive = Epoch::of(h.end_epoch_exclusive.number() ^ 1) }), ALL, None),
        ("root.header.min_ts", Box::new(|t| { let h = &mut ti(t).root_intent_core.header; h.min_proposer_timestamp_inclusive = match h.min_proposer_timestamp_inclusive { None => Some(Instant::new(1)), Some(_) => None } }), ALL, None),
        ("root.header.max_ts", Box::new(|t| { let h = &mut ti(t).root_intent_core.header; h.max_proposer_timestamp_exclusive = match h.max_proposer_timestamp_exclusive { None => Some(Instant::new(1)), Some(i) => Some(Instant::new(i.seconds_since_unix_epoch ^ 1)) } }), ALL, None),
        ("root.header.intent_discriminator", Box::new(|t| ti(t).root_intent_core.header.intent_discriminator ^= 1), ALL, None),
        ("root.blobs.push", Box::new(|t| ti(t).root_intent_core.blobs.blobs.push(BlobV1(vec![7]))), ALL, None),
        ("root.message", Box::new(|t| { let c = &mut ti(t).root_intent_core; c.message = match &c.message { MessageV2::None => MessageV2::Plaintext(PlaintextMessageV1::text("x")), _ => MessageV2::None } }), ALL, None),
        ("root.children.push", Box::new(|t| { ti(t).root_intent_core.children.children.insert(ChildSubintentSpecifier { hash: SubintentHash::from_hash(Hash([0xabu8; 32])) }); }), ALL, None),
        ("root.children.pop", Box::new(|t| { let c = &mut ti(t).root_intent_core.children.children; if c.pop().is_none() { c.insert(ChildSubintentSpecifier { hash: SubintentHash::from_hash(Hash([0xcdu8; 32])) }); } }), ALL, None),
        ("root.instructions.push", Box::new(|t| ti(t).root_intent_core.instructions.0.push(InstructionV2::DropAuthZoneProofs(DropAuthZoneProofs))), ALL, None),
        ("sub0.header.intent_discriminator", Box::new(|t| if let Some(s) = ti(t).non_root_subintents.0.first_mut() { s.intent_core.header.intent_discriminator ^= 1 } else { ti(t).root_intent_core.header.intent_discriminator ^= 2 }), ALL, Some(0)),
        ("subLast.instructions.push", Box::new(|t| if let Some(s) = ti(t).non_root_subintents.0.last_mut() { s.intent_core.instructions.0.push(InstructionV2::DropAuthZoneProofs(DropAuthZoneProofs)) } else { ti(t).root_intent_core.header.intent_discriminator ^= 4 }), ALL, Some(usize::MAX)),
        ("subLast.message", Box::new(|t| if let Some(s) = ti(t).non_root_subintents.0.last_mut() { s.intent_core.message = match &s.intent_core.message { MessageV2::None => MessageV2::Plaintext(PlaintextMessageV1::text("y")), _ => MessageV2::None } } else { ti(t).root_intent_core.header.intent_discriminator ^= 8 }), ALL, Some(usize::MAX)),
        ("intent_signatures.push", Box::new(|t| t.signed_transaction_intent.transaction_intent_signatures.signatures.push(IntentSignatureV1(dummy_sig()))), &[0, 1], None),
        ("subintent_signatures.push", Box::new(|t| { let b = &mut t.signed_transaction_intent.non_root_subintent_signatures.by_subintent; if let Some(x) = b.first_mut() { x.signatures.push(IntentSignatureV1(dummy_sig())) } else { t.signed_transaction_intent.transaction_intent_signatures.signatures.push(IntentSignatureV1(dummy_sig())) } }), &[0, 1], None),
        ("notary_signature", Box::new(|t| flip_sig(&mut t.notary_signature.0)), &[0], None),
    ]
}

/// compares the ids of the mutated transaction with the original ones
fn check_ids(name: &str, base: &Info, mutated: &Info, must: &[usize], sub: Option<usize>) -> Option<(String, String)> {
    let nsub = base.ids.len().saturating_sub(3);
    let sub_idx = sub.and_then(|s| if nsub == 0 { None } else if s == usize::MAX { Some(3 + nsub - 1) } else { Some(3 + s) });
    for i in 0..base.ids.len().min(mutated.ids.len()) {
        let changed = base.ids[i] != mutated.ids[i];
        let expect = must.contains(&i) || sub_idx == Some(i);
        if changed != expect {
            return Some((format!("field-binds:{}:{}", name, if expect { "unchanged" } else { "changed" }), format!("after changing {} the identifier #{} {} (expected {})", name, i, if changed { "changed" } else { "did not change" }, if expect { "a change" } else { "no change" })));
        }
    }
    None
}

fn field_oracle(k: Kind, payload: &[u8], s: &PreparationSettings, base: &Info) -> Option<(String, String)> {
    match (k, base.kind) {
        (Kind::V1Notarized, _) | (Kind::User, Kind::V1Notarized) => {
            let tx = NotarizedTransactionV1::from_raw(&RawNotarizedTransaction::from_vec(payload.to_vec())).ok()?;
            for (name, f, must) in muts_v1() {
                let mut t = tx.clone();
                f(&mut t);
                if t == tx {
                    continue;
                }
                let raw = match t.to_raw() { Ok(r) => r, Err(_) => continue };
                if let Ok(Ok(m)) = run(Kind::V1Notarized, raw.as_slice(), s) {
                    if let Some(f) = check_ids(name, base, &m, must, None) {
                        return Some(f);
                    }
                }
            }
            None
        }
        (Kind::V2Notarized, _) | (Kind::User, Kind::V2Notarized) => {
            let tx = NotarizedTransactionV2::from_raw(&RawNotarizedTransaction::from_vec(payload.to_vec())).ok()?;
            for (name, f, must, sub) in muts_v2() {
                let mut t = tx.clone();
                f(&mut t);
                if t == tx {
                    continue;
                }
                let raw = match t.to_raw() { Ok(r) => r, Err(_) => continue };
                if let Ok(Ok(m)) = run(Kind::V2Notarized, raw.as_slice(), s) {
                    if m.ids.len() != base.ids.len() {
                        continue;
                    }
                    if let Some(f) = check_ids(name, base, &m, must, sub) {
                        return Some(f);
                    }
                }
            }
            None
        }
        _ => None,
    }
}

fn oracle(k: Kind, payload: &[u8], s: &PreparationSettings, base: &Info) -> Option<(String, String)> {
    let kn = kind_name(k);
    // accessors
    for (i, a) in base.acc.iter().enumerate() {
        if let Some(a) = a {
            if *a != base.ids[i] {
                return Some((format!("accessor:{}", kn), format!("hash accessor #{} differs from the summary hash", i)));
            }
        }
    }
    // reencode
    match reencode(k, payload) {
        None => return Some((format!("reencode-typed-decode-failed:{}", kn), "payload was prepared but the typed model cannot decode it".into())),
        Some(Err(e)) => return Some((format!("reencode-encode-failed:{}", kn), e)),
        Some(Ok(b)) => {
            if b != payload {
                return Some((format!("reencode-different-bytes:{}", kn), format!("re-encoding gives {} bytes instead of the {} prepared ones", b.len(), payload.len())));
            }
        }
    }
    // trailing bytes
    for extra in [0u8, 0x21, 0xff] {
        let mut p = payload.to_vec();
        p.push(extra);
        if let Ok(Ok(_)) = run(k, &p, s) {
            return Some((format!("trailing-accepted:{}", kn), format!("payload with trailing byte {:02x} was accepted", extra)));
        }
    }
    // leading framing
    let lead = leading_framing(k).min(payload.len());
    for i in 0..lead {
        for delta in [1u8, 0x80, 0xff] {
            let mut p = payload.to_vec();
            p[i] ^= delta;
            match run(k, &p, s) {
                Ok(Ok(m)) => {
                    // `user` may legitimately switch V1<->V2 only if the rest still parses: impossible for a fixed body
                    return Some((format!("framing-accepted:{}:{}", kn, i), format!("payload with framing byte {} xor {:02x} was accepted (root {})", i, delta, hex::encode(m.ids[0].0))));
                }
                Ok(Err(_)) => {}
                Err(msg) => return Some((format!("prepare-panic:{}", kn), msg)),
            }
        }
    }
    // byte-binds: sampled positions (deterministic in the payload)
    let mut seed = 0xcbf29ce484222325u64;
    for b in payload {
        seed = (seed ^ *b as u64).wrapping_mul(0x100000001b3);
    }
    let mut rng = Rng::new(seed);
    let samples = 24.min(payload.len());
    for _ in 0..samples {
        let i = rng.below(payload.len() as u64) as usize;
        let delta = 1u8 << rng.below(8);
        let mut p = payload.to_vec();
        p[i] ^= delta;
        match run(k, &p, s) {
            Ok(Ok(m)) => {
                if m.ids[0] == base.ids[0] {
                    return Some((format!("byte-binds:{}", kn), format!("byte {} xor {:02x}: accepted with the same root hash", i, delta)));
                }
            }
            Ok(Err(_)) => {}
            Err(msg) => return Some((format!("prepare-panic:{}", kn), format!("byte {} xor {:02x}: {}", i, delta, msg))),
        }
    }
    // too-large
    if is_user(k) && !payload.is_empty() {
        let mut s2 = *s;
        s2.max_user_payload_length = payload.len() - 1;
        match run(k, payload, &s2) {
            Ok(Err(PrepareError::TransactionTooLarge)) => {}
            Ok(other) => return Some((format!("too-large-not-rejected:{}", kn), format!("payload of {} bytes with limit {}: {}", payload.len(), payload.len() - 1, show(&other)))),
            Err(m) => return Some((format!("prepare-panic:{}", kn), m)),
        }
        s2.max_user_payload_length = payload.len();
        match run(k, payload, &s2) {
            Ok(Ok(_)) => {}
            Ok(other) => return Some((format!("at-limit-rejected:{}", kn), format!("payload of exactly the limit: {}", show(&other)))),
            Err(m) => return Some((format!("prepare-panic:{}", kn), m)),
        }
    }
    field_oracle(k, payload, s, base)
}

// ------------------------------------------------------------------------------------------ generator

fn find(hay: &[u8], needle: &[u8]) -> Option<usize> {
    hay.windows(needle.len()).position(|w| w == needle)
}

fn gen_base(rng: &mut Rng) -> (Kind, Vec<u8>) {
    if rng.chance(2, 5) {
        let spec = gen_v1_spec(rng, 3, 6);
        let tx = build_v1(rng, &spec);
        match rng.below(4) {
            0 => (Kind::V1Intent, tx.signed_intent.intent.to_raw().unwrap().to_vec()),
            1 => (Kind::V1Signed, tx.signed_intent.to_raw().unwrap().to_vec()),
            2 => (Kind::V1Notarized, tx.to_raw().unwrap().to_vec()),
            _ => (Kind::User, tx.to_raw().unwrap().to_vec()),
        }
    } else if rng.chance(1, 4) {
        let ns = rng.below(3);
        let s: Vec<KeySpec> = (0..ns).map(|_| rand_key(rng, 6)).collect();
        let nc = rng.below(3);
        let ch: Vec<Vec<KeySpec>> = (0..nc).map(|_| (0..rng.below(2)).map(|_| rand_key(rng, 6)).collect()).collect();
        let p = build_partial(rng, 5, &s, &ch);
        if rng.chance(1, 2) {
            (Kind::V2SignedPartial, p.to_raw().unwrap().to_vec())
        } else {
            (Kind::V2Partial, p.partial_transaction.to_raw().unwrap().to_vec())
        }
    } else {
        let spec = gen_v2_spec(rng, 2, 6, 3);
        let tx = build_v2(rng, &spec);
        let ti = &tx.signed_transaction_intent.transaction_intent;
        match rng.below(6) {
            0 => (Kind::V2TxIntent, ti.to_raw().unwrap().to_vec()),
            1 => (Kind::V2Signed, tx.signed_transaction_intent.to_raw().unwrap().to_vec()),
            2 => match ti.non_root_subintents.0.first() {
                Some(s) => (Kind::V2Subintent, s.to_raw().unwrap().to_vec()),
                None => (Kind::V2TxIntent, ti.to_raw().unwrap().to_vec()),
            },
            3 => (Kind::User, tx.to_raw().unwrap().to_vec()),
            _ => (Kind::V2Notarized, tx.to_raw().unwrap().to_vec()),
        }
    }
}

fn gen_settings(rng: &mut Rng, payload_len: usize) -> PreparationSettings {
    match rng.below(10) {
        0 => PreparationSettings::babylon(),
        1 => {
            let mut s = PreparationSettings::latest();
            s.max_user_payload_length = (payload_len as i64 + rng.range(-2, 2)).max(0) as usize;
            s
        }
        2 => {
            let mut s = PreparationSettings::latest();
            s.max_blobs = rng.below(3) as usize;
            s.max_child_subintents_per_intent = rng.below(3) as usize;
            s.max_subintents_per_transaction = rng.below(4) as usize;
            s
        }
        _ => PreparationSettings::latest(),
    }
}

impl Area for A {
    fn gen(&self, rng: &mut Rng, n: usize, out: &mut dyn Write) {
        for _ in 0..n {
            let (k, base) = match catch(|| {
                let mut r = rng.fork();
                gen_base(&mut r)
            }) {
                Ok(x) => x,
                Err(_) => continue,
            };
            let s = gen_settings(rng, base.len());
            let lead = leading_framing(k);
            let mut p = base.clone();
            let mut exact = true;
            match rng.below(12) {
                0..=4 => {}
                5 => {
                    // truncation
                    let l = rng.below(p.len() as u64 + 1) as usize;
                    p.truncate(l);
                }
                6 => {
                    // trailing bytes
                    let ne = 1 + rng.below(3) as usize;
                    let extra = rng.bytes(ne);
                    p.extend(extra);
                }
                7 => {
                    // leading framing byte
                    let i = rng.below(lead.min(p.len()) as u64) as usize;
                    p[i] = match rng.below(4) {
                        0 => p[i] ^ (1 << rng.below(8)),
                        1 => *rng.pick(&[0x20u8, 0x21, 0x22, 0x23, 0x4d, 0x5c, 0x07]),
                        2 => *rng.pick(&[1u8, 2, 3, 9, 10, 11, 12, 13, 14, 15, 0, 4]),
                        _ => rng.next() as u8,
                    };
                }
                8 => {
                    // non-canonical size: the field count at offset 3 → 0x8n 0x00
                    if p.len() > 4 {
                        let c = p[3];
                        p[3] = c | 0x80;
                        p.insert(4, 0);
                    }
                }
                9 => {
                    // duplicate a 32-byte child specifier / swap the discriminator of the wrong version
                    if let Some(i) = find(&p, &[0x20, 0x20, 0x02, 0x07, 0x20]) {
                        // array of two hashes: [Array][n=2][U8][32] h1 [U8][32] h2  → make h2 = h1
                        let h1 = p[i + 5..i + 37].to_vec();
                        if p.len() >= i + 39 + 32 {
                            p[i + 39..i + 39 + 32].copy_from_slice(&h1);
                        }
                    } else if p.len() > 2 {
                        p[2] = *rng.pick(&[3u8, 12]);
                    }
                    exact = !matches!(k, Kind::User); // (for `user` a V1<->V2 switch reaches typed leaves)
                }
                _ => {
                    // byte flip anywhere after the leading framing: may hit a typed leaf
                    if p.len() > lead {
                        let i = lead + rng.below((p.len() - lead) as u64) as usize;
                        p[i] ^= 1 << rng.below(8);
                    }
                    exact = false;
                }
            }
            if exact {
                writeln!(out, "prep {} {} {}", kind_name(k), settings_str(&s), hex(&p)).unwrap();
            } else {
                let acc = matches!(run(k, &p, &s), Ok(Ok(_)));
                writeln!(out, "prepx {} {} {} {}", kind_name(k), settings_str(&s), hex(&p), acc as u8).unwrap();
            }
        }
        // malformed stream
        for l in ["prep", "prep v1intent 1 2 3", "prep nokind 1 1 1 1 1 1 4d", "prep v1intent 2 1 1 1 1 1 4d", "prep v1intent 1 1 1 1 1 1 4x", "prepx v1intent 1 1 1 1 1 1 4d 2", "frob"] {
            writeln!(out, "{}", l).unwrap();
        }
    }
    fn runner(&self) -> Box<dyn Runner> {
        Box::new(R)
    }
    fn consts(&self) -> Vec<(String, String)> {
        let mut v: Vec<(String, String)> = vec![];
        let mut put = |k: &str, x: u64| v.push((k.to_string(), x.to_string()));
        put("TRANSACTION_HASHABLE_PAYLOAD_PREFIX", TRANSACTION_HASHABLE_PAYLOAD_PREFIX as u64);
        put("HASH_LENGTH", Hash::LENGTH as u64);
        put("V1_INTENT", TransactionDiscriminator::V1Intent as u64);
        put("V1_SIGNED_INTENT", TransactionDiscriminator::V1SignedIntent as u64);
        put("V1_NOTARIZED", TransactionDiscriminator::V1Notarized as u64);
        put("V2_TRANSACTION_INTENT", TransactionDiscriminator::V2TransactionIntent as u64);
        put("V2_SIGNED_TRANSACTION_INTENT", TransactionDiscriminator::V2SignedTransactionIntent as u64);
        put("V2_SUBINTENT", TransactionDiscriminator::V2Subintent as u64);
        put("V2_NOTARIZED", TransactionDiscriminator::V2Notarized as u64);
        put("V2_PARTIAL_TRANSACTION", TransactionDiscriminator::V2PartialTransaction as u64);
        put("V2_SIGNED_PARTIAL_TRANSACTION", TransactionDiscriminator::V2SignedPartialTransaction as u64);
        put("USIZE_MAX", usize::MAX as u64);
        for (pre, s) in [("BABYLON", PreparationSettings::babylon()), ("CUTTLEFISH", PreparationSettings::cuttlefish()), ("LATEST", PreparationSettings::latest())] {
            put(&format!("{}_V2_PERMITTED", pre), s.v2_transactions_permitted as u64);
            put(&format!("{}_MAX_USER_PAYLOAD_LENGTH", pre), s.max_user_payload_length as u64);
            put(&format!("{}_MAX_LEDGER_PAYLOAD_LENGTH", pre), s.max_ledger_payload_length as u64);
            put(&format!("{}_MAX_CHILD_SUBINTENTS_PER_INTENT", pre), s.max_child_subintents_per_intent as u64);
            put(&format!("{}_MAX_SUBINTENTS_PER_TRANSACTION", pre), s.max_subintents_per_transaction as u64);
            put(&format!("{}_MAX_BLOBS", pre), s.max_blobs as u64);
        }
        v
    }
}

struct R;

impl Runner for R {
    fn step(&mut self, line: &str) -> Answer {
        let t: Vec<&str> = line.split(' ').filter(|x| !x.is_empty()).collect();
        if t.is_empty() || (t[0] != "prep" && t[0] != "prepx") {
            return Answer::ok("bad-op");
        }
        let x = t[0] == "prepx";
        if t.len() != if x { 10 } else { 9 } {
            return Answer::ok("bad-op");
        }
        let (k, s, payload) = match (parse_kind(t[1]), parse_settings(&t[2..8]), unhex(t[8])) {
            (Some(k), Some(s), Some(p)) => (k, s, p),
            _ => return Answer::ok("bad-op"),
        };
        if x && t[9] != "0" && t[9] != "1" {
            return Answer::ok("bad-op");
        }
        let r = match run(k, &payload, &s) {
            Ok(r) => r,
            Err(m) => return Answer::fail("panic", format!("prepare-panic:{}", kind_name(k)), m),
        };
        let ans = if x && r.is_err() { "rej".to_string() } else { show(&r) };
        if x && (r.is_ok() != (t[9] == "1")) {
            return Answer::fail(ans, "nondeterministic-accept", "prepare accepted/rejected differently at generation time and at run time");
        }
        if let Ok(info) = &r {
            if let Some((key, desc)) = oracle(k, &payload, &s, info) {
                return Answer::fail(ans, key, desc);
            }
        }
        Answer::ok(ans)
    }
}

fn main() {
    main_with(&[("c32", &A)]);
}
