// placeholder, replaced below
pub struct A23;
impl Area for A23 {
    fn gen(&self, _rng: &mut Rng, _n: usize, _out: &mut dyn Write) {}
    fn runner(&self) -> Box<dyn Runner> { Box::new(R22 { s: None, reg: vec![] }) }
}
