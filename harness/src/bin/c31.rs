//! C31 — the manifest compiler never crashes: real `lexer::tokenize`, `parser::Parser`,
//! `compile_any_manifest`, `compile_error_diagnostics` / `create_snippet` of radix-transactions.
//!
//! Line protocol (stateless, one case per line; texts as hex of UTF-8 bytes, `-` = empty):
//!   lex <hex>                       -> ok <tok>@<span> ...   | err <kind>@<span> | panic
//!   snip <hex> SF SL EF EL          -> ok <first-line-no> <n-source-lines> | panic
//!                                      (create_snippet on an arbitrary span: start (full_index SF, line_idx SL), end (EF, EL))
//!   compile <kind> <hex>            -> lexerr <kind>@<span> r=<ok F N|panic>
//!                                    | parseerr <kind>@<span> r=<ok F N|panic>
//!                                    | parsed
//!                                      (kind = v1|sys|v2|sub; after `parsed` the generator stage is oracle-only)
//!   <span> = f.l.c-f.l.c (full_index.line_idx.line_char_index of start and end)
//!
//! Property oracle (on the implementation only): every entry point returns under catch_unwind
//! (no panic in tokenize / parse / generate / pretty error rendering) and a second evaluation gives
//! the identical answer.
use harness::util::*;
use radix_common::prelude::*;
use radix_transactions::manifest::compiler::*;
use radix_transactions::manifest::diagnostic_snippets::create_snippet;
use radix_transactions::manifest::lexer::{self, ExpectedChar, LexerError, LexerErrorKind};
use radix_transactions::manifest::parser::{self, ParserError, ParserErrorKind, TokenType};
use radix_transactions::manifest::token::{Position, Span, Token};
use radix_transactions::manifest::{BlobProvider, ManifestKind, MockBlobProvider, KNOWN_ENUM_DISCRIMINATORS};
use std::io::Write;

pub struct A;

// ---------------------------------------------------------------- canonical forms
fn hx(s: &str) -> String {
    hex(s.as_bytes())
}
fn pos(p: &Position) -> String {
    format!("{}.{}.{}", p.full_index, p.line_idx, p.line_char_index)
}
fn span(s: &Span) -> String {
    format!("{}-{}", pos(&s.start), pos(&s.end))
}
fn tok(t: &Token) -> String {
    match t {
        Token::BoolLiteral(b) => format!("bool:{}", if *b { "t" } else { "f" }),
        Token::I8Literal(v) => format!("i8:{}", v),
        Token::I16Literal(v) => format!("i16:{}", v),
        Token::I32Literal(v) => format!("i32:{}", v),
        Token::I64Literal(v) => format!("i64:{}", v),
        Token::I128Literal(v) => format!("i128:{}", v),
        Token::U8Literal(v) => format!("u8:{}", v),
        Token::U16Literal(v) => format!("u16:{}", v),
        Token::U32Literal(v) => format!("u32:{}", v),
        Token::U64Literal(v) => format!("u64:{}", v),
        Token::U128Literal(v) => format!("u128:{}", v),
        Token::StringLiteral(s) => format!("str:{}", hx(s)),
        Token::Ident(s) => format!("id:{}", hx(s)),
        Token::OpenParenthesis => "op".into(),
        Token::CloseParenthesis => "cp".into(),
        Token::LessThan => "lt".into(),
        Token::GreaterThan => "gt".into(),
        Token::Comma => "comma".into(),
        Token::Semicolon => "semi".into(),
        Token::FatArrow => "arrow".into(),
    }
}
fn expected_char(e: &ExpectedChar) -> String {
    match e {
        ExpectedChar::Exact(c) => format!("x{}", *c as u32),
        ExpectedChar::OneOf(v) => format!("oneof{}", v.iter().map(|c| (*c as u32).to_string()).collect::<Vec<_>>().join(".")),
        ExpectedChar::HexDigit => "hex".into(),
        ExpectedChar::DigitLetterQuotePunctuation => "dlqp".into(),
    }
}
fn lex_err(e: &LexerError) -> String {
    let k = match &e.error_kind {
        LexerErrorKind::UnexpectedEof => "eof".to_string(),
        LexerErrorKind::UnexpectedChar(c, ex) => format!("uchar:{}:{}", *c as u32, expected_char(ex)),
        LexerErrorKind::InvalidIntegerLiteral(s) => format!("intlit:{}", hx(s)),
        LexerErrorKind::InvalidIntegerType(s) => format!("inttype:{}", hx(s)),
        LexerErrorKind::InvalidInteger(s) => {
            // "'<digits><ty>' - <ParseIntError message>"
            let (lit, msg) = match s.split_once("' - ") {
                Some((a, b)) => (a.trim_start_matches('\'').to_string(), b.to_string()),
                None => (s.clone(), "?".to_string()),
            };
            let m = if msg.contains("too large") {
                "pos"
            } else if msg.contains("too small") {
                "neg"
            } else if msg.contains("invalid digit") {
                "digit"
            } else if msg.contains("empty") {
                "empty"
            } else {
                "other"
            };
            format!("int:{}:{}", hx(&lit), m)
        }
        LexerErrorKind::InvalidUnicode(v) => format!("unicode:{}", v),
        LexerErrorKind::MissingUnicodeSurrogate(v) => format!("surrogate:{}", v),
    };
    format!("{}@{}", k, span(&e.span))
}
fn token_type(t: &TokenType) -> String {
    match t {
        TokenType::Instruction => "instr".into(),
        TokenType::Value => "value".into(),
        TokenType::ValueKind => "vkind".into(),
        TokenType::EnumDiscriminator => "disc".into(),
        TokenType::Exact(t) => format!("exact.{}", tok(t)),
    }
}
fn parse_err(e: &ParserError) -> String {
    let k = match &e.error_kind {
        ParserErrorKind::UnexpectedEof => "eof".to_string(),
        ParserErrorKind::UnexpectedToken { expected, actual } => format!("utok:{}:{}", token_type(expected), tok(actual)),
        ParserErrorKind::InvalidArgument { expected, actual } => format!("invarg:{}:{}", token_type(expected), tok(actual)),
        ParserErrorKind::InvalidNumberOfValues { expected, actual } => format!("nvalues:{}:{}", expected, actual),
        ParserErrorKind::InvalidNumberOfTypes { expected, actual } => format!("ntypes:{}:{}", expected, actual),
        ParserErrorKind::UnknownEnumDiscriminator { actual } => format!("unkdisc:{}", hx(actual)),
        ParserErrorKind::MaxDepthExceeded { actual, max } => format!("depth:{}:{}", actual, max),
    };
    format!("{}@{}", k, span(&e.span))
}

/// first displayed line number and number of displayed source lines of a rendered snippet
fn rendered_shape(r: &str) -> String {
    let mut first: Option<u64> = None;
    let mut n = 0usize;
    for l in r.split('\n') {
        let t = l.trim_start_matches(' ');
        let digits: String = t.chars().take_while(|c| c.is_ascii_digit()).collect();
        if !digits.is_empty() && t[digits.len()..].starts_with(" |") {
            if first.is_none() {
                first = digits.parse().ok();
            }
            n += 1;
        }
    }
    format!("ok {} {}", first.unwrap_or(0), n)
}

fn kind_of(s: &str) -> Option<ManifestKind> {
    Some(match s {
        "v1" => ManifestKind::V1,
        "sys" => ManifestKind::SystemV1,
        "v2" => ManifestKind::V2,
        "sub" => ManifestKind::SubintentV2,
        _ => return None,
    })
}

fn is_snippet_class(text: &str, msg: &str) -> bool {
    (text.contains('\r') || !text.is_ascii()) && (msg.contains("beyond the end of buffer") || msg.contains("subtract with overflow"))
}

fn render_twice(text: &str, err: CompileError) -> (String, Option<(String, String)>) {
    let e2 = err.clone();
    let r1 = catch(|| compile_error_diagnostics(text, err, CompileErrorDiagnosticsStyle::PlainText));
    let r2 = catch(|| compile_error_diagnostics(text, e2.clone(), CompileErrorDiagnosticsStyle::PlainText));
    let r3 = catch(|| compile_error_diagnostics(text, e2, CompileErrorDiagnosticsStyle::TextTerminalColors));
    match (&r1, &r2, &r3) {
        (Ok(a), Ok(b), Ok(_)) => {
            if a != b {
                (rendered_shape(a), Some(("nondeterministic:pretty".into(), "two renderings of the same error differ".into())))
            } else {
                (rendered_shape(a), None)
            }
        }
        (Err(m), _, _) | (_, Err(m), _) | (_, _, Err(m)) => {
            let key = if is_snippet_class(text, m) { "pretty-error-panic-crlf-or-nonascii".to_string() } else { "pretty-error-panic:other".to_string() };
            let shape = if r1.is_err() { "panic".to_string() } else { rendered_shape(r1.as_ref().unwrap()) };
            (shape, Some((key, format!("rendering the compile error panicked: {}", m))))
        }
    }
}

// ---------------------------------------------------------------- runner
pub struct R {
    network: NetworkDefinition,
}

impl R {
    fn lex(&self, text: &str) -> Answer {
        let r1 = catch(|| lexer::tokenize(text));
        let r2 = catch(|| lexer::tokenize(text));
        match (r1, r2) {
            (Ok(a), Ok(b)) => {
                let ans = match &a {
                    Ok(toks) => {
                        let mut s = String::from("ok");
                        for t in toks {
                            s.push(' ');
                            s.push_str(&tok(&t.token));
                            s.push('@');
                            s.push_str(&span(&t.span));
                        }
                        s
                    }
                    Err(e) => format!("err {}", lex_err(e)),
                };
                if a != b {
                    return Answer::fail(ans, "nondeterministic:lex", "tokenize gave two different answers");
                }
                // oracle: spans in bounds, ordered, tokens in increasing order
                let n = text.chars().count();
                let spans: Vec<Span> = match &a {
                    Ok(t) => t.iter().map(|t| t.span).collect(),
                    Err(e) => vec![e.span],
                };
                let mut prev_end = 0usize;
                for sp in &spans {
                    if !(sp.start.full_index <= sp.end.full_index && sp.end.full_index <= n) {
                        return Answer::fail(ans, "span-out-of-bounds:lex", format!("span {} not within 0..={}", span(sp), n));
                    }
                    if a.is_ok() && sp.start.full_index < prev_end {
                        return Answer::fail(ans, "span-order:lex", "token spans overlap");
                    }
                    prev_end = sp.end.full_index;
                    for p in [sp.start, sp.end] {
                        if p != position_at(text, p.full_index) {
                            return Answer::fail(ans, "span-inconsistent:lex", format!("position {} is not the position of char index {}", pos(&p), p.full_index));
                        }
                    }
                }
                Answer::ok(ans)
            }
            (Err(m), _) | (_, Err(m)) => Answer::fail("panic", "lex-panic", format!("tokenize panicked: {}", m)),
        }
    }

    fn snip(&self, text: &str, sf: usize, sl: usize, ef: usize, el: usize) -> Answer {
        let sp = Span { start: Position { full_index: sf, line_idx: sl, line_char_index: 0 }, end: Position { full_index: ef, line_idx: el, line_char_index: 0 } };
        let r = catch(|| create_snippet(text, &sp, "t", "l", CompileErrorDiagnosticsStyle::PlainText));
        let consistent = sf <= ef && ef <= text.chars().count() && position_at(text, sf).line_idx == sl && position_at(text, ef).line_idx == el;
        match r {
            Ok(s) => Answer::ok(rendered_shape(&s)),
            Err(m) => {
                if consistent {
                    let key = if is_snippet_class(text, &m) { "pretty-error-panic-crlf-or-nonascii".to_string() } else { "pretty-error-panic:other".to_string() };
                    Answer::fail("panic", key, format!("create_snippet panicked on a span of the text itself: {}", m))
                } else {
                    // arbitrary spans are outside the property (only spans produced by the compiler are rendered)
                    Answer::ok("panic")
                }
            }
        }
    }

    fn compile(&self, kind: &str, text: &str) -> Answer {
        // stage answers (what the Lean model predicts)
        let lexed = catch(|| lexer::tokenize(text));
        let toks = match lexed {
            Err(m) => return Answer::fail("panic", "lex-panic", format!("tokenize panicked: {}", m)),
            Ok(Err(e)) => {
                let (shape, fail) = render_twice(text, CompileError::LexerError(e.clone()));
                let ans = format!("lexerr {} r={}", lex_err(&e), shape);
                let full = self.full_compile(kind, text);
                return match fail.or(full) {
                    Some((k, d)) => Answer::fail(ans, k, d),
                    None => Answer::ok(ans),
                };
            }
            Ok(Ok(t)) => t,
        };
        let parsed = catch(|| parser::Parser::new(toks.clone(), parser::PARSER_MAX_DEPTH).and_then(|mut p| p.parse_manifest()));
        let stage_ans = match parsed {
            Err(m) => return Answer::fail("panic", "parse-panic", format!("parser panicked: {}", m)),
            Ok(Err(e)) => {
                let (shape, fail) = render_twice(text, CompileError::ParserError(e.clone()));
                let ans = format!("parseerr {} r={}", parse_err(&e), shape);
                if let Some((k, d)) = fail {
                    return Answer::fail(ans, k, d);
                }
                // error span must be a span of the text
                let n = text.chars().count();
                let sp = e.span;
                if !(sp.start.full_index <= sp.end.full_index && sp.end.full_index <= n && sp.start == position_at(text, sp.start.full_index) && sp.end == position_at(text, sp.end.full_index)) {
                    return Answer::fail(ans, "span-out-of-bounds:parse", format!("parser error span {} is not a span of the text", span(&sp)));
                }
                ans
            }
            Ok(Ok(_)) => "parsed".to_string(),
        };
        match self.full_compile(kind, text) {
            Some((k, d)) => Answer::fail(stage_ans, k, d),
            None => Answer::ok(stage_ans),
        }
    }

    /// whole pipeline through the public entry points, twice, for one manifest kind; None = fine
    fn full_compile(&self, kind: &str, text: &str) -> Option<(String, String)> {
        let run = |blobs_mock: bool| {
            catch(|| {
                if blobs_mock {
                    compile_any_manifest(text, kind_of(kind).unwrap(), &self.network, MockBlobProvider::new())
                } else {
                    compile_any_manifest(text, kind_of(kind).unwrap(), &self.network, BlobProvider::new())
                }
            })
        };
        let a = run(true);
        let b = run(true);
        let c = run(false);
        for r in [&a, &b, &c] {
            if let Err(m) = r {
                return Some(("compile-panic".into(), format!("compile_any_manifest panicked: {}", m)));
            }
        }
        let (a, b, c) = (a.unwrap(), b.unwrap(), c.unwrap());
        if format!("{:?}", a) != format!("{:?}", b) {
            return Some(("nondeterministic:compile".into(), "compile_any_manifest gave two different answers".into()));
        }
        for r in [a, c] {
            if let Err(e) = r {
                let n = text.chars().count();
                let sp = match &e {
                    CompileError::LexerError(e) => e.span,
                    CompileError::ParserError(e) => e.span,
                    CompileError::GeneratorError(e) => e.span,
                };
                let (_, fail) = render_twice(text, e.clone());
                if fail.is_some() {
                    return fail;
                }
                if !(sp.start.full_index <= sp.end.full_index && sp.end.full_index <= n && sp.start == position_at(text, sp.start.full_index) && sp.end == position_at(text, sp.end.full_index)) {
                    return Some(("span-out-of-bounds:compile".into(), format!("error span {} is not a span of the text", span(&sp))));
                }
                // the public pretty entry point as well
                let p = catch(|| compile_any_manifest_with_pretty_error(text, kind_of(kind).unwrap(), &self.network, MockBlobProvider::new(), CompileErrorDiagnosticsStyle::PlainText).map(|_| ()));
                if let Err(m) = p {
                    let key = if is_snippet_class(text, &m) { "pretty-error-panic-crlf-or-nonascii".to_string() } else { "pretty-error-panic:other".to_string() };
                    return Some((key, format!("compile_any_manifest_with_pretty_error panicked: {}", m)));
                }
            }
        }
        None
    }
}

/// independent position computation (oracle): position after the first `i` chars
fn position_at(text: &str, i: usize) -> Position {
    let mut line = 0usize;
    let mut col = 0usize;
    let mut k = 0usize;
    for c in text.chars() {
        if k == i {
            break;
        }
        if c == '\n' {
            line += 1;
            col = 0;
        } else {
            col += 1;
        }
        k += 1;
    }
    Position { full_index: k.max(i.min(k)), line_idx: line, line_char_index: col }
}

impl Runner for R {
    fn step(&mut self, line: &str) -> Answer {
        let w: Vec<&str> = line.split(' ').filter(|x| !x.is_empty()).collect();
        let text_of = |h: &str| -> Option<String> { unhex(h).and_then(|b| String::from_utf8(b).ok()) };
        match w.as_slice() {
            ["lex", h] => match text_of(h) {
                Some(t) => self.lex(&t),
                None => Answer::ok("bad-op"),
            },
            ["snip", h, sf, sl, ef, el] => match (text_of(h), sf.parse(), sl.parse(), ef.parse(), el.parse()) {
                (Some(t), Ok(sf), Ok(sl), Ok(ef), Ok(el)) => self.snip(&t, sf, sl, ef, el),
                _ => Answer::ok("bad-op"),
            },
            ["compile", k, h] => match (kind_of(k), text_of(h)) {
                (Some(_), Some(t)) => self.compile(k, &t),
                _ => Answer::ok("bad-op"),
            },
            _ => Answer::ok("bad-op"),
        }
    }
}

// ---------------------------------------------------------------- generator
const ADDR_RES: &str = "resource_sim1tknxxxxxxxxxradxrdxxxxxxxxx009923554798xxxxxxxxxakj8n3";
const ADDR_PKG: &str = "package_sim1pkgxxxxxxxxxfaucetxxxxxxxxx000034355863xxxxxxxxxhkrefh";
const ADDR_ACC: &str = "account_sim1cyvgx33089ukm2pl97pv4max0x40ruvfy4lt60yvya744cve475w0q";

const INSTR_NOARG: &[&str] = &["DROP_ALL_PROOFS", "DROP_AUTH_ZONE_PROOFS", "DROP_NAMED_PROOFS", "DROP_AUTH_ZONE_SIGNATURE_PROOFS", "DROP_AUTH_ZONE_REGULAR_PROOFS", "ASSERT_WORKTOP_IS_EMPTY"];
const VALUE_IDENTS: &[&str] = &["Enum", "Array", "Tuple", "Map", "Some", "None", "Ok", "Err", "Bytes", "NonFungibleGlobalId", "Address", "Bucket", "Proof", "Expression", "Blob", "Decimal", "PreciseDecimal", "NonFungibleLocalId", "AddressReservation", "NamedAddress", "Intent", "NamedIntent"];
const KINDS: &[&str] = &["Bool", "I8", "I16", "I32", "I64", "I128", "U8", "U16", "U32", "U64", "U128", "String", "Enum", "Array", "Tuple", "Map", "Bytes", "NonFungibleGlobalId", "Address", "Bucket", "Proof", "Expression", "Blob", "Decimal", "PreciseDecimal", "NonFungibleLocalId", "AddressReservation", "NamedAddress", "Intent", "NamedIntent", "Foo"];
const ODD_CHARS: &[char] = &['é', 'ß', '\u{0301}', '€', '\u{202e}', '😀', '\u{10ffff}', '\u{7f}', '\u{0}', '\u{b}', '\u{2028}', '\u{85}', '中', '\t', '\r', '\\', '"', '/', '#', '{', '}', '&', '=', '-', '_', ':', '\''];

fn gen_int(rng: &mut Rng) -> String {
    let tys = ["i8", "i16", "i32", "i64", "i128", "u8", "u16", "u32", "u64", "u128", "u7", "i", "u", "i12", "i1", "u6", "x", "i129", ""];
    let ty = if rng.chance(9, 10) { tys[rng.below(10) as usize] } else { *rng.pick(&tys) };
    let mag: String = match rng.below(8) {
        0 => "0".into(),
        1 => rng.below(300).to_string(),
        2 => ["127", "128", "129", "255", "256", "32767", "32768", "65535", "65536", "2147483647", "2147483648", "4294967295", "4294967296"][rng.below(13) as usize].into(),
        3 => ["9223372036854775807", "9223372036854775808", "18446744073709551615", "18446744073709551616", "170141183460469231731687303715884105727", "170141183460469231731687303715884105728", "340282366920938463463374607431768211455", "340282366920938463463374607431768211456", "999999999999999999999999999999999999999999"][rng.below(9) as usize].into(),
        4 => format!("0{}", rng.below(100)),
        5 => rng.next().to_string(),
        _ => rng.below(70000).to_string(),
    };
    let neg = rng.chance(1, 4);
    format!("{}{}{}", if neg { "-" } else { "" }, mag, ty)
}

fn gen_string_lit(rng: &mut Rng) -> String {
    let mut s = String::from("\"");
    let n = rng.below(8);
    for _ in 0..n {
        match rng.below(14) {
            0 => s.push_str("\\n"),
            1 => s.push_str("\\\""),
            2 => s.push_str("\\\\"),
            3 => s.push_str(["\\/", "\\b", "\\f", "\\r", "\\t"][rng.below(5) as usize]),
            4 => s.push_str(&format!("\\u{:04x}", rng.below(0x10000))),
            5 => s.push_str(&format!("\\u{:04X}\\u{:04x}", 0xD800 + rng.below(0x400), 0xDC00 + rng.below(0x400))),
            6 => s.push_str(&format!("\\u{:04x}\\u{:04x}", 0xD800 + rng.below(0x800), rng.below(0x10000))),
            7 => s.push_str(["\\ud800", "\\udfff\\n", "\\u12", "\\uzzzz", "\\x", "\\ud800\\", "\\ud800\\u", "\\ud800x", "\\u00e9"][rng.below(9) as usize]),
            8 => s.push(*rng.pick(ODD_CHARS)),
            9 => s.push('\n'),
            _ => s.push((b'a' + rng.below(26) as u8) as char),
        }
    }
    if !rng.chance(1, 25) {
        s.push('"');
    }
    s
}

fn gen_value(rng: &mut Rng, depth: usize) -> String {
    let leaf = depth == 0 || rng.chance(1, 3);
    if leaf {
        return match rng.below(16) {
            0 => "true".into(),
            1 => "false".into(),
            2 | 3 => gen_int(rng),
            4 | 5 => gen_string_lit(rng),
            6 => format!("Address(\"{}\")", [ADDR_RES, ADDR_PKG, ADDR_ACC, "nope"][rng.below(4) as usize]),
            7 => format!("Decimal(\"{}\")", ["1", "-1.5", "0.000000000000000001", "x", "1.-5"][rng.below(5) as usize]),
            8 => format!("Bucket(\"{}\")", ["b1", "b2", ""][rng.below(3) as usize]),
            9 => format!("Proof({})", ["\"p1\"", "1u32", ""][rng.below(3) as usize]),
            10 => format!("Expression(\"{}\")", ["ENTIRE_WORKTOP", "ENTIRE_AUTH_ZONE", "X"][rng.below(3) as usize]),
            11 => format!("Bytes(\"{}\")", ["", "00ff", "0", "zz"][rng.below(4) as usize]),
            12 => format!("NonFungibleLocalId(\"{}\")", ["#1#", "<a>", "[00]", "{1111111111111111-1111111111111111-1111111111111111-1111111111111111}", "x"][rng.below(5) as usize]),
            13 => "None".into(),
            14 => format!("{}", rng.pick(VALUE_IDENTS)),
            _ => format!("Blob(\"{}\")", "a".repeat([64usize, 63, 2][rng.below(3) as usize])),
        };
    }
    let n = rng.below(4) as usize;
    let sep = |rng: &mut Rng| -> &'static str { [", ", ",", " , ", ",\n    ", " ", ",,"][if rng.chance(9, 10) { rng.below(4) as usize } else { rng.below(6) as usize }] };
    let mut items = String::new();
    for i in 0..n {
        if i > 0 {
            items.push_str(sep(rng));
        }
        items.push_str(&gen_value(rng, depth - 1));
    }
    match rng.below(9) {
        0 => format!("Tuple({})", items),
        1 => format!("Enum<{}>({})", [&gen_int(rng)[..], "1u8", "0u8", "Option::Some", "AccessRule::Protected", "Foo::Bar", "255u8", "256u8"][rng.below(8) as usize].to_string(), items),
        2 => format!("Array<{}>({})", rng.pick(KINDS), items),
        3 => {
            let mut entries = String::new();
            for i in 0..n {
                if i > 0 {
                    entries.push_str(sep(rng));
                }
                entries.push_str(&gen_value(rng, depth - 1));
                entries.push_str([" => ", "=>", " = ", " =>"][if rng.chance(9, 10) { rng.below(2) as usize } else { rng.below(4) as usize }]);
                entries.push_str(&gen_value(rng, depth - 1));
            }
            if rng.chance(9, 10) {
                format!("Map<{}, {}>({})", rng.pick(KINDS), rng.pick(KINDS), entries)
            } else {
                format!("Map<{}>({})", rng.pick(KINDS), entries)
            }
        }
        4 => format!("Some({})", items),
        5 => format!("Ok({})", items),
        6 => format!("Err({})", items),
        7 => format!("Array<{}, {}>({})", rng.pick(KINDS), rng.pick(KINDS), items),
        _ => format!("Tuple({}", items),
    }
}

fn gen_instruction(rng: &mut Rng) -> String {
    let nl = |rng: &mut Rng| -> &'static str { if rng.chance(1, 2) { "\n    " } else { " " } };
    match rng.below(12) {
        0 | 1 | 2 => format!("{};", rng.pick(INSTR_NOARG)),
        3 => {
            let mut s = format!("CALL_METHOD{}Address(\"{}\"){}\"{}\"", nl(rng), ADDR_ACC, nl(rng), ["deposit_batch", "free", "x"][rng.below(3) as usize]);
            for _ in 0..rng.below(4) {
                s.push_str(nl(rng));
                s.push_str(&gen_value(rng, 3));
            }
            s.push_str(";");
            s
        }
        4 => format!("TAKE_FROM_WORKTOP{}Address(\"{}\"){}Decimal(\"{}\"){}Bucket(\"b{}\");", nl(rng), ADDR_RES, nl(rng), rng.below(100), nl(rng), rng.below(3)),
        5 => format!("CALL_FUNCTION{}Address(\"{}\"){}\"Faucet\"{}\"new\"{}{};", nl(rng), ADDR_PKG, nl(rng), nl(rng), nl(rng), gen_value(rng, 4)),
        6 => format!("YIELD_TO_PARENT {};", gen_value(rng, 2)),
        7 => format!("USE_CHILD NamedIntent(\"c{}\") Intent(\"subtxid_sim1qqqq\");", rng.below(3)),
        8 => format!("SET_METADATA{}Address(\"{}\"){}\"k\"{}{};", nl(rng), ADDR_ACC, nl(rng), nl(rng), gen_value(rng, 3)),
        9 => format!("RETURN_TO_WORKTOP Bucket(\"b{}\");", rng.below(3)),
        10 => format!("VERIFY_PARENT {};", gen_value(rng, 3)),
        _ => format!("{} {};", ["BOGUS_INSTRUCTION", "call_method", "POP_FROM_AUTH_ZONE", "CLONE_PROOF", "ASSERT_WORKTOP_CONTAINS_ANY"][rng.below(5) as usize], gen_value(rng, 2)),
    }
}

/// deep nesting around the parser depth limit
fn gen_deep(rng: &mut Rng) -> String {
    let d = [18usize, 19, 20, 21, 22, 23, 24, 25, 30][rng.below(9) as usize];
    let mut s = String::new();
    for i in 0..d {
        s.push_str(["Tuple(", "Some(", "Array<Tuple>(", "Enum<1u8>("][(i + rng.below(2) as usize) % 4]);
    }
    s.push_str("1u8");
    for _ in 0..d {
        s.push(')');
    }
    format!("CALL_METHOD Address(\"{}\") \"f\" {};", ADDR_ACC, s)
}

fn mutate(rng: &mut Rng, text: &str) -> String {
    let mut cs: Vec<char> = text.chars().collect();
    let k = 1 + rng.below(3);
    for _ in 0..k {
        if cs.is_empty() {
            break;
        }
        let i = rng.below(cs.len() as u64) as usize;
        match rng.below(7) {
            0 => {
                cs.remove(i);
            }
            1 => cs.insert(i, *rng.pick(ODD_CHARS)),
            2 => cs[i] = *rng.pick(ODD_CHARS),
            3 => cs.insert(i, *rng.pick(&['(', ')', '<', '>', ',', ';', '"', ' ', '\n', '=', '#', '1', 'u', '8'])),
            4 => cs.truncate(i),
            5 => {
                let j = rng.below(cs.len() as u64) as usize;
                cs.swap(i, j);
            }
            _ => {
                let j = (i + 1 + rng.below(12) as usize).min(cs.len());
                cs.drain(i..j);
            }
        }
    }
    cs.into_iter().collect()
}

fn line_endings(rng: &mut Rng, text: &str) -> String {
    match rng.below(8) {
        0 | 1 | 2 => text.to_string(),
        3 | 4 => text.replace('\n', "\r\n"),
        5 => text.replace('\n', "\r"),
        6 => {
            let mut s = String::new();
            for c in text.chars() {
                if c == '\n' {
                    s.push_str(["\n", "\r\n", "\r", "\n\r", "\r\r\n"][rng.below(5) as usize]);
                } else {
                    s.push(c);
                }
            }
            s
        }
        _ => format!("{}{}", text, ["\n", "\r\n", "\r", "\n\n", ""][rng.below(5) as usize]),
    }
}

fn gen_text(rng: &mut Rng) -> String {
    let mut lines: Vec<String> = vec![];
    let n = match rng.below(6) {
        0 => rng.below(3),
        1 | 2 => 3 + rng.below(8),
        _ => 6 + rng.below(14),
    };
    for _ in 0..n {
        if rng.chance(1, 12) {
            lines.push(format!("# comment {}", if rng.chance(1, 2) { "é😀" } else { "x" }));
        }
        if rng.chance(1, 20) {
            lines.push(String::new());
        }
        if rng.chance(1, 30) {
            lines.push(gen_deep(rng));
        } else {
            lines.push(gen_instruction(rng));
        }
    }
    let mut text = lines.join("\n");
    if rng.chance(4, 5) {
        text.push('\n');
    }
    // place an error: mutate, append garbage, or leave as is
    match rng.below(6) {
        0 => {}
        1 | 2 => text = mutate(rng, &text),
        3 => {
            text.push_str(["BOGUS;", "CALL_METHOD", "\"abc", "1u", "Tuple(", "é", "-", "=", "CALL_METHOD Address(\"x\") \"f\" Decimal(1u8, 2u8);", "#"][rng.below(10) as usize]);
            if rng.chance(1, 2) {
                text.push('\n');
            }
        }
        4 => {
            // token soup
            let mut s = String::new();
            for _ in 0..rng.below(20) {
                match rng.below(8) {
                    0 => s.push_str(&gen_int(rng)),
                    1 => s.push_str(&gen_string_lit(rng)),
                    2 => s.push_str(*rng.pick(VALUE_IDENTS)),
                    3 => s.push_str(*rng.pick(&["(", ")", "<", ">", ",", ";", "=>", "=", "{", "}", "&"])),
                    4 => s.push_str(*rng.pick(INSTR_NOARG)),
                    5 => s.push(*rng.pick(ODD_CHARS)),
                    6 => s.push_str("true"),
                    _ => s.push_str(*rng.pick(KINDS)),
                }
                s.push_str(*rng.pick(&[" ", "\n", "", "\t", "\r\n"]));
            }
            text.push_str(&s);
        }
        _ => {
            let gi = gen_instruction(rng);
            let m = mutate(rng, &gi);
            text.push_str(&m);
        }
    }
    line_endings(rng, &text)
}

fn pos_of(cs: &[char], i: usize) -> (usize, usize) {
    let mut line = 0;
    for c in &cs[..i.min(cs.len())] {
        if *c == '\n' {
            line += 1;
        }
    }
    (i, line)
}

impl Area for A {
    fn gen(&self, rng: &mut Rng, n: usize, out: &mut dyn Write) {
        for _ in 0..n {
            let text = gen_text(rng);
            match rng.below(10) {
                0 | 1 => writeln!(out, "lex {}", hx(&text)).unwrap(),
                2 | 3 | 4 => {
                    let cs: Vec<char> = text.chars().collect();
                    let len = cs.len();
                    let (sf, sl, ef, el) = if rng.chance(5, 6) {
                        // a span of the text itself
                        let i = match rng.below(4) {
                            0 => len,
                            1 => len.saturating_sub(rng.below(4) as usize),
                            _ => rng.below(len as u64 + 1) as usize,
                        };
                        let j = (i + [0usize, 1, 2, 5, 40, 400][rng.below(6) as usize]).min(len);
                        let (a, b) = pos_of(&cs, i);
                        let (c, d) = pos_of(&cs, j);
                        (a, b, c, d)
                    } else {
                        let a = rng.below(len as u64 + 3) as usize;
                        let c = a + rng.below(6) as usize;
                        (a, rng.below(12) as usize, c, rng.below(14) as usize)
                    };
                    writeln!(out, "snip {} {} {} {} {}", hx(&text), sf, sl, ef, el).unwrap();
                }
                _ => {
                    let k = ["v1", "sys", "v2", "sub"][rng.below(4) as usize];
                    writeln!(out, "compile {} {}", k, hx(&text)).unwrap();
                }
            }
        }
    }

    fn runner(&self) -> Box<dyn Runner> {
        Box::new(R { network: NetworkDefinition::simulator() })
    }

    fn consts(&self) -> Vec<(String, String)> {
        consts()
    }
}

// ---------------------------------------------------------------- constants / tables as the compiled tree sees them
const INSTRUCTION_IDENTS: &[&str] = &[
    "USE_CHILD", "USE_PREALLOCATED_ADDRESS", "TAKE_FROM_WORKTOP", "TAKE_NON_FUNGIBLES_FROM_WORKTOP", "TAKE_ALL_FROM_WORKTOP", "RETURN_TO_WORKTOP", "BURN_RESOURCE",
    "ASSERT_WORKTOP_CONTAINS", "ASSERT_WORKTOP_CONTAINS_NON_FUNGIBLES", "ASSERT_WORKTOP_CONTAINS_ANY", "ASSERT_WORKTOP_IS_EMPTY", "ASSERT_WORKTOP_RESOURCES_ONLY",
    "ASSERT_WORKTOP_RESOURCES_INCLUDE", "ASSERT_NEXT_CALL_RETURNS_ONLY", "ASSERT_NEXT_CALL_RETURNS_INCLUDE", "ASSERT_BUCKET_CONTENTS", "CREATE_PROOF_FROM_BUCKET_OF_AMOUNT",
    "CREATE_PROOF_FROM_BUCKET_OF_NON_FUNGIBLES", "CREATE_PROOF_FROM_BUCKET_OF_ALL", "CREATE_PROOF_FROM_AUTH_ZONE_OF_AMOUNT", "CREATE_PROOF_FROM_AUTH_ZONE_OF_NON_FUNGIBLES",
    "CREATE_PROOF_FROM_AUTH_ZONE_OF_ALL", "CLONE_PROOF", "DROP_PROOF", "PUSH_TO_AUTH_ZONE", "POP_FROM_AUTH_ZONE", "DROP_AUTH_ZONE_PROOFS", "DROP_AUTH_ZONE_SIGNATURE_PROOFS",
    "DROP_AUTH_ZONE_REGULAR_PROOFS", "DROP_NAMED_PROOFS", "DROP_ALL_PROOFS", "CALL_FUNCTION", "CALL_METHOD", "CALL_ROYALTY_METHOD", "CALL_METADATA_METHOD",
    "CALL_ROLE_ASSIGNMENT_METHOD", "CALL_DIRECT_VAULT_METHOD", "ALLOCATE_GLOBAL_ADDRESS", "YIELD_TO_PARENT", "YIELD_TO_CHILD", "VERIFY_PARENT", "RECALL_FROM_VAULT", "FREEZE_VAULT",
    "UNFREEZE_VAULT", "RECALL_NON_FUNGIBLES_FROM_VAULT", "PUBLISH_PACKAGE", "PUBLISH_PACKAGE_ADVANCED", "CREATE_FUNGIBLE_RESOURCE", "CREATE_FUNGIBLE_RESOURCE_WITH_INITIAL_SUPPLY",
    "CREATE_NON_FUNGIBLE_RESOURCE", "CREATE_NON_FUNGIBLE_RESOURCE_WITH_INITIAL_SUPPLY", "CREATE_IDENTITY", "CREATE_IDENTITY_ADVANCED", "CREATE_ACCOUNT", "CREATE_ACCOUNT_ADVANCED",
    "CREATE_ACCESS_CONTROLLER", "SET_METADATA", "REMOVE_METADATA", "LOCK_METADATA", "SET_COMPONENT_ROYALTY", "LOCK_COMPONENT_ROYALTY", "CLAIM_COMPONENT_ROYALTIES", "SET_OWNER_ROLE",
    "LOCK_OWNER_ROLE", "SET_ROLE", "MINT_FUNGIBLE", "MINT_NON_FUNGIBLE", "MINT_RUID_NON_FUNGIBLE", "CLAIM_PACKAGE_ROYALTIES", "CREATE_VALIDATOR",
];

fn parses(text: &str) -> bool {
    match lexer::tokenize(text) {
        Ok(t) => parser::Parser::new(t, parser::PARSER_MAX_DEPTH).and_then(|mut p| p.parse_manifest()).is_ok(),
        Err(_) => false,
    }
}

/// Does the create_snippet of the compiled tree handle CRLF text (i.e. is the C31 fix applied)?
fn snippet_fixed() -> bool {
    let mut text = String::new();
    for _ in 0..12 {
        text.push_str("DROP_ALL_PROOFS;\r\n");
    }
    text.push_str("BOGUS_INSTRUCTION;");
    let n = text.chars().count();
    let sp = Span { start: position_at(&text, n - 18), end: position_at(&text, n - 1) };
    catch(|| create_snippet(&text, &sp, "t", "l", CompileErrorDiagnosticsStyle::PlainText)).is_ok()
}

fn consts() -> Vec<(String, String)> {
    let mut out = vec![];
    out.push(("PARSER_MAX_DEPTH".to_string(), parser::PARSER_MAX_DEPTH.to_string()));
    out.push(("SNIPPET_FIXED".to_string(), if snippet_fixed() { "1".to_string() } else { "0".to_string() }));
    // instruction table measured on the compiled parser: number of fixed value arguments, and
    // whether a free argument list follows
    let mut rows = vec![];
    for id in INSTRUCTION_IDENTS {
        let mut fixed: Option<usize> = None;
        for n in 0..8 {
            let t = format!("{} {};", id, vec!["1u8"; n].join(" "));
            if parses(&t) {
                fixed = Some(n);
                break;
            }
        }
        if let Some(n) = fixed {
            let more = parses(&format!("{} {};", id, vec!["1u8"; n + 1].join(" ")));
            rows.push(format!("(\"{}\", {}, {})", id, n, if more { "true" } else { "false" }));
        }
    }
    out.push(("instructionTable".to_string(), format!("[{}]\traw\tList (String × Nat × Bool)", rows.join(", "))));
    // known enum discriminators: names from the source text, values from the compiled map
    let src = std::fs::read_to_string("/repo/radix-transactions/src/manifest/manifest_enums.rs").unwrap_or_default();
    let re_enum = regex::Regex::new(r"enum\s+(\w+)\s*\{([^}]*)\}").unwrap();
    let re_var = regex::Regex::new(r"(\w+)\s*=").unwrap();
    let mut drows = vec![];
    for cap in re_enum.captures_iter(&src) {
        let name = &cap[1];
        for v in re_var.captures_iter(&cap[2]) {
            let key = format!("{}::{}", name, &v[1]);
            if let Some(d) = KNOWN_ENUM_DISCRIMINATORS.get(key.as_str()) {
                drows.push(format!("(\"{}\", {})", key, d));
            }
        }
    }
    out.push(("knownEnumDiscriminators".to_string(), format!("[{}]\traw\tList (String × Nat)", drows.join(", "))));
    out
}

fn main() {
    main_with(&[("c31", &A)]);
}
