//! C07 — replay protection (transaction tracker).
//!   area `c07`  : unit level, the real `TransactionTrackerSubstateV1::{partition_for_expiry_epoch, advance}`
//!   area `c07e` : engine level, real executions on the `LedgerSimulator` (boot checks + commit-time tracker update)
use harness::util::*;
use radix_common::prelude::*;
use radix_engine::blueprints::transaction_tracker::*;
use radix_engine::errors::RejectionReason;
use radix_engine::transaction::*;
use radix_engine_interface::prelude::*;
use radix_substate_store_interface::interface::*;
use radix_transactions::prelude::*;
use radix_transactions::validation::TransactionValidationConfig;
use scrypto_test::prelude::*;
use std::collections::BTreeMap;
use std::io::Write;

// ------------------------------------------------------------------------------------------ unit

pub struct Unit;

fn boundary_epoch(rng: &mut Rng, se: u64, n: u64, epp: u64) -> u64 {
    let span = n.saturating_mul(epp);
    match rng.below(10) {
        0 => se.saturating_sub(1 + rng.below(3)),
        1 => se,
        2 => se.saturating_add(span).saturating_sub(1),
        3 => se.saturating_add(span),
        4 => se.saturating_add(span).saturating_add(1 + rng.below(200)),
        5 | 6 => {
            // around a partition boundary
            let k = rng.below(n.max(1) + 1);
            let b = se.saturating_add(k.saturating_mul(epp));
            match rng.below(3) {
                0 => b.saturating_sub(1),
                1 => b,
                _ => b.saturating_add(1),
            }
        }
        7 => rng.next(),
        _ => se.saturating_add(rng.below(span.max(1))),
    }
}

impl Area for Unit {
    fn gen(&self, rng: &mut Rng, n: usize, out: &mut dyn Write) {
        for _ in 0..n {
            // parameters: mostly the real ones / well-formed small rings, sometimes malformed
            let (rs, re): (u64, u64) = match rng.below(12) {
                0..=4 => (PARTITION_RANGE_START as u64, PARTITION_RANGE_END as u64),
                5..=7 => {
                    let a = rng.below(250);
                    (a, a + rng.below(6).min(255 - a))
                }
                8 => (0, 255),            // num_partitions overflows u8
                9 => (1, 255),
                10 => (rng.below(256), rng.below(256)), // may be inverted
                _ => (0, 254),
            };
            let epp: u64 = match rng.below(10) {
                0..=4 => EPOCHS_PER_PARTITION,
                5 => 1,
                6 => 0,
                7 => 1 + rng.below(7),
                8 => u64::MAX / (1 + rng.below(300)),
                _ => 1 + rng.below(1000),
            };
            let sp: u64 = if re >= rs && rng.chance(9, 10) { rs + rng.below(re - rs + 1) } else { rng.below(256) };
            let se: u64 = match rng.below(8) {
                0 => 0,
                1 => u64::MAX - rng.below(40_000),
                2 => u64::MAX,
                _ => rng.below(1_000_000),
            };
            writeln!(out, "reset {} {} {} {} {}", se, sp, rs, re, epp).unwrap();
            let nparts = if re >= rs { re - rs + 1 } else { 1 };
            let mut cur_se = se;
            let len = 2 + rng.below(40);
            for _ in 0..len {
                if rng.chance(1, 4) {
                    writeln!(out, "adv").unwrap();
                    cur_se = cur_se.saturating_add(epp);
                } else {
                    writeln!(out, "pfe {}", boundary_epoch(rng, cur_se, nparts, epp)).unwrap();
                }
            }
        }
        // malformed stream
        for l in ["pfe", "pfe x", "reset 1 2 3", "reset 0 256 65 255 100", "adv 1", "pfe 18446744073709551616", "bogus 1"] {
            writeln!(out, "reset 0 65 65 255 100").unwrap();
            writeln!(out, "{}", l).unwrap();
        }
    }
    fn runner(&self) -> Box<dyn Runner> {
        Box::new(UnitR { t: mk(0, 65, 65, 255, 100), seen: BTreeMap::new() })
    }
    fn consts(&self) -> Vec<(String, String)> {
        consts()
    }
}

fn consts() -> Vec<(String, String)> {
    vec![
        ("PARTITION_RANGE_START".into(), (PARTITION_RANGE_START as u64).to_string()),
        ("PARTITION_RANGE_END".into(), (PARTITION_RANGE_END as u64).to_string()),
        ("EPOCHS_PER_PARTITION".into(), EPOCHS_PER_PARTITION.to_string()),
        ("MAX_EPOCH_RANGE_BABYLON".into(), TransactionValidationConfig::babylon().max_epoch_range.to_string()),
        ("MAX_EPOCH_RANGE_CUTTLEFISH".into(), TransactionValidationConfig::cuttlefish().max_epoch_range.to_string()),
        ("MAX_EPOCH_RANGE_LATEST".into(), TransactionValidationConfig::latest().max_epoch_range.to_string()),
    ]
}

fn mk(se: u64, sp: u8, rs: u8, re: u8, epp: u64) -> TransactionTrackerSubstateV1 {
    TransactionTrackerSubstateV1 {
        start_epoch: se,
        start_partition: sp,
        partition_range_start_inclusive: rs,
        partition_range_end_inclusive: re,
        epochs_per_partition: epp,
    }
}

struct UnitR {
    t: TransactionTrackerSubstateV1,
    /// oracle ghost: expiry epoch -> partition answered earlier in this case
    seen: BTreeMap<u64, u8>,
}

/// well-formed: the shape every tracker created by `TransactionTrackerBlueprint::create` and moved by
/// `advance` has, away from the u64 limit
fn wf(t: &TransactionTrackerSubstateV1) -> bool {
    let (rs, re, sp) = (t.partition_range_start_inclusive as u128, t.partition_range_end_inclusive as u128, t.start_partition as u128);
    rs <= sp && sp <= re && re - rs + 1 <= 255 && t.epochs_per_partition > 0
        && (t.start_epoch as u128) + (re - rs + 2) * (t.epochs_per_partition as u128) <= u64::MAX as u128
}

impl Runner for UnitR {
    fn step(&mut self, line: &str) -> Answer {
        let t: Vec<&str> = line.split(' ').filter(|s| !s.is_empty()).collect();
        match t.as_slice() {
            ["reset", se, sp, rs, re, epp] => {
                match (se.parse::<u64>(), sp.parse::<u8>(), rs.parse::<u8>(), re.parse::<u8>(), epp.parse::<u64>()) {
                    (Ok(se), Ok(sp), Ok(rs), Ok(re), Ok(epp)) => {
                        self.t = mk(se, sp, rs, re, epp);
                        self.seen.clear();
                        Answer::ok("ok")
                    }
                    _ => Answer::ok("bad-op"),
                }
            }
            ["pfe", e] => {
                let Ok(e) = e.parse::<u64>() else { return Answer::ok("bad-op") };
                let tr = self.t.clone();
                let r = catch(move || tr.partition_for_expiry_epoch(Epoch::of(e)));
                let ans = match &r {
                    Err(_) => "panic".to_string(),
                    Ok(None) => "none".to_string(),
                    Ok(Some(p)) => format!("some {}", p),
                };
                if wf(&self.t) {
                    let t = &self.t;
                    let n = (t.partition_range_end_inclusive - t.partition_range_start_inclusive) as u64 + 1;
                    let in_window = e >= t.start_epoch && e < t.start_epoch + n * t.epochs_per_partition;
                    match &r {
                        Err(m) => return Answer::fail(ans, "pfe-panic-wf", format!("partition_for_expiry_epoch panicked on a well-formed tracker: {}", m)),
                        Ok(None) if in_window => return Answer::fail(ans, "pfe-none-in-window", "an expiry epoch inside the covered window has no partition"),
                        Ok(Some(_)) if !in_window => return Answer::fail(ans, "pfe-some-outside-window", "an expiry epoch outside the covered window got a partition"),
                        Ok(Some(p)) => {
                            if *p < t.partition_range_start_inclusive || *p > t.partition_range_end_inclusive {
                                return Answer::fail(ans, "pfe-out-of-range", "partition outside the configured range");
                            }
                            if let Some(q) = self.seen.get(&e) {
                                if q != p {
                                    return Answer::fail(ans, "pfe-unstable", format!("expiry {} was in partition {} and is now looked up in {}", e, q, p));
                                }
                            }
                            // injectivity inside the current window: another live expiry in a different slot must not share the partition
                            let slot = (e - t.start_epoch) / t.epochs_per_partition;
                            for (e2, p2) in self.seen.iter() {
                                if *e2 >= t.start_epoch && *e2 < t.start_epoch + n * t.epochs_per_partition {
                                    let slot2 = (*e2 - t.start_epoch) / t.epochs_per_partition;
                                    if (slot2 == slot) != (p2 == p) {
                                        return Answer::fail(ans, "pfe-slot-mismatch", format!("expiries {} and {}: same slot={} but same partition={}", e, e2, slot2 == slot, p2 == p));
                                    }
                                }
                            }
                            self.seen.insert(e, *p);
                        }
                        _ => {}
                    }
                }
                Answer::ok(ans)
            }
            ["adv"] => {
                let mut tr = self.t.clone();
                let r = catch(move || {
                    let old = tr.advance();
                    (tr, old)
                });
                match r {
                    Err(m) => {
                        if wf(&self.t) {
                            return Answer::fail("panic", "advance-panic-wf", format!("advance panicked on a well-formed tracker: {}", m));
                        }
                        Answer::ok("panic")
                    }
                    Ok((tr, old)) => {
                        let was_wf = wf(&self.t);
                        let old_se = self.t.start_epoch;
                        let epp = self.t.epochs_per_partition;
                        self.t = tr;
                        let ans = format!("ok {} {} {}", old, self.t.start_epoch, self.t.start_partition);
                        if was_wf {
                            // the dropped partition must be exactly the one that held the expiries of the first slot
                            for (e2, p2) in self.seen.iter() {
                                let in_first = *e2 >= old_se && *e2 < old_se + epp;
                                if in_first != (*p2 == old) && *e2 >= old_se {
                                    return Answer::fail(ans, "advance-drops-wrong-partition", format!("advance dropped partition {} but expiry {} lives in {}", old, e2, p2));
                                }
                            }
                            // records of the dropped slot are forgotten by the ghost as well
                            self.seen.retain(|e2, _| *e2 >= old_se + epp);
                        }
                        Answer::ok(ans)
                    }
                }
            }
            _ => Answer::ok("bad-op"),
        }
    }
}

fn main() {
    main_with(&[("c07", &Unit)]);
}
