//! C07 — replay protection (transaction tracker).
//!   area `c07`  : unit level, the real `TransactionTrackerSubstateV1::{partition_for_expiry_epoch, advance}`
//!   area `ec07` : engine level, real executions on the `LedgerSimulator` (boot checks + commit-time tracker update)
use harness::util::*;
use radix_common::prelude::*;
use radix_engine::blueprints::transaction_tracker::*;
use radix_engine::blueprints::consensus_manager::*;
use radix_engine::errors::RejectionReason;
use radix_engine::system::system_db_reader::SystemDatabaseReader;
use radix_engine::system::system_substates::*;
use radix_engine::transaction::*;
use radix_engine::vm::NoExtension;
use radix_engine_interface::prelude::*;
use radix_substate_store_impls::memory_db::InMemorySubstateDatabase;
use radix_substate_store_interface::interface::*;
use radix_transactions::prelude::*;
use radix_transactions::validation::TransactionValidationConfig;
use scrypto_test::prelude::*;
use std::collections::BTreeMap;
use std::io::Write;

// ------------------------------------------------------------------------------------------ unit

pub struct Unit;

fn boundary_epoch(rng: &mut Rng, se: u64, n: u64, epp: u64) -> u64 {
    let span = n.saturating_mul(epp);
    match rng.below(10) {
        0 => se.saturating_sub(1 + rng.below(3)),
        1 => se,
        2 => se.saturating_add(span).saturating_sub(1),
        3 => se.saturating_add(span),
        4 => se.saturating_add(span).saturating_add(1 + rng.below(200)),
        5 | 6 => {
            // around a partition boundary
            let k = rng.below(n.max(1) + 1);
            let b = se.saturating_add(k.saturating_mul(epp));
            match rng.below(3) {
                0 => b.saturating_sub(1),
                1 => b,
                _ => b.saturating_add(1),
            }
        }
        7 => rng.next(),
        _ => se.saturating_add(rng.below(span.max(1))),
    }
}

impl Area for Unit {
    fn gen(&self, rng: &mut Rng, n: usize, out: &mut dyn Write) {
        for _ in 0..n {
            // parameters: mostly the real ones / well-formed small rings, sometimes malformed
            let (rs, re): (u64, u64) = match rng.below(12) {
                0..=4 => (PARTITION_RANGE_START as u64, PARTITION_RANGE_END as u64),
                5..=7 => {
                    let a = rng.below(250);
                    (a, a + rng.below(6).min(255 - a))
                }
                8 => (0, 255),            // num_partitions overflows u8
                9 => (1, 255),
                10 => (rng.below(256), rng.below(256)), // may be inverted
                _ => (0, 254),
            };
            let epp: u64 = match rng.below(10) {
                0..=4 => EPOCHS_PER_PARTITION,
                5 => 1,
                6 => 0,
                7 => 1 + rng.below(7),
                8 => u64::MAX / (1 + rng.below(300)),
                _ => 1 + rng.below(1000),
            };
            let sp: u64 = if re >= rs && rng.chance(9, 10) { rs + rng.below(re - rs + 1) } else { rng.below(256) };
            let se: u64 = match rng.below(8) {
                0 => 0,
                1 => u64::MAX - rng.below(40_000),
                2 => u64::MAX,
                _ => rng.below(1_000_000),
            };
            writeln!(out, "reset {} {} {} {} {}", se, sp, rs, re, epp).unwrap();
            let nparts = if re >= rs { re - rs + 1 } else { 1 };
            let mut cur_se = se;
            let len = 2 + rng.below(40);
            for _ in 0..len {
                if rng.chance(1, 4) {
                    writeln!(out, "adv").unwrap();
                    cur_se = cur_se.saturating_add(epp);
                } else {
                    writeln!(out, "pfe {}", boundary_epoch(rng, cur_se, nparts, epp)).unwrap();
                }
            }
        }
        // malformed stream
        for l in ["pfe", "pfe x", "reset 1 2 3", "reset 0 256 65 255 100", "adv 1", "pfe 18446744073709551616", "bogus 1"] {
            writeln!(out, "reset 0 65 65 255 100").unwrap();
            writeln!(out, "{}", l).unwrap();
        }
    }
    fn runner(&self) -> Box<dyn Runner> {
        Box::new(UnitR { t: mk(0, 65, 65, 255, 100), seen: BTreeMap::new() })
    }
    fn consts(&self) -> Vec<(String, String)> {
        consts()
    }
}

fn consts() -> Vec<(String, String)> {
    vec![
        ("PARTITION_RANGE_START".into(), (PARTITION_RANGE_START as u64).to_string()),
        ("PARTITION_RANGE_END".into(), (PARTITION_RANGE_END as u64).to_string()),
        ("EPOCHS_PER_PARTITION".into(), EPOCHS_PER_PARTITION.to_string()),
        ("MAX_EPOCH_RANGE_BABYLON".into(), TransactionValidationConfig::babylon().max_epoch_range.to_string()),
        ("MAX_EPOCH_RANGE_CUTTLEFISH".into(), TransactionValidationConfig::cuttlefish().max_epoch_range.to_string()),
        ("MAX_EPOCH_RANGE_LATEST".into(), TransactionValidationConfig::latest().max_epoch_range.to_string()),
    ]
}

fn mk(se: u64, sp: u8, rs: u8, re: u8, epp: u64) -> TransactionTrackerSubstateV1 {
    TransactionTrackerSubstateV1 {
        start_epoch: se,
        start_partition: sp,
        partition_range_start_inclusive: rs,
        partition_range_end_inclusive: re,
        epochs_per_partition: epp,
    }
}

struct UnitR {
    t: TransactionTrackerSubstateV1,
    /// oracle ghost: expiry epoch -> partition answered earlier in this case
    seen: BTreeMap<u64, u8>,
}

/// well-formed: the shape every tracker created by `TransactionTrackerBlueprint::create` and moved by
/// `advance` has, away from the u64 limit
fn wf(t: &TransactionTrackerSubstateV1) -> bool {
    let (rs, re, sp) = (t.partition_range_start_inclusive as u128, t.partition_range_end_inclusive as u128, t.start_partition as u128);
    rs <= sp && sp <= re && re - rs + 1 <= 255 && t.epochs_per_partition > 0
        && (t.start_epoch as u128) + (re - rs + 2) * (t.epochs_per_partition as u128) <= u64::MAX as u128
}

impl Runner for UnitR {
    fn step(&mut self, line: &str) -> Answer {
        let t: Vec<&str> = line.split(' ').filter(|s| !s.is_empty()).collect();
        match t.as_slice() {
            ["reset", se, sp, rs, re, epp] => {
                match (se.parse::<u64>(), sp.parse::<u8>(), rs.parse::<u8>(), re.parse::<u8>(), epp.parse::<u64>()) {
                    (Ok(se), Ok(sp), Ok(rs), Ok(re), Ok(epp)) => {
                        self.t = mk(se, sp, rs, re, epp);
                        self.seen.clear();
                        Answer::ok("ok")
                    }
                    _ => Answer::ok("bad-op"),
                }
            }
            ["pfe", e] => {
                let Ok(e) = e.parse::<u64>() else { return Answer::ok("bad-op") };
                let tr = self.t.clone();
                let r = catch(move || tr.partition_for_expiry_epoch(Epoch::of(e)));
                let ans = match &r {
                    Err(_) => "panic".to_string(),
                    Ok(None) => "none".to_string(),
                    Ok(Some(p)) => format!("some {}", p),
                };
                if wf(&self.t) {
                    let t = &self.t;
                    let n = (t.partition_range_end_inclusive - t.partition_range_start_inclusive) as u64 + 1;
                    let in_window = e >= t.start_epoch && e < t.start_epoch + n * t.epochs_per_partition;
                    match &r {
                        Err(m) => return Answer::fail(ans, "pfe-panic-wf", format!("partition_for_expiry_epoch panicked on a well-formed tracker: {}", m)),
                        Ok(None) if in_window => return Answer::fail(ans, "pfe-none-in-window", "an expiry epoch inside the covered window has no partition"),
                        Ok(Some(_)) if !in_window => return Answer::fail(ans, "pfe-some-outside-window", "an expiry epoch outside the covered window got a partition"),
                        Ok(Some(p)) => {
                            if *p < t.partition_range_start_inclusive || *p > t.partition_range_end_inclusive {
                                return Answer::fail(ans, "pfe-out-of-range", "partition outside the configured range");
                            }
                            if let Some(q) = self.seen.get(&e) {
                                if q != p {
                                    return Answer::fail(ans, "pfe-unstable", format!("expiry {} was in partition {} and is now looked up in {}", e, q, p));
                                }
                            }
                            // injectivity inside the current window: another live expiry in a different slot must not share the partition
                            let slot = (e - t.start_epoch) / t.epochs_per_partition;
                            for (e2, p2) in self.seen.iter() {
                                if *e2 >= t.start_epoch && *e2 < t.start_epoch + n * t.epochs_per_partition {
                                    let slot2 = (*e2 - t.start_epoch) / t.epochs_per_partition;
                                    if (slot2 == slot) != (p2 == p) {
                                        return Answer::fail(ans, "pfe-slot-mismatch", format!("expiries {} and {}: same slot={} but same partition={}", e, e2, slot2 == slot, p2 == p));
                                    }
                                }
                            }
                            self.seen.insert(e, *p);
                        }
                        _ => {}
                    }
                }
                Answer::ok(ans)
            }
            ["adv"] => {
                let mut tr = self.t.clone();
                let r = catch(move || {
                    let old = tr.advance();
                    (tr, old)
                });
                match r {
                    Err(m) => {
                        if wf(&self.t) {
                            return Answer::fail("panic", "advance-panic-wf", format!("advance panicked on a well-formed tracker: {}", m));
                        }
                        Answer::ok("panic")
                    }
                    Ok((tr, old)) => {
                        let was_wf = wf(&self.t);
                        let old_se = self.t.start_epoch;
                        let epp = self.t.epochs_per_partition;
                        self.t = tr;
                        let ans = format!("ok {} {} {}", old, self.t.start_epoch, self.t.start_partition);
                        if was_wf {
                            // the dropped partition must be exactly the one that held the expiries of the first slot
                            for (e2, p2) in self.seen.iter() {
                                let in_first = *e2 >= old_se && *e2 < old_se + epp;
                                if in_first != (*p2 == old) && *e2 >= old_se {
                                    return Answer::fail(ans, "advance-drops-wrong-partition", format!("advance dropped partition {} but expiry {} lives in {}", old, e2, p2));
                                }
                            }
                            // records of the dropped slot are forgotten by the ghost as well
                            self.seen.retain(|e2, _| *e2 >= old_se + epp);
                        }
                        Answer::ok(ans)
                    }
                }
            }
            _ => Answer::ok("bad-op"),
        }
    }
}

// ---------------------------------------------------------------------------------------- engine

pub struct Engine;

type Sim = LedgerSimulator<NoExtension, InMemorySubstateDatabase>;

fn new_sim() -> Sim {
    LedgerSimulatorBuilder::new().without_kernel_trace().without_receipt_substate_check().build()
}

fn read_tracker(sim: &Sim) -> TransactionTrackerSubstateV1 {
    sim.substate_db()
        .get_substate::<FieldSubstate<TransactionTrackerSubstate>>(
            TRANSACTION_TRACKER,
            MAIN_BASE_PARTITION,
            TransactionTrackerField::TransactionTracker,
        )
        .unwrap()
        .into_payload()
        .into_v1()
}

fn read_epoch(sim: &Sim) -> u64 {
    let reader = SystemDatabaseReader::new(sim.substate_db());
    reader
        .read_typed_object_field::<ConsensusManagerStateFieldPayload>(
            CONSENSUS_MANAGER.as_node_id(),
            ModuleId::Main,
            ConsensusManagerField::State.field_index(),
        )
        .unwrap()
        .fully_update_and_into_latest_version()
        .epoch
        .number()
}

fn intent_hash_of(h: u64) -> Hash {
    hash(format!("c07-intent-{}", h))
}

fn peek(sim: &Sim, p: u8, h: u64) -> &'static str {
    let v = sim.substate_db().get_substate::<KeyValueEntrySubstate<TransactionStatus>>(
        TRANSACTION_TRACKER,
        PartitionNumber(p),
        SubstateKey::Map(scrypto_encode(&intent_hash_of(h)).unwrap()),
    );
    match v.and_then(|s| s.into_value()) {
        None => "none",
        Some(st) => match st.into_v1() {
            TransactionStatusV1::CommittedSuccess => "success",
            TransactionStatusV1::CommittedFailure => "failure",
            TransactionStatusV1::Cancelled => "cancelled",
        },
    }
}

/// generator-side mirror of what it has asked for so far (used only to aim at boundaries)
struct GenState {
    epoch: u64,
    se: u64,
    next_hash: u64,
    /// (kind, hash, expiry)
    used: Vec<(char, u64, u64)>,
}

impl Engine {
    fn gen_case(&self, rng: &mut Rng, init: &(TransactionTrackerSubstateV1, u64), out: &mut dyn Write, tier_long: bool) {
        let (t, ep) = init;
        writeln!(out, "reset {} {} {} {} {} {}", t.start_epoch, t.start_partition, t.partition_range_start_inclusive, t.partition_range_end_inclusive, t.epochs_per_partition, ep).unwrap();
        let epp = t.epochs_per_partition;
        let nparts = (t.partition_range_end_inclusive - t.partition_range_start_inclusive) as u64 + 1;
        let max_range = TransactionValidationConfig::latest().max_epoch_range;
        let mut g = GenState { epoch: *ep, se: t.start_epoch, next_hash: 1, used: vec![] };
        // histories: 0 = realistic single-step, 1 = jumps to partition boundaries, 2 = wild (lag, far expiries)
        let style = rng.below(3);
        let len = if tier_long { 40 + rng.below(120) } else { 8 + rng.below(30) };
        // start somewhere interesting
        if style != 0 || rng.chance(1, 2) {
            let target = match rng.below(4) { 0 => g.se + epp - 1 - rng.below(3), 1 => g.se + epp - 1, 2 => g.se + rng.below(epp), _ => g.epoch };
            if target > g.epoch { writeln!(out, "jump {}", target).unwrap(); g.epoch = target; }
        }
        let committed = |g: &mut GenState| { if g.epoch >= g.se + epp { g.se += epp; } };
        for _ in 0..len {
            match rng.below(20) {
                0..=8 => {
                    // a transaction
                    let k = match rng.below(8) { 0 => 0, 1 => 2, 2 => 3, _ => 1 };
                    let mut nulls: Vec<(char, u64, u64)> = vec![];
                    for _ in 0..k {
                        if !g.used.is_empty() && rng.chance(2, 5) {
                            let (kd, h, e) = *rng.pick(&g.used);
                            let kd = if rng.chance(1, 6) { if kd == 't' { 's' } else { 't' } } else { kd };
                            nulls.push((kd, h, e));
                        } else {
                            let expiry = match rng.below(12) {
                                0 => g.epoch + 1,
                                1 => g.se + epp - 1,
                                2 => g.se + epp,
                                3 => g.se + epp + 1,
                                4 => g.epoch + max_range,
                                5 => g.se + 2 * epp - rng.below(2),
                                6 if style == 2 => g.se + nparts * epp - rng.below(2),     // last covered / first uncovered
                                7 if style == 2 => g.epoch + max_range + 1 + rng.below(12_000),
                                8 if style == 2 => g.epoch.saturating_sub(rng.below(3)),       // already expired
                                _ => g.epoch + 1 + rng.below(max_range.min(400)),
                            };
                            let kd = if rng.chance(1, 4) { 's' } else { 't' };
                            let h = g.next_hash;
                            g.next_hash += 1;
                            nulls.push((kd, h, expiry));
                        }
                    }
                    let succ = !rng.chance(1, 3);
                    let min_exp = nulls.iter().map(|n| n.2).min().unwrap_or(g.epoch + 10);
                    let (s, e): (String, String) = match rng.below(12) {
                        0 if style == 2 => ("-".into(), "-".into()),
                        1 => ((g.epoch + 1).to_string(), (g.epoch + 5).max(min_exp).to_string()),   // not yet valid
                        2 => (g.epoch.saturating_sub(3).to_string(), g.epoch.to_string()),              // just expired
                        3 => (g.epoch.to_string(), (g.epoch + 1).to_string()),
                        _ => (g.epoch.saturating_sub(rng.below(4)).to_string(), min_exp.to_string()),
                    };
                    let mut l = format!("tx {} {} {} {}", succ as u8, s, e, nulls.len());
                    for (kd, h, ex) in &nulls {
                        l += &format!(" {} {} {}", kd, h, ex);
                        if !g.used.contains(&(*kd, *h, *ex)) { g.used.push((*kd, *h, *ex)); }
                    }
                    writeln!(out, "{}", l).unwrap();
                    committed(&mut g); // (if it was rejected nothing moved; the mirror is only a heuristic)
                }
                9..=12 => {
                    writeln!(out, "round").unwrap();
                    g.epoch += 1;
                    committed(&mut g);
                }
                13..=14 => {
                    let e2 = match (style, rng.below(4)) { (0, _) => g.epoch + rng.below(2), (_, 0) => g.epoch, (_, 1) => g.epoch + 1, (1, _) => g.epoch + rng.below(3), (_, _) => g.epoch + rng.below(260) };
                    writeln!(out, "sys {}", e2).unwrap();
                    g.epoch = e2;
                    committed(&mut g);
                }
                15..=16 if style != 0 => {
                    let e2 = match rng.below(6) {
                        0 => g.se + epp - 1,
                        1 => g.se + epp,
                        2 => g.se + 2 * epp - 1,
                        3 if style == 2 => g.epoch + 5_000 + rng.below(8_000),
                        4 if style == 2 => g.epoch.saturating_sub(rng.below(3)),   // backwards (test-only)
                        _ => g.epoch + rng.below(epp),
                    };
                    writeln!(out, "jump {}", e2).unwrap();
                    g.epoch = e2;
                }
                _ => {
                    if let Some((_, h, ex)) = g.used.last().copied().or(None) {
                        let (_, h2, ex2) = if rng.chance(1, 2) { (0, h, ex) } else { let u = *rng.pick(&g.used); (0, u.1, u.2) };
                        // aim at the partition the expiry should live in (heuristic mirror), sometimes a neighbour
                        let slot = if ex2 >= g.se { (ex2 - g.se) / epp } else { 0 };
                        let base = t.partition_range_start_inclusive as u64;
                        let sp_now = base + ((t.start_partition as u64 - base) + (g.se - t.start_epoch) / epp) % nparts;
                        let mut p = base + ((sp_now - base) + slot) % nparts;
                        if rng.chance(1, 5) { p = base + ((p - base) + 1) % nparts; }
                        writeln!(out, "peek {} {}", p, h2).unwrap();
                    } else {
                        writeln!(out, "peek {} 1", t.start_partition).unwrap();
                    }
                }
            }
        }
    }
}

impl Area for Engine {
    fn gen(&self, rng: &mut Rng, n: usize, out: &mut dyn Write) {
        let sim = new_sim();
        let init = (read_tracker(&sim), read_epoch(&sim));
        let long = std::env::var("VERIF_TIER").map(|t| t == "thorough").unwrap_or(false);
        for i in 0..n {
            self.gen_case(rng, &init, out, long && i % 4 == 0);
        }
        let t = &init.0;
        for l in ["tx 1 5 6 1 t 1", "tx 2 - - 0", "tx 1 - 5 0", "sys", "jump x", "peek 300 1", "tx 1 1 2 1 q 1 2", "round 1"] {
            writeln!(out, "reset {} {} {} {} {} {}", t.start_epoch, t.start_partition, t.partition_range_start_inclusive, t.partition_range_end_inclusive, t.epochs_per_partition, init.1).unwrap();
            writeln!(out, "{}", l).unwrap();
        }
    }
    fn runner(&self) -> Box<dyn Runner> {
        let sim = new_sim();
        let snap = sim.create_snapshot();
        Box::new(EngineR { sim, snap, committed: BTreeMap::new(), clean: true, counter: 0 })
    }
    fn consts(&self) -> Vec<(String, String)> {
        let sim = new_sim();
        let t = read_tracker(&sim);
        let mut v = consts();
        v.push(("GENESIS_START_EPOCH".into(), t.start_epoch.to_string()));
        v.push(("GENESIS_START_PARTITION".into(), (t.start_partition as u64).to_string()));
        v.push(("GENESIS_RANGE_START".into(), (t.partition_range_start_inclusive as u64).to_string()));
        v.push(("GENESIS_RANGE_END".into(), (t.partition_range_end_inclusive as u64).to_string()));
        v.push(("GENESIS_EPOCHS_PER_PARTITION".into(), t.epochs_per_partition.to_string()));
        v.push(("GENESIS_EPOCH".into(), read_epoch(&sim).to_string()));
        v
    }
}

struct EngineR {
    sim: Sim,
    snap: LedgerSimulatorSnapshot,
    /// oracle ghost: intents the implementation has committed in this case: hash -> expiry
    committed: BTreeMap<u64, u64>,
    /// oracle ghost: so far the history is single-step and every expiry was within max_epoch_range
    clean: bool,
    counter: u64,
}

impl EngineR {
    fn commit_answer(&self) -> String {
        let t = read_tracker(&self.sim);
        format!("commit {} {}", t.start_epoch, t.start_partition)
    }
}

impl Runner for EngineR {
    fn step(&mut self, line: &str) -> Answer {
        let t: Vec<&str> = line.split(' ').filter(|s| !s.is_empty()).collect();
        let bad = || Answer::ok("bad-op");
        match t.as_slice() {
            ["reset", se, sp, rs, re, epp, ep] => {
                if [se, sp, rs, re, epp, ep].iter().any(|x| x.parse::<u64>().is_err()) { return bad() }
                self.sim.restore_snapshot(self.snap.clone());
                self.committed.clear();
                self.clean = true;
                let tr = read_tracker(&self.sim);
                Answer::ok(format!("state {} {} {} {} {} {}", tr.start_epoch, tr.start_partition, tr.partition_range_start_inclusive, tr.partition_range_end_inclusive, tr.epochs_per_partition, read_epoch(&self.sim)))
            }
            ["tx", succ, s, e, k, rest @ ..] => {
                let succ = match *succ { "1" => true, "0" => false, _ => return bad() };
                let range = if *s == "-" && *e == "-" { None } else {
                    match (s.parse::<u64>(), e.parse::<u64>()) { (Ok(s), Ok(e)) => Some((s, e)), _ => return bad() }
                };
                let Ok(k) = k.parse::<usize>() else { return bad() };
                if rest.len() != 3 * k { return bad() }
                let mut nulls = vec![];
                for c in rest.chunks(3) {
                    let kd = match c[0] { "t" => 't', "s" => 's', _ => return bad() };
                    let (Ok(h), Ok(ex)) = (c[1].parse::<u64>(), c[2].parse::<u64>()) else { return bad() };
                    nulls.push((kd, h, ex));
                }
                let cur = read_epoch(&self.sim);
                let max_range = TransactionValidationConfig::latest().max_epoch_range;
                if range.is_none() || nulls.iter().any(|n| n.2 > cur.saturating_add(max_range)) || range.map(|r| nulls.iter().any(|n| n.2 < r.1)).unwrap_or(false) {
                    // not something static validation would have let through
                    self.clean = false;
                }
                let mut b = ManifestBuilder::new().lock_fee_from_faucet();
                if !succ { b = b.assert_worktop_contains(XRD, dec!(1)); }
                let manifest = b.build();
                self.counter += 1;
                let ctx = ExecutionContext {
                    unique_hash: hash(format!("c07-unique-{}", self.counter)),
                    pre_allocated_addresses: vec![],
                    payload_size: 200,
                    num_of_signature_validations: 0,
                    costing_parameters: TransactionCostingParameters::default(),
                    epoch_range: range.map(|(s, e)| EpochRange { start_epoch_inclusive: Epoch::of(s), end_epoch_exclusive: Epoch::of(e) }),
                    proposer_timestamp_range: None,
                    disable_limits_and_costing_modules: false,
                    intent_hash_nullifications: nulls.iter().map(|(kd, h, ex)| if *kd == 't' {
                        IntentHashNullification::TransactionIntent { intent_hash: TransactionIntentHash::from_hash(intent_hash_of(*h)), expiry_epoch: Epoch::of(*ex) }
                    } else {
                        IntentHashNullification::Subintent { intent_hash: SubintentHash::from_hash(intent_hash_of(*h)), expiry_epoch: Epoch::of(*ex) }
                    }).collect(),
                };
                let executable = ExecutableTransaction::new_v1(
                    manifest_encode(&manifest.instructions).unwrap(),
                    AuthZoneInit::default(),
                    indexset!(Reference(FAUCET.into_node_id()), Reference(XRD.into_node_id())),
                    indexmap!(),
                    ctx,
                );
                let sim = &mut self.sim;
                let r = catch(move || sim.execute_transaction(executable, ExecutionConfig::for_notarized_transaction(NetworkDefinition::simulator())));
                let already: Vec<u64> = nulls.iter().filter(|n| self.committed.get(&n.1) == Some(&n.2)).map(|n| n.1).collect();
                match r {
                    Err(m) => {
                        if self.clean {
                            return Answer::fail("panic", "engine-panic-admissible", format!("the engine panicked on a transaction admitted by validation in a single-step history: {}", m));
                        }
                        Answer::ok("panic")
                    }
                    Ok(receipt) => match &receipt.result {
                        TransactionResult::Reject(rej) => {
                            let name_of = |ih: &IntentHash| -> String {
                                let hh = *ih.as_hash();
                                nulls.iter().find(|n| intent_hash_of(n.1) == hh).map(|n| n.1.to_string()).unwrap_or("?".into())
                            };
                            let ans = match &rej.reason {
                                RejectionReason::TransactionEpochNotYetValid { valid_from, current_epoch } => format!("reject NotYetValid {} {}", valid_from.number(), current_epoch.number()),
                                RejectionReason::TransactionEpochNoLongerValid { valid_until, current_epoch } => format!("reject NoLongerValid {} {}", valid_until.number(), current_epoch.number()),
                                RejectionReason::IntentHashPreviouslyCommitted(ih) => format!("reject PrevCommitted {}", name_of(ih)),
                                RejectionReason::IntentHashPreviouslyCancelled(ih) => format!("reject PrevCancelled {}", name_of(ih)),
                                other => format!("reject other {:?}", other).replace(['\n', '\t'], " "),
                            };
                            if let Some((s, e)) = range {
                                if cur >= s && cur < e && !ans.starts_with("reject Prev") {
                                    return Answer::fail(ans, "epoch-window-reject-inside", "rejected for the epoch window although the current epoch is inside it");
                                }
                            }
                            Answer::ok(ans)
                        }
                        TransactionResult::Commit(c) => {
                            let ok = matches!(c.outcome, TransactionOutcome::Success(_));
                            let ans = self.commit_answer();
                            if ok != succ {
                                return Answer::fail(format!("{} outcome={}", ans, ok), "harness-outcome", "the harness transaction did not end with the requested outcome");
                            }
                            if let Some((s, e)) = range {
                                if cur < s || cur >= e {
                                    return Answer::fail(ans, "epoch-window-commit-outside", format!("committed at epoch {} outside its validity window [{}, {})", cur, s, e));
                                }
                                // the property: an intent committed before is never committed again inside its window
                                if let Some(h) = already.iter().find(|h| self.committed[*h] >= e) {
                                    return Answer::fail(ans, "double-commit", format!("intent {} (expiry {}) committed a second time at epoch {}", h, self.committed[h], cur));
                                }
                            }
                            for (kd, h, ex) in &nulls {
                                if *kd == 't' || ok { self.committed.insert(*h, *ex); }
                            }
                            Answer::ok(ans)
                        }
                        TransactionResult::Abort(_) => Answer::ok("abort"),
                    },
                }
            }
            ["sys", e] => {
                let Ok(e) = e.parse::<u64>() else { return bad() };
                let cur = read_epoch(&self.sim);
                if !(e == cur || e == cur + 1) { self.clean = false; }
                self.sim.set_current_epoch(Epoch::of(e));
                let sim = &mut self.sim;
                match catch(move || sim.get_current_epoch()) {
                    Ok(_) => Answer::ok(self.commit_answer()),
                    Err(m) => {
                        if self.clean { return Answer::fail("panic", "engine-panic-admissible", format!("system transaction panicked in a single-step history: {}", m)); }
                        Answer::ok("panic")
                    }
                }
            }
            ["round"] => {
                // a real consensus round change; with the test genesis every round ends the epoch
                let cur = read_epoch(&self.sim);
                let sim = &mut self.sim;
                match catch(move || sim.advance_to_round(Round::of(1))) {
                    Ok(rc) => {
                        let now = read_epoch(&self.sim);
                        let ans = self.commit_answer();
                        if !rc.is_commit_success() || now != cur + 1 {
                            return Answer::fail(ans, "harness-round", format!("round change did not move the epoch by one ({} -> {})", cur, now));
                        }
                        Answer::ok(ans)
                    }
                    Err(m) => {
                        if self.clean { return Answer::fail("panic", "engine-panic-admissible", format!("round change panicked in a single-step history: {}", m)); }
                        Answer::ok("panic")
                    }
                }
            }
            ["jump", e] => {
                let Ok(e) = e.parse::<u64>() else { return bad() };
                self.clean = false;
                if e < read_epoch(&self.sim) {
                    // epochs moving backwards void the property's premise: forget the ghost
                    self.committed.clear();
                }
                self.sim.set_current_epoch(Epoch::of(e));
                Answer::ok("ok")
            }
            ["peek", p, h] => {
                let (Ok(p), Ok(h)) = (p.parse::<u8>(), h.parse::<u64>()) else { return bad() };
                Answer::ok(peek(&self.sim, p, h))
            }
            _ => bad(),
        }
    }
}

fn main() {
    main_with(&[("c07", &Unit), ("ec07", &Engine)]);
}
