use harness::areas;
use harness::util::*;
use std::io::Write;

fn main() {
    let args: Vec<String> = std::env::args().collect();
    if args.len() < 3 {
        eprintln!("usage: harness <area> gen --seed S --n N | run | consts");
        std::process::exit(2);
    }
    // silence panic messages from catch_unwind'ed implementation calls
    if std::env::var("VERIF_PANIC_VERBOSE").is_err() {
        std::panic::set_hook(Box::new(|_| {}));
    }
    let area = match areas::lookup(&args[1]) {
        Some(a) => a,
        None => {
            eprintln!("unknown area {}", args[1]);
            std::process::exit(2);
        }
    };
    let mut seed = 1u64;
    let mut n = 100usize;
    let mut i = 3;
    while i + 1 < args.len() {
        match args[i].as_str() {
            "--seed" => seed = args[i + 1].parse().unwrap(),
            "--n" => n = args[i + 1].parse().unwrap(),
            _ => {}
        }
        i += 2;
    }
    let stdout = std::io::stdout();
    let mut out = std::io::BufWriter::new(stdout.lock());
    match args[2].as_str() {
        "gen" => {
            let mut rng = Rng::new(seed);
            area.gen(&mut rng, n, &mut out);
        }
        "run" => {
            let stdin = std::io::stdin();
            let mut inp = stdin.lock();
            let mut r = area.runner();
            run_stream(r.as_mut(), &mut inp, &mut out);
        }
        "consts" => {
            for (k, v) in area.consts() {
                writeln!(out, "{}\t{}", k, v).unwrap();
            }
        }
        _ => {
            eprintln!("unknown command");
            std::process::exit(2);
        }
    }
    out.flush().unwrap();
}
