//! C13 — SubstateLocks: lock/unlock streams on the real `SubstateLocks<()>`.
use harness::util::*;
use radix_common::prelude::*;
use radix_engine::kernel::substate_locks::SubstateLocks;
use std::io::Write;

pub struct A;

const NODES: u64 = 3;
const PARTS: u64 = 2;
const KEYS: u64 = 3;

impl Area for A {
    fn gen(&self, rng: &mut Rng, n: usize, out: &mut dyn Write) {
        for _ in 0..n {
            writeln!(out, "reset").unwrap();
            let len = 1 + rng.below(60);
            let mut issued: u64 = 0; // handles are 0..issued in the real code
            for _ in 0..len {
                match rng.below(10) {
                    0..=3 => {
                        let ro = if rng.chance(2, 3) { "r" } else { "w" };
                        writeln!(out, "lock {} {} {} {}", rng.below(NODES), rng.below(PARTS), rng.below(KEYS), ro).unwrap();
                        issued += 1; // upper bound
                    }
                    4..=6 => {
                        // mostly plausible handles, sometimes stale/never issued
                        let h = if issued > 0 && rng.chance(9, 10) { rng.below(issued) } else { rng.below(issued + 3) };
                        writeln!(out, "unlock {}", h).unwrap();
                    }
                    7..=8 => writeln!(out, "islocked {} {} {}", rng.below(NODES), rng.below(PARTS), rng.below(KEYS)).unwrap(),
                    _ => writeln!(out, "nodelocked {}", rng.below(NODES)).unwrap(),
                }
            }
        }
    }
    fn runner(&self) -> Box<dyn Runner> {
        Box::new(R { locks: SubstateLocks::new(), open: vec![] })
    }
}

struct R {
    locks: SubstateLocks<()>,
    /// oracle state: open handles (handle, node, part, key, read_only) per the abstract reader/writer discipline
    open: Vec<(u32, u64, u64, u64, bool)>,
}

fn node(n: u64) -> NodeId {
    NodeId([n as u8; 30])
}
fn key(k: u64) -> SubstateKey {
    if k == 0 { SubstateKey::Field(0) } else { SubstateKey::Map(vec![k as u8; k as usize]) }
}

impl Runner for R {
    fn step(&mut self, line: &str) -> Answer {
        let t: Vec<&str> = line.split(' ').collect();
        let p = |i: usize| -> u64 { t[i].parse().unwrap() };
        match t[0] {
            "reset" => {
                self.locks = SubstateLocks::new();
                self.open.clear();
                Answer::ok("ok")
            }
            "lock" => {
                let (n, pa, k, ro) = (p(1), p(2), p(3), t[4] == "r");
                let r = self.locks.lock(&node(n), PartitionNumber(pa as u8), &key(k), ro, ());
                let same: Vec<_> = self.open.iter().filter(|o| (o.1, o.2, o.3) == (n, pa, k)).collect();
                let expect_grant = if ro { same.iter().all(|o| o.4) } else { same.is_empty() };
                let ans = match r { Some(h) => format!("some {}", h), None => "none".to_string() };
                if r.is_some() != expect_grant {
                    return Answer::fail(ans, format!("lock-grant:{}", line), format!("lock granted={} but reader/writer discipline says {}", r.is_some(), expect_grant));
                }
                if let Some(h) = r {
                    if self.open.iter().any(|o| o.0 == h) {
                        return Answer::fail(ans, "handle-reuse", "handle of an open lock returned again");
                    }
                    self.open.push((h, n, pa, k, ro));
                }
                Answer::ok(ans)
            }
            "unlock" => {
                let h = p(1) as u32;
                let was_open = self.open.iter().position(|o| o.0 == h);
                let r = catch(|| self.locks.unlock(h));
                match (r, was_open) {
                    (Ok((nid, pn, sk, ())), Some(i)) => {
                        let o = self.open.remove(i);
                        let ans = "ok".to_string();
                        if nid != node(o.1) || pn.0 as u64 != o.2 || sk != key(o.3) {
                            return Answer::fail(ans, "unlock-wrong-key", "unlock returned another substate than the handle was opened on");
                        }
                        Answer::ok(ans)
                    }
                    (Ok(_), None) => Answer::fail("ok", "unlock-closed-handle", "a handle that is not open was usable"),
                    (Err(_), Some(_)) => Answer::fail("panic", "unlock-open-handle-failed", "an open handle was not usable"),
                    (Err(_), None) => Answer::ok("panic"),
                }
            }
            "islocked" => {
                let (n, pa, k) = (p(1), p(2), p(3));
                let r = self.locks.is_locked(&node(n), PartitionNumber(pa as u8), &key(k));
                let exp = self.open.iter().any(|o| (o.1, o.2, o.3) == (n, pa, k));
                if r != exp {
                    return Answer::fail(r.to_string(), "is_locked", format!("is_locked={} but open handles say {}", r, exp));
                }
                Answer::ok(r.to_string())
            }
            "nodelocked" => {
                let n = p(1);
                let r = self.locks.node_is_locked(&node(n));
                let exp = self.open.iter().any(|o| o.1 == n);
                if r != exp {
                    return Answer::fail(r.to_string(), "node_is_locked", format!("node_is_locked={} but open handles say {}", r, exp));
                }
                Answer::ok(r.to_string())
            }
            _ => Answer::ok("bad-op"),
        }
    }
}

fn main() {
    main_with(&[("c13", &A)]);
}
