//! C36 — static manifest validation matches the bucket/proof lifecycle.
//!
//! Area `c36` (unit level, diffed against the Lean model `drv_c36`): one manifest per line. The line
//! is a list of instruction tokens; the runner builds REAL `InstructionV2` values from it, wraps
//! them in a `ReadableManifest` (own mock with `is_subintent`, children, pre-allocated addresses and
//! a blob list that may repeat a hash; plus the repo's typed manifests where the line fits one),
//! derives the effect stream with the real `ManifestInstruction::effect()`, runs the real
//! `StaticManifestInterpreter` under the given `ValidationRuleset` (any of the 64 combinations)
//! with a recording visitor, and answers the verdict.
//!
//!   m <sub:0|1> <rules:6 bits ndb,br,pl,nd,da,ra> <nchildren> <nprealloc> <blobs: - | n,n,..> <tok>*
//!   tokens (ids are raw u32):
//!     cb f|n all|amt|ids            CreateBucket (TakeAll/Take/TakeNonFungibles FromWorktop; resource fungible?)
//!     cp - pop|all|amt|ids          CreateProof from auth zone
//!     cp <b> all|amt|ids            CreateProof from bucket b
//!     kb <b> ret|burn               ConsumeBucket
//!     kp <p> drop|push              ConsumeProof
//!     cl <p>                        CloneProof
//!     dp named|all|az|azr|azs       DropManyProofs
//!     inv <kind> <depth> <n> <arg>* Invocation; kind = m-|m<a>|mr-|mr<a>|mm..|ma..|f-|f<a>|d|yp|yc<i>
//!                                   arg = b<n>|p<n>|r<n>|a<n>|s|e|z|x<n>|o   (z = ENTIRE_AUTH_ZONE)
//!     ar                            AllocateGlobalAddress
//!     as nz | al <neg> | anf <fungible> | wo <valid> | wi <valid> | no <valid> | ni <valid> | bc <b> <vf> <vnf>
//!     vf                            VerifyParent
//!   answer: ok B<consumed bits> P<consumed bits> R<consumed bits> A<n>   |   err <Kind>[ <id>] @pre|@<i>|@fin
//!
//! Oracle (on the implementation only): a hash-set simulation of the run-time id tables of
//! `IntentProcessorObjects` over the same tokens — an accepted manifest must never hit an unknown /
//! consumed bucket, proof, reservation, (named address, blob — under the rules that check them) and
//! must end as its kind requires; the effect each real instruction reports must be the id use the
//! run-time processor makes of it.
//!
//! Area `c36e` (engine level, oracle only): executable manifests over a funded account, built from
//! raw instructions with raw ids; every manifest the real interpreter accepts is executed on the
//! `LedgerSimulator` and the receipt must not contain `BucketNotFound` / `ProofNotFound` /
//! `AddressReservationNotFound` / `AddressNotFound` / `BlobNotFound`.
use harness::util::*;
use radix_common::prelude::*;
use radix_engine::errors::*;
use radix_engine::transaction::*;
use radix_engine_interface::prelude::*;
use radix_transactions::manifest::*;
use radix_transactions::model::*;
use radix_transactions::validation::ProofKind;
use scrypto_test::prelude::*;
use std::collections::BTreeSet;
use std::io::Write;
use std::ops::ControlFlow;

// ------------------------------------------------------------------------------------------ tokens

#[derive(Clone, Debug, PartialEq)]
enum Arg {
    B(u32),
    P(u32),
    R(u32),
    A(u32),
    S,
    E,
    Z,
    X(u64),
    O,
}

#[derive(Clone, Debug, PartialEq)]
enum Target {
    Method(u8, Option<u32>), // module: 0 main 1 royalty 2 metadata 3 role assignment
    Function(Option<u32>),
    Direct,
    YieldParent,
    YieldChild(u32),
}

#[derive(Clone, Debug, PartialEq)]
enum Tok {
    Cb(bool, u8),           // fungible, how (0 all 1 amt 2 ids)
    CpAz(u8),               // 0 pop 1 all 2 amt 3 ids
    CpB(u32, u8),           // bucket, 0 all 1 amt 2 ids
    Kb(u32, bool),          // burn?
    Kp(u32, bool),          // push?
    Cl(u32),
    Dp(u8),                 // 0 named 1 all 2 az 3 azr 4 azs
    Inv(Target, usize, Vec<Arg>),
    Ar,
    AsNz,
    AsAl(bool),
    AsAnf(bool),
    AsSet(u8, bool),        // 0 wo 1 wi 2 no 3 ni
    AsBc(u32, bool, bool),
    Vf,
}

struct Line {
    sub: bool,
    rules: [bool; 6],
    nchildren: usize,
    nprealloc: usize,
    blobs: Vec<u64>,
    toks: Vec<Tok>,
}

fn p_u32(s: &str) -> Option<u32> {
    let v: u32 = s.parse().ok()?;
    if v.to_string() == s { Some(v) } else { None }
}
fn p_u64(s: &str) -> Option<u64> {
    let v: u64 = s.parse().ok()?;
    if v.to_string() == s { Some(v) } else { None }
}
fn p_bit(s: &str) -> Option<bool> {
    match s {
        "0" => Some(false),
        "1" => Some(true),
        _ => None,
    }
}
fn p_opt_id(s: &str) -> Option<Option<u32>> {
    if s == "-" { Some(None) } else { p_u32(s).map(Some) }
}

fn parse_target(s: &str) -> Option<Target> {
    if s == "d" {
        return Some(Target::Direct);
    }
    if s == "yp" {
        return Some(Target::YieldParent);
    }
    if let Some(r) = s.strip_prefix("yc") {
        return p_u32(r).map(Target::YieldChild);
    }
    for (pre, m) in [("mr", 1u8), ("mm", 2), ("ma", 3), ("m", 0)] {
        if let Some(r) = s.strip_prefix(pre) {
            return p_opt_id(r).map(|a| Target::Method(m, a));
        }
    }
    if let Some(r) = s.strip_prefix('f') {
        return p_opt_id(r).map(Target::Function);
    }
    None
}

fn parse_arg(s: &str) -> Option<Arg> {
    match s {
        "s" => return Some(Arg::S),
        "e" => return Some(Arg::E),
        "z" => return Some(Arg::Z),
        "o" => return Some(Arg::O),
        _ => {}
    }
    let (h, r) = s.split_at(1.min(s.len()));
    match h {
        "b" => p_u32(r).map(Arg::B),
        "p" => p_u32(r).map(Arg::P),
        "r" => p_u32(r).map(Arg::R),
        "a" => p_u32(r).map(Arg::A),
        "x" => p_u64(r).map(Arg::X),
        _ => None,
    }
}

fn parse_line(line: &str) -> Option<Line> {
    let t: Vec<&str> = line.split(' ').filter(|x| !x.is_empty()).collect();
    if t.len() < 6 || t[0] != "m" {
        return None;
    }
    let sub = p_bit(t[1])?;
    if t[2].len() != 6 {
        return None;
    }
    let mut rules = [false; 6];
    for (i, c) in t[2].chars().enumerate() {
        rules[i] = p_bit(&c.to_string())?;
    }
    let nchildren = p_u32(t[3])? as usize;
    let nprealloc = p_u32(t[4])? as usize;
    if nchildren > 64 || nprealloc > 64 {
        return None;
    }
    let blobs = if t[5] == "-" { vec![] } else { t[5].split(',').map(p_u64).collect::<Option<Vec<_>>>()? };
    let mut toks = vec![];
    let mut i = 6;
    let need = |i: usize, n: usize| -> Option<()> { if i + n <= t.len() { Some(()) } else { None } };
    while i < t.len() {
        match t[i] {
            "cb" => {
                need(i, 3)?;
                let f = match t[i + 1] { "f" => true, "n" => false, _ => return None };
                let how = match t[i + 2] { "all" => 0, "amt" => 1, "ids" => 2, _ => return None };
                toks.push(Tok::Cb(f, how));
                i += 3;
            }
            "cp" => {
                need(i, 3)?;
                if t[i + 1] == "-" {
                    let how = match t[i + 2] { "pop" => 0, "all" => 1, "amt" => 2, "ids" => 3, _ => return None };
                    toks.push(Tok::CpAz(how));
                } else {
                    let how = match t[i + 2] { "all" => 0, "amt" => 1, "ids" => 2, _ => return None };
                    toks.push(Tok::CpB(p_u32(t[i + 1])?, how));
                }
                i += 3;
            }
            "kb" => {
                need(i, 3)?;
                let burn = match t[i + 2] { "ret" => false, "burn" => true, _ => return None };
                toks.push(Tok::Kb(p_u32(t[i + 1])?, burn));
                i += 3;
            }
            "kp" => {
                need(i, 3)?;
                let push = match t[i + 2] { "drop" => false, "push" => true, _ => return None };
                toks.push(Tok::Kp(p_u32(t[i + 1])?, push));
                i += 3;
            }
            "cl" => {
                need(i, 2)?;
                toks.push(Tok::Cl(p_u32(t[i + 1])?));
                i += 2;
            }
            "dp" => {
                need(i, 2)?;
                let k = match t[i + 1] { "named" => 0, "all" => 1, "az" => 2, "azr" => 3, "azs" => 4, _ => return None };
                toks.push(Tok::Dp(k));
                i += 2;
            }
            "inv" => {
                need(i, 4)?;
                let tg = parse_target(t[i + 1])?;
                let depth = p_u32(t[i + 2])? as usize;
                let n = p_u32(t[i + 3])? as usize;
                if depth == 0 || depth > 80 || n > 64 {
                    return None;
                }
                // a value with custom leaves has depth >= 2
                if n > 0 && depth < 2 {
                    return None;
                }
                need(i + 4, n)?;
                let args = (0..n).map(|j| parse_arg(t[i + 4 + j])).collect::<Option<Vec<_>>>()?;
                toks.push(Tok::Inv(tg, depth, args));
                i += 4 + n;
            }
            "ar" => {
                toks.push(Tok::Ar);
                i += 1;
            }
            "vf" => {
                toks.push(Tok::Vf);
                i += 1;
            }
            "as" => {
                need(i, 2)?;
                match t[i + 1] {
                    "nz" => {
                        toks.push(Tok::AsNz);
                        i += 2;
                    }
                    "al" => {
                        need(i, 3)?;
                        toks.push(Tok::AsAl(p_bit(t[i + 2])?));
                        i += 3;
                    }
                    "anf" => {
                        need(i, 3)?;
                        toks.push(Tok::AsAnf(p_bit(t[i + 2])?));
                        i += 3;
                    }
                    k @ ("wo" | "wi" | "no" | "ni") => {
                        need(i, 3)?;
                        let kk = match k { "wo" => 0, "wi" => 1, "no" => 2, _ => 3 };
                        toks.push(Tok::AsSet(kk, p_bit(t[i + 2])?));
                        i += 3;
                    }
                    "bc" => {
                        need(i, 5)?;
                        toks.push(Tok::AsBc(p_u32(t[i + 2])?, p_bit(t[i + 3])?, p_bit(t[i + 4])?));
                        i += 5;
                    }
                    _ => return None,
                }
            }
            _ => return None,
        }
    }
    Some(Line { sub, rules, nchildren, nprealloc, blobs, toks })
}

// ------------------------------------------------------------------------------------------ building real values

fn fres() -> ResourceAddress {
    XRD
}
fn nres() -> ResourceAddress {
    ACCOUNT_OWNER_BADGE
}
fn blob_hash(n: u64) -> Hash {
    let mut b = [0u8; 32];
    b[0..8].copy_from_slice(&n.to_be_bytes());
    b[31] = 0x5a;
    Hash(b)
}
fn blob_num(h: &[u8; 32]) -> u64 {
    let mut b = [0u8; 8];
    b.copy_from_slice(&h[0..8]);
    u64::from_be_bytes(b)
}

fn leaf(a: &Arg) -> ManifestValue {
    let c = match a {
        Arg::B(n) => ManifestCustomValue::Bucket(ManifestBucket(*n)),
        Arg::P(n) => ManifestCustomValue::Proof(ManifestProof(*n)),
        Arg::R(n) => ManifestCustomValue::AddressReservation(ManifestAddressReservation(*n)),
        Arg::A(n) => ManifestCustomValue::Address(ManifestAddress::Named(ManifestNamedAddress(*n))),
        Arg::S => ManifestCustomValue::Address(ManifestAddress::Static(*FAUCET.as_node_id())),
        Arg::E => ManifestCustomValue::Expression(ManifestExpression::EntireWorktop),
        Arg::Z => ManifestCustomValue::Expression(ManifestExpression::EntireAuthZone),
        Arg::X(n) => ManifestCustomValue::Blob(ManifestBlobRef(blob_hash(*n).0)),
        Arg::O => ManifestCustomValue::Decimal(ManifestDecimal([7u8; 24])),
    };
    ManifestValue::Custom { value: c }
}

/// A value of exactly SBOR depth `depth` whose custom terminal values, in traversal order, are `args`
/// (requires depth >= 1, and depth >= 2 when there are args).
fn build_value(depth: usize, args: &[Arg]) -> ManifestValue {
    fn wrap(v: ManifestValue, flip: bool) -> ManifestValue {
        if flip { ManifestValue::Enum { discriminator: 1, fields: vec![v] } } else { ManifestValue::Tuple { fields: vec![v] } }
    }
    // chain of depth k ending in a tuple of `last` leaves (k >= 1 if last is empty, k >= 2 otherwise)
    fn chain(k: usize, last: &[Arg]) -> ManifestValue {
        let base = if last.is_empty() { 1 } else { 2 };
        let mut v = ManifestValue::Tuple { fields: last.iter().map(leaf).collect() };
        for i in base..k {
            v = wrap(v, i % 2 == 1);
        }
        v
    }
    if args.is_empty() {
        return chain(depth, &[]);
    }
    if depth == 2 {
        return ManifestValue::Tuple { fields: args.iter().map(leaf).collect() };
    }
    // earlier args at the outermost level, the last one at the bottom of the chain
    let (outer, last) = args.split_at(args.len() - 1);
    let mut fields: Vec<ManifestValue> = outer.iter().map(leaf).collect();
    fields.push(chain(depth - 1, last));
    ManifestValue::Tuple { fields }
}

fn value_depth(v: &ManifestValue) -> usize {
    match v {
        ManifestValue::Tuple { fields } | ManifestValue::Enum { fields, .. } => 1 + fields.iter().map(value_depth).max().unwrap_or(0),
        ManifestValue::Array { elements, .. } => 1 + elements.iter().map(value_depth).max().unwrap_or(0),
        ManifestValue::Map { entries, .. } => 1 + entries.iter().map(|(k, v)| value_depth(k).max(value_depth(v))).max().unwrap_or(0),
        _ => 1,
    }
}

fn ids1() -> Vec<NonFungibleLocalId> {
    vec![NonFungibleLocalId::integer(1)]
}

/// constraint with the requested (valid for fungible use, valid for non-fungible use) bits
fn constraint_with(vf: bool, vnf: bool) -> ManifestResourceConstraint {
    match (vf, vnf) {
        (true, true) => ManifestResourceConstraint::NonZeroAmount,
        (true, false) => ManifestResourceConstraint::ExactAmount(dec!("0.5")),
        (false, true) => ManifestResourceConstraint::ExactNonFungibles(ids1().into_iter().collect()),
        (false, false) => ManifestResourceConstraint::ExactAmount(dec!("-1")),
    }
}
fn constraints_with(valid: bool) -> ManifestResourceConstraints {
    if valid {
        ManifestResourceConstraints::new().with_unchecked(fres(), ManifestResourceConstraint::AtLeastAmount(dec!(1)))
    } else {
        ManifestResourceConstraints::new().with_unchecked(fres(), ManifestResourceConstraint::ExactNonFungibles(ids1().into_iter().collect()))
    }
}

fn build_instruction(t: &Tok) -> InstructionV2 {
    use InstructionV2 as I;
    match t {
        Tok::Cb(f, how) => {
            let r = if *f { fres() } else { nres() };
            match how {
                0 => I::TakeAllFromWorktop(TakeAllFromWorktop { resource_address: r }),
                1 => I::TakeFromWorktop(TakeFromWorktop { resource_address: r, amount: dec!(1) }),
                _ => I::TakeNonFungiblesFromWorktop(TakeNonFungiblesFromWorktop { resource_address: r, ids: ids1() }),
            }
        }
        Tok::CpAz(how) => match how {
            0 => I::PopFromAuthZone(PopFromAuthZone),
            1 => I::CreateProofFromAuthZoneOfAll(CreateProofFromAuthZoneOfAll { resource_address: fres() }),
            2 => I::CreateProofFromAuthZoneOfAmount(CreateProofFromAuthZoneOfAmount { resource_address: fres(), amount: dec!(1) }),
            _ => I::CreateProofFromAuthZoneOfNonFungibles(CreateProofFromAuthZoneOfNonFungibles { resource_address: nres(), ids: ids1() }),
        },
        Tok::CpB(b, how) => match how {
            0 => I::CreateProofFromBucketOfAll(CreateProofFromBucketOfAll { bucket_id: ManifestBucket(*b) }),
            1 => I::CreateProofFromBucketOfAmount(CreateProofFromBucketOfAmount { bucket_id: ManifestBucket(*b), amount: dec!(1) }),
            _ => I::CreateProofFromBucketOfNonFungibles(CreateProofFromBucketOfNonFungibles { bucket_id: ManifestBucket(*b), ids: ids1() }),
        },
        Tok::Kb(b, burn) => {
            if *burn {
                I::BurnResource(BurnResource { bucket_id: ManifestBucket(*b) })
            } else {
                I::ReturnToWorktop(ReturnToWorktop { bucket_id: ManifestBucket(*b) })
            }
        }
        Tok::Kp(p, push) => {
            if *push {
                I::PushToAuthZone(PushToAuthZone { proof_id: ManifestProof(*p) })
            } else {
                I::DropProof(DropProof { proof_id: ManifestProof(*p) })
            }
        }
        Tok::Cl(p) => I::CloneProof(CloneProof { proof_id: ManifestProof(*p) }),
        Tok::Dp(k) => match k {
            0 => I::DropNamedProofs(DropNamedProofs),
            1 => I::DropAllProofs(DropAllProofs),
            2 => I::DropAuthZoneProofs(DropAuthZoneProofs),
            3 => I::DropAuthZoneRegularProofs(DropAuthZoneRegularProofs),
            _ => I::DropAuthZoneSignatureProofs(DropAuthZoneSignatureProofs),
        },
        Tok::Inv(tg, depth, args) => {
            let v = build_value(*depth, args);
            match tg {
                Target::Method(m, a) => {
                    let address = match a {
                        Some(n) => ManifestGlobalAddress::Named(ManifestNamedAddress(*n)),
                        None => ManifestGlobalAddress::Static(FAUCET.into()),
                    };
                    let method_name = "x".to_string();
                    match m {
                        0 => I::CallMethod(CallMethod { address, method_name, args: v }),
                        1 => I::CallRoyaltyMethod(CallRoyaltyMethod { address, method_name, args: v }),
                        2 => I::CallMetadataMethod(CallMetadataMethod { address, method_name, args: v }),
                        _ => I::CallRoleAssignmentMethod(CallRoleAssignmentMethod { address, method_name, args: v }),
                    }
                }
                Target::Function(a) => {
                    let package_address = match a {
                        Some(n) => ManifestPackageAddress::Named(ManifestNamedAddress(*n)),
                        None => ManifestPackageAddress::Static(FAUCET_PACKAGE),
                    };
                    I::CallFunction(CallFunction { package_address, blueprint_name: "B".into(), function_name: "f".into(), args: v })
                }
                Target::Direct => {
                    let mut raw = [0u8; NodeId::LENGTH];
                    raw[0] = EntityType::InternalFungibleVault as u8;
                    I::CallDirectVaultMethod(CallDirectVaultMethod { address: InternalAddress::new_or_panic(raw), method_name: "x".into(), args: v })
                }
                Target::YieldParent => I::YieldToParent(YieldToParent { args: v }),
                Target::YieldChild(i) => I::YieldToChild(YieldToChild { child_index: ManifestNamedIntentIndex(*i), args: v }),
            }
        }
        Tok::Ar => I::AllocateGlobalAddress(AllocateGlobalAddress { package_address: FAUCET_PACKAGE, blueprint_name: "B".into() }),
        Tok::AsNz => I::AssertWorktopContainsAny(AssertWorktopContainsAny { resource_address: fres() }),
        Tok::AsAl(neg) => I::AssertWorktopContains(AssertWorktopContains { resource_address: fres(), amount: if *neg { dec!("-0.000000000000000001") } else { dec!(0) } }),
        Tok::AsAnf(f) => I::AssertWorktopContainsNonFungibles(AssertWorktopContainsNonFungibles { resource_address: if *f { fres() } else { nres() }, ids: ids1() }),
        Tok::AsSet(k, valid) => {
            let constraints = constraints_with(*valid);
            match k {
                0 => I::AssertWorktopResourcesOnly(AssertWorktopResourcesOnly { constraints }),
                1 => I::AssertWorktopResourcesInclude(AssertWorktopResourcesInclude { constraints }),
                2 => I::AssertNextCallReturnsOnly(AssertNextCallReturnsOnly { constraints }),
                _ => I::AssertNextCallReturnsInclude(AssertNextCallReturnsInclude { constraints }),
            }
        }
        Tok::AsBc(b, vf, vnf) => I::AssertBucketContents(AssertBucketContents { bucket_id: ManifestBucket(*b), constraint: constraint_with(*vf, *vnf) }),
        Tok::Vf => I::VerifyParent(VerifyParent { access_rule: AccessRule::AllowAll }),
    }
}

// ------------------------------------------------------------------------------------------ mock manifest

struct MockManifest {
    is_subintent: bool,
    instructions: Vec<InstructionV2>,
    blobs: Vec<(Hash, Vec<u8>)>,
    children: Vec<ChildSubintentSpecifier>,
    prealloc: Vec<PreAllocatedAddress>,
}

impl ReadableManifestBase for MockManifest {
    fn is_subintent(&self) -> bool {
        self.is_subintent
    }
    fn get_blobs(&self) -> impl Iterator<Item = (&Hash, &Vec<u8>)> {
        self.blobs.iter().map(|(h, c)| (h, c))
    }
    fn get_preallocated_addresses(&self) -> &[PreAllocatedAddress] {
        &self.prealloc
    }
    fn get_child_subintent_hashes(&self) -> impl ExactSizeIterator<Item = &ChildSubintentSpecifier> {
        self.children.iter()
    }
    fn get_known_object_names_ref(&self) -> ManifestObjectNamesRef<'_> {
        ManifestObjectNamesRef::Unknown
    }
}

impl TypedReadableManifest for MockManifest {
    type Instruction = InstructionV2;
    fn get_typed_instructions(&self) -> &[InstructionV2] {
        &self.instructions
    }
}

fn child(i: usize) -> ChildSubintentSpecifier {
    let mut b = [0u8; 32];
    b[0] = i as u8;
    b[1] = 0xc1;
    ChildSubintentSpecifier { hash: SubintentHash(Hash(b)) }
}

fn prealloc(i: usize) -> PreAllocatedAddress {
    let mut raw = [0u8; NodeId::LENGTH];
    raw[0] = EntityType::GlobalGenericComponent as u8;
    raw[1] = i as u8;
    PreAllocatedAddress { blueprint_id: BlueprintId::new(&FAUCET_PACKAGE, "B"), address: GlobalAddress::new_or_panic(raw) }
}

fn ruleset(r: &[bool; 6]) -> ValidationRuleset {
    ValidationRuleset {
        validate_no_duplicate_blobs: r[0],
        validate_blob_refs: r[1],
        validate_bucket_proof_lock: r[2],
        validate_no_dangling_nodes: r[3],
        validate_dynamic_address_in_command_part: r[4],
        validate_resource_assertions: r[5],
    }
}

// ------------------------------------------------------------------------------------------ recording visitor

#[derive(Default)]
struct Rec {
    last_start: Option<usize>,
    nb: usize,
    bcons: BTreeSet<u32>,
    np: usize,
    pcons: BTreeSet<u32>,
    nr: usize,
    rcons: BTreeSet<u32>,
    na: usize,
    finished: bool,
}

impl ManifestInterpretationVisitor for Rec {
    type Output = ManifestValidationError;
    fn on_start_instruction(&mut self, d: OnStartInstruction) -> ControlFlow<Self::Output> {
        self.last_start = Some(d.index);
        ControlFlow::Continue(())
    }
    fn on_new_bucket(&mut self, d: OnNewBucket) -> ControlFlow<Self::Output> {
        assert_eq!(d.bucket.0 as usize, self.nb);
        self.nb += 1;
        ControlFlow::Continue(())
    }
    fn on_consume_bucket(&mut self, d: OnConsumeBucket) -> ControlFlow<Self::Output> {
        self.bcons.insert(d.bucket.0);
        ControlFlow::Continue(())
    }
    fn on_new_proof(&mut self, d: OnNewProof) -> ControlFlow<Self::Output> {
        assert_eq!(d.proof.0 as usize, self.np);
        self.np += 1;
        ControlFlow::Continue(())
    }
    fn on_consume_proof(&mut self, d: OnConsumeProof) -> ControlFlow<Self::Output> {
        self.pcons.insert(d.proof.0);
        ControlFlow::Continue(())
    }
    fn on_new_address_reservation(&mut self, d: OnNewAddressReservation) -> ControlFlow<Self::Output> {
        assert_eq!(d.address_reservation.0 as usize, self.nr);
        self.nr += 1;
        ControlFlow::Continue(())
    }
    fn on_consume_address_reservation(&mut self, d: OnConsumeAddressReservation) -> ControlFlow<Self::Output> {
        self.rcons.insert(d.address_reservation.0);
        ControlFlow::Continue(())
    }
    fn on_new_named_address(&mut self, d: OnNewNamedAddress) -> ControlFlow<Self::Output> {
        assert_eq!(d.named_address.0 as usize, self.na);
        self.na += 1;
        ControlFlow::Continue(())
    }
    fn on_finish(&mut self, _d: OnFinish) -> ControlFlow<Self::Output> {
        self.finished = true;
        ControlFlow::Continue(())
    }
}

fn bits(n: usize, set: &BTreeSet<u32>) -> String {
    (0..n).map(|i| if set.contains(&(i as u32)) { '1' } else { '0' }).collect()
}

fn show_err(e: &ManifestValidationError, rec: &Rec) -> String {
    use ManifestValidationError as E;
    let at_i = |off: usize| match rec.last_start {
        Some(i) => format!("@{}", i + off),
        None => if off == 0 { "@pre".to_string() } else { "@0".to_string() },
    };
    match e {
        E::DuplicateBlob(b) => format!("err DuplicateBlob {} @pre", blob_num(&b.0)),
        E::BlobNotRegistered(b) => format!("err BlobNotRegistered {} {}", blob_num(&b.0), at_i(0)),
        E::BucketNotYetCreated(b) => format!("err BucketNotYetCreated {} {}", b.0, at_i(0)),
        E::BucketAlreadyUsed(b, _) => format!("err BucketAlreadyUsed {} {}", b.0, at_i(0)),
        E::BucketConsumedWhilstLockedByProof(b, _) => format!("err BucketLocked {} {}", b.0, at_i(0)),
        E::ProofNotYetCreated(p) => format!("err ProofNotYetCreated {} {}", p.0, at_i(0)),
        E::ProofAlreadyUsed(p, _) => format!("err ProofAlreadyUsed {} {}", p.0, at_i(0)),
        E::AddressReservationNotYetCreated(r) => format!("err ReservationNotYetCreated {} {}", r.0, at_i(0)),
        E::AddressReservationAlreadyUsed(r, _) => format!("err ReservationAlreadyUsed {} {}", r.0, at_i(0)),
        E::NamedAddressNotYetCreated(a) => format!("err NamedAddressNotYetCreated {} {}", a.0, at_i(0)),
        E::ChildIntentNotRegistered(i) => format!("err ChildIntentNotRegistered {} {}", i.0, at_i(0)),
        E::DanglingBucket(b, _) => format!("err DanglingBucket {} @fin", b.0),
        E::DanglingAddressReservation(r, _) => format!("err DanglingReservation {} @fin", r.0),
        E::ArgsEncodeError(_) => format!("err ArgsEncodeError {}", at_i(0)),
        E::ArgsDecodeError(_) => format!("err ArgsDecodeError {}", at_i(0)),
        E::InstructionNotSupportedInTransactionIntent => format!("err NotSupportedInTransactionIntent {}", at_i(0)),
        E::SubintentDoesNotEndWithYieldToParent => "err SubintentDoesNotEndWithYield @fin".to_string(),
        E::ProofCannotBePassedToAnotherIntent => format!("err ProofCannotBePassed {}", at_i(0)),
        E::TooManyInstructions => format!("err TooManyInstructions {}", at_i(0)),
        E::InvalidResourceConstraint => format!("err InvalidResourceConstraint {}", at_i(0)),
        // raised by `handle_next_instruction` BEFORE `on_start_instruction` of the offending instruction
        E::InstructionFollowingNextCallAssertionWasNotInvocation => format!("err FollowingNextCallNotInvocation {}", at_i(1)),
        E::ManifestEndedWhilstExpectingNextCallAssertion => "err EndedExpectingNextCall @fin".to_string(),
    }
}

// ------------------------------------------------------------------------------------------ expected effects (what the run-time processor does with ids)

/// (kind, ids) summary of the effect an instruction must report, from the run-time processor's id use
fn expected_effect(t: &Tok) -> String {
    match t {
        Tok::Cb(f, how) => format!("CreateBucket {} {}", if *f { "f" } else { "n" }, how),
        Tok::CpAz(_) => "CreateProof az".into(),
        Tok::CpB(b, _) => format!("CreateProof b{}", b),
        Tok::Kb(b, burn) => format!("ConsumeBucket {} {}", b, if *burn { "burn" } else { "worktop" }),
        Tok::Kp(p, push) => format!("ConsumeProof {} {}", p, if *push { "authzone" } else { "drop" }),
        Tok::Cl(p) => format!("CloneProof {}", p),
        Tok::Dp(k) => {
            let (n, s, r) = match k { 0 => (true, false, false), 1 => (true, true, true), 2 => (false, true, true), 3 => (false, false, true), _ => (false, true, false) };
            format!("DropManyProofs {} {} {}", n, s, r)
        }
        Tok::Inv(tg, _, _) => format!("Invocation {:?}", tg),
        Tok::Ar => "CreateAddressAndReservation".into(),
        Tok::AsNz => "Assert nz".into(),
        Tok::AsAl(_) => "Assert al".into(),
        Tok::AsAnf(_) => "Assert anf".into(),
        Tok::AsSet(k, _) => format!("Assert set{}", k),
        Tok::AsBc(b, _, _) => format!("Assert bucket {}", b),
        Tok::Vf => "Verification".into(),
    }
}

fn actual_effect(e: &ManifestInstructionEffect) -> String {
    use ManifestInstructionEffect as E;
    match e {
        E::CreateBucket { source_amount } => {
            let how = match source_amount { BucketSourceAmount::AllOnWorktop { .. } => 0, BucketSourceAmount::AmountFromWorktop { .. } => 1, BucketSourceAmount::NonFungiblesFromWorktop { .. } => 2 };
            format!("CreateBucket {} {}", if source_amount.resource_address().is_fungible() { "f" } else { "n" }, how)
        }
        E::CreateProof { source_amount } => match source_amount.proof_kind() {
            ProofKind::BucketProof(b) => format!("CreateProof b{}", b.0),
            ProofKind::AuthZoneProof => "CreateProof az".into(),
        },
        E::ConsumeBucket { consumed_bucket, destination } => format!("ConsumeBucket {} {}", consumed_bucket.0, match destination { BucketDestination::Worktop => "worktop", BucketDestination::Burned => "burn", BucketDestination::Invocation(_) => "invocation" }),
        E::ConsumeProof { consumed_proof, destination } => format!("ConsumeProof {} {}", consumed_proof.0, match destination { ProofDestination::AuthZone => "authzone", ProofDestination::Drop => "drop", ProofDestination::Invocation(_) => "invocation" }),
        E::CloneProof { cloned_proof } => format!("CloneProof {}", cloned_proof.0),
        E::DropManyProofs { drop_all_named_proofs, drop_all_authzone_signature_proofs, drop_all_authzone_non_signature_proofs } => format!("DropManyProofs {} {} {}", drop_all_named_proofs, drop_all_authzone_signature_proofs, drop_all_authzone_non_signature_proofs),
        E::Invocation { kind, .. } => {
            let tg = match kind {
                InvocationKind::Method { address, module_id, .. } => Target::Method(
                    match module_id { ModuleId::Main => 0, ModuleId::Royalty => 1, ModuleId::Metadata => 2, ModuleId::RoleAssignment => 3 },
                    match address { ManifestGlobalAddress::Static(_) => None, ManifestGlobalAddress::Named(n) => Some(n.0) },
                ),
                InvocationKind::Function { address, .. } => Target::Function(match address { ManifestPackageAddress::Static(_) => None, ManifestPackageAddress::Named(n) => Some(n.0) }),
                InvocationKind::DirectMethod { .. } => Target::Direct,
                InvocationKind::YieldToParent => Target::YieldParent,
                InvocationKind::YieldToChild { child_index } => Target::YieldChild(child_index.0),
            };
            format!("Invocation {:?}", tg)
        }
        E::CreateAddressAndReservation { .. } => "CreateAddressAndReservation".into(),
        E::ResourceAssertion { assertion } => match assertion {
            ResourceAssertion::Worktop(WorktopAssertion::ResourceNonZeroAmount { .. }) => "Assert nz".into(),
            ResourceAssertion::Worktop(WorktopAssertion::ResourceAtLeastAmount { .. }) => "Assert al".into(),
            ResourceAssertion::Worktop(WorktopAssertion::ResourceAtLeastNonFungibles { .. }) => "Assert anf".into(),
            ResourceAssertion::Worktop(WorktopAssertion::ResourcesOnly { .. }) => "Assert set0".into(),
            ResourceAssertion::Worktop(WorktopAssertion::ResourcesInclude { .. }) => "Assert set1".into(),
            ResourceAssertion::NextCall(NextCallAssertion::ReturnsOnly { .. }) => "Assert set2".into(),
            ResourceAssertion::NextCall(NextCallAssertion::ReturnsInclude { .. }) => "Assert set3".into(),
            ResourceAssertion::Bucket(BucketAssertion::Contents { bucket, .. }) => format!("Assert bucket {}", bucket.0),
        },
        E::Verification { .. } => "Verification".into(),
    }
}

// ------------------------------------------------------------------------------------------ property oracle: run-time id tables

/// Simulates `IntentProcessorObjects` over the tokens. Err(kind) = the processor would fail with `<kind>NotFound`.
fn runtime_ids(l: &Line) -> Result<(), String> {
    let mut nb = 0u32;
    let mut live_b: BTreeSet<u32> = BTreeSet::new();
    let mut np = 0u32;
    let mut live_p: BTreeSet<u32> = BTreeSet::new();
    let mut nr = l.nprealloc as u32;
    let mut live_r: BTreeSet<u32> = (0..nr).collect();
    let mut na = 0u32;
    let blobs: BTreeSet<u64> = l.blobs.iter().cloned().collect();
    for (i, t) in l.toks.iter().enumerate() {
        match t {
            Tok::Cb(..) => {
                live_b.insert(nb);
                nb += 1;
            }
            Tok::CpAz(_) => {
                live_p.insert(np);
                np += 1;
            }
            Tok::CpB(b, _) => {
                if !live_b.contains(b) {
                    return Err(format!("bucket:{}@{}", b, i));
                }
                live_p.insert(np);
                np += 1;
            }
            Tok::Kb(b, _) => {
                if !live_b.remove(b) {
                    return Err(format!("bucket:{}@{}", b, i));
                }
            }
            Tok::Kp(p, _) => {
                if !live_p.remove(p) {
                    return Err(format!("proof:{}@{}", p, i));
                }
            }
            Tok::Cl(p) => {
                if !live_p.contains(p) {
                    return Err(format!("proof:{}@{}", p, i));
                }
                live_p.insert(np);
                np += 1;
            }
            Tok::Dp(k) => {
                if *k <= 1 {
                    live_p.clear();
                }
            }
            Tok::Inv(tg, _, args) => {
                match tg {
                    Target::Method(_, Some(a)) | Target::Function(Some(a)) => {
                        if *a >= na {
                            return Err(format!("address-target:{}@{}", a, i));
                        }
                    }
                    _ => {}
                }
                for a in args {
                    match a {
                        Arg::B(b) => {
                            if !live_b.remove(b) {
                                return Err(format!("bucket:{}@{}", b, i));
                            }
                        }
                        Arg::P(p) => {
                            if !live_p.remove(p) {
                                return Err(format!("proof:{}@{}", p, i));
                            }
                        }
                        Arg::R(r) => {
                            if !live_r.remove(r) {
                                return Err(format!("reservation:{}@{}", r, i));
                            }
                        }
                        Arg::A(a) => {
                            if *a >= na {
                                return Err(format!("address:{}@{}", a, i));
                            }
                        }
                        Arg::X(h) => {
                            if !blobs.contains(h) {
                                return Err(format!("blob:{}@{}", h, i));
                            }
                        }
                        _ => {}
                    }
                }
            }
            Tok::Ar => {
                live_r.insert(nr);
                nr += 1;
                na += 1;
            }
            Tok::AsBc(b, _, _) => {
                if !live_b.contains(b) {
                    return Err(format!("bucket-assert:{}@{}", b, i));
                }
            }
            _ => {}
        }
    }
    Ok(())
}

/// buckets / reservations still live at the end (for the no-dangling clause)
fn runtime_dangling(l: &Line) -> (bool, bool) {
    // only meaningful when runtime_ids(l) is Ok
    let mut nb = 0u32;
    let mut live_b: BTreeSet<u32> = BTreeSet::new();
    let mut nr = l.nprealloc as u32;
    let mut live_r: BTreeSet<u32> = (0..nr).collect();
    for t in &l.toks {
        match t {
            Tok::Cb(..) => {
                live_b.insert(nb);
                nb += 1;
            }
            Tok::Kb(b, _) => {
                live_b.remove(b);
            }
            Tok::Inv(_, _, args) => {
                for a in args {
                    match a {
                        Arg::B(b) => {
                            live_b.remove(b);
                        }
                        Arg::R(r) => {
                            live_r.remove(r);
                        }
                        _ => {}
                    }
                }
            }
            Tok::Ar => {
                live_r.insert(nr);
                nr += 1;
            }
            _ => {}
        }
    }
    (!live_b.is_empty(), !live_r.is_empty())
}

// ------------------------------------------------------------------------------------------ runner

struct R;

fn v1_of(i: &InstructionV2) -> Option<InstructionV1> {
    use InstructionV1 as A;
    use InstructionV2 as B;
    Some(match i.clone() {
        B::TakeAllFromWorktop(x) => A::TakeAllFromWorktop(x),
        B::TakeFromWorktop(x) => A::TakeFromWorktop(x),
        B::TakeNonFungiblesFromWorktop(x) => A::TakeNonFungiblesFromWorktop(x),
        B::ReturnToWorktop(x) => A::ReturnToWorktop(x),
        B::AssertWorktopContainsAny(x) => A::AssertWorktopContainsAny(x),
        B::AssertWorktopContains(x) => A::AssertWorktopContains(x),
        B::AssertWorktopContainsNonFungibles(x) => A::AssertWorktopContainsNonFungibles(x),
        B::PopFromAuthZone(x) => A::PopFromAuthZone(x),
        B::PushToAuthZone(x) => A::PushToAuthZone(x),
        B::CreateProofFromAuthZoneOfAmount(x) => A::CreateProofFromAuthZoneOfAmount(x),
        B::CreateProofFromAuthZoneOfNonFungibles(x) => A::CreateProofFromAuthZoneOfNonFungibles(x),
        B::CreateProofFromAuthZoneOfAll(x) => A::CreateProofFromAuthZoneOfAll(x),
        B::CreateProofFromBucketOfAmount(x) => A::CreateProofFromBucketOfAmount(x),
        B::CreateProofFromBucketOfNonFungibles(x) => A::CreateProofFromBucketOfNonFungibles(x),
        B::CreateProofFromBucketOfAll(x) => A::CreateProofFromBucketOfAll(x),
        B::DropAuthZoneProofs(x) => A::DropAuthZoneProofs(x),
        B::DropAuthZoneRegularProofs(x) => A::DropAuthZoneRegularProofs(x),
        B::DropAuthZoneSignatureProofs(x) => A::DropAuthZoneSignatureProofs(x),
        B::BurnResource(x) => A::BurnResource(x),
        B::CloneProof(x) => A::CloneProof(x),
        B::DropProof(x) => A::DropProof(x),
        B::CallFunction(x) => A::CallFunction(x),
        B::CallMethod(x) => A::CallMethod(x),
        B::CallRoyaltyMethod(x) => A::CallRoyaltyMethod(x),
        B::CallMetadataMethod(x) => A::CallMetadataMethod(x),
        B::CallRoleAssignmentMethod(x) => A::CallRoleAssignmentMethod(x),
        B::CallDirectVaultMethod(x) => A::CallDirectVaultMethod(x),
        B::DropNamedProofs(x) => A::DropNamedProofs(x),
        B::DropAllProofs(x) => A::DropAllProofs(x),
        B::AllocateGlobalAddress(x) => A::AllocateGlobalAddress(x),
        _ => return None,
    })
}

fn verdict_only(r: &Result<(), ManifestValidationError>) -> String {
    match r {
        Ok(()) => "ok".into(),
        Err(e) => {
            let s = show_err(e, &Rec::default());
            s.split(" @").next().unwrap().to_string()
        }
    }
}

impl Runner for R {
    fn step(&mut self, line: &str) -> Answer {
        let l = match parse_line(line) {
            Some(l) => l,
            None => return Answer::ok("bad-op"),
        };
        let instructions: Vec<InstructionV2> = l.toks.iter().map(build_instruction).collect();
        // depth of built argument values must be what the line says
        for (t, i) in l.toks.iter().zip(instructions.iter()) {
            if let Tok::Inv(_, d, _) = t {
                let v = match i {
                    InstructionV2::CallMethod(x) => &x.args,
                    InstructionV2::CallRoyaltyMethod(x) => &x.args,
                    InstructionV2::CallMetadataMethod(x) => &x.args,
                    InstructionV2::CallRoleAssignmentMethod(x) => &x.args,
                    InstructionV2::CallFunction(x) => &x.args,
                    InstructionV2::CallDirectVaultMethod(x) => &x.args,
                    InstructionV2::YieldToParent(x) => &x.args,
                    InstructionV2::YieldToChild(x) => &x.args,
                    _ => unreachable!(),
                };
                if value_depth(v) != *d {
                    return Answer::ok("bad-op");
                }
            }
        }
        let m = MockManifest {
            is_subintent: l.sub,
            instructions,
            blobs: l.blobs.iter().map(|n| (blob_hash(*n), vec![*n as u8])).collect(),
            children: (0..l.nchildren).map(child).collect(),
            prealloc: (0..l.nprealloc).map(prealloc).collect(),
        };
        let mut rec = Rec::default();
        let res = match catch(|| StaticManifestInterpreter::new(ruleset(&l.rules), &m).validate_and_apply_visitor(&mut rec)) {
            Ok(r) => r,
            Err(p) => return Answer::fail("panic", "interpreter-panic", p),
        };
        let ans = match &res {
            Ok(()) => format!("ok B{} P{} R{} A{}", bits(rec.nb, &rec.bcons), bits(rec.np, &rec.pcons), bits(rec.nr, &rec.rcons), rec.na),
            Err(e) => show_err(e, &rec),
        };

        // ---- oracle 1: the effect every real instruction reports = the processor's id use of it
        for (i, (t, e)) in l.toks.iter().zip(m.iter_instruction_effects()).enumerate() {
            let (exp, act) = (expected_effect(t), actual_effect(&e));
            if exp != act {
                return Answer::fail(ans, format!("effect-mapping:{}", exp.split(' ').next().unwrap()), format!("instruction {} reports effect `{}` but the processor uses it as `{}`", i, act, exp));
            }
        }
        // constraint validity bits of the canned constraints are what the tokens say
        for t in &l.toks {
            if let Tok::AsBc(_, vf, vnf) = t {
                let c = constraint_with(*vf, *vnf);
                if c.is_valid_for_fungible_use() != *vf || c.is_valid_for_non_fungible_use() != *vnf {
                    return Answer::fail(ans, "canned-constraint-validity", "canned constraint no longer has the validity bits the token states");
                }
            }
            if let Tok::AsSet(_, v) = t {
                if constraints_with(*v).is_valid() != *v {
                    return Answer::fail(ans, "canned-constraint-validity", "canned constraint set no longer has the validity the token states");
                }
            }
        }
        // ---- oracle 2: the same verdict through the repo's typed manifests, where the line fits one
        let no_dup_blobs = { let s: BTreeSet<_> = l.blobs.iter().collect(); s.len() == l.blobs.len() };
        if no_dup_blobs {
            let blobs: IndexMap<Hash, Vec<u8>> = m.blobs.iter().cloned().collect();
            let children: IndexSet<ChildSubintentSpecifier> = m.children.iter().cloned().collect();
            let mine = verdict_only(&res);
            let mut others: Vec<(&str, String)> = vec![];
            if l.nprealloc == 0 {
                if l.sub {
                    let t = SubintentManifestV2 { instructions: m.instructions.clone(), blobs: blobs.clone(), children: children.clone(), object_names: Default::default() };
                    others.push(("SubintentManifestV2", verdict_only(&t.validate(ruleset(&l.rules)))));
                } else {
                    let t = TransactionManifestV2 { instructions: m.instructions.clone(), blobs: blobs.clone(), children: children.clone(), object_names: Default::default() };
                    others.push(("TransactionManifestV2", verdict_only(&t.validate(ruleset(&l.rules)))));
                }
            }
            if !l.sub && l.nchildren == 0 {
                if let Some(v1) = m.instructions.iter().map(v1_of).collect::<Option<Vec<_>>>() {
                    if l.nprealloc == 0 {
                        let t = TransactionManifestV1 { instructions: v1.clone(), blobs: blobs.clone(), object_names: Default::default() };
                        others.push(("TransactionManifestV1", verdict_only(&t.validate(ruleset(&l.rules)))));
                    }
                    let t = SystemTransactionManifestV1 { instructions: v1, blobs: blobs.clone(), preallocated_addresses: m.prealloc.clone(), object_names: Default::default() };
                    others.push(("SystemTransactionManifestV1", verdict_only(&t.validate(ruleset(&l.rules)))));
                }
            }
            for (k, o) in others {
                if o != mine {
                    return Answer::fail(ans, format!("manifest-kind-disagree:{}", k), format!("{} verdict `{}` but the same instructions through the mock manifest `{}`", k, o, mine));
                }
            }
        }
        // ---- oracle 3: the property itself
        if res.is_ok() {
            if !rec.finished {
                return Answer::fail(ans, "accepted-without-finish", "Ok returned without on_finish");
            }
            if let Err(k) = runtime_ids(&l) {
                let kind = k.split(':').next().unwrap().to_string();
                let checked = match kind.as_str() {
                    "address-target" => l.rules[4],
                    "blob" => l.rules[1],
                    // the bucket of ASSERT_BUCKET_CONTENTS is only looked up under validate_resource_assertions
                    "bucket-assert" => l.rules[5],
                    _ => true,
                };
                if checked {
                    return Answer::fail(ans, format!("accepted-unknown-id:{}", kind), format!("accepted manifest would fail at run time with {}", k));
                }
            } else if l.rules[3] {
                let (db, dr) = runtime_dangling(&l);
                if db || dr {
                    return Answer::fail(ans, "accepted-dangling", "accepted under validate_no_dangling_nodes but a bucket / reservation is still live at the end");
                }
            }
            let last_is_yp = matches!(l.toks.last(), Some(Tok::Inv(Target::YieldParent, _, _)));
            if l.sub && !last_is_yp {
                return Answer::fail(ans, "accepted-subintent-without-final-yield", "accepted subintent manifest does not end with YIELD_TO_PARENT");
            }
            if !l.sub && l.toks.iter().any(|t| matches!(t, Tok::Vf | Tok::Inv(Target::YieldParent, _, _))) {
                return Answer::fail(ans, "accepted-parent-instruction-in-transaction-intent", "accepted transaction manifest contains YIELD_TO_PARENT / VERIFY_PARENT");
            }
            if l.rules[5] {
                for (i, t) in l.toks.iter().enumerate() {
                    if matches!(t, Tok::AsSet(2 | 3, _)) && !matches!(l.toks.get(i + 1), Some(Tok::Inv(..))) {
                        return Answer::fail(ans, "accepted-next-call-assertion-without-call", "ASSERT_NEXT_CALL_RETURNS_* not followed by an invocation in an accepted manifest");
                    }
                }
            }
        }
        Answer::ok(ans)
    }
}

// ------------------------------------------------------------------------------------------ generator

pub struct A;

fn gen_rules(rng: &mut Rng) -> String {
    match rng.below(10) {
        0..=3 => "111111".into(),
        4 => "001000".into(), // babylon_equivalent
        _ => (0..6).map(|_| if rng.chance(2, 3) { '1' } else { '0' }).collect(),
    }
}

struct G {
    psrc: Vec<Option<u32>>,
    nb: u32,
    live_b: Vec<u32>,
    np: u32,
    live_p: Vec<u32>,
    nr: u32,
    live_r: Vec<u32>,
    na: u32,
}

impl G {
    // None = nothing suitable is live and this case is not in a "wrong id" mood
    fn some_b(&mut self, rng: &mut Rng) -> Option<u32> {
        if !self.live_b.is_empty() && rng.chance(19, 20) { Some(*rng.pick(&self.live_b)) } else if rng.chance(1, 6) { Some(rng.below(self.nb as u64 + 2) as u32) } else { None }
    }
    /// a live bucket no live proof was made from (mostly)
    fn some_unlocked_b(&mut self, rng: &mut Rng) -> Option<u32> {
        let locked: BTreeSet<u32> = self.live_p.iter().filter_map(|p| self.psrc.get(*p as usize).cloned().flatten()).collect();
        let free: Vec<u32> = self.live_b.iter().cloned().filter(|b| !locked.contains(b)).collect();
        if !free.is_empty() && rng.chance(19, 20) { Some(*rng.pick(&free)) } else if rng.chance(1, 5) { self.some_b(rng) } else { None }
    }
    fn some_p(&mut self, rng: &mut Rng) -> Option<u32> {
        if !self.live_p.is_empty() && rng.chance(19, 20) { Some(*rng.pick(&self.live_p)) } else if rng.chance(1, 6) { Some(rng.below(self.np as u64 + 2) as u32) } else { None }
    }
    fn some_r(&mut self, rng: &mut Rng) -> Option<u32> {
        if !self.live_r.is_empty() && rng.chance(19, 20) { Some(*rng.pick(&self.live_r)) } else if rng.chance(1, 6) { Some(rng.below(self.nr as u64 + 2) as u32) } else { None }
    }
    fn some_a(&mut self, rng: &mut Rng) -> Option<u32> {
        if self.na > 0 && rng.chance(19, 20) { Some(rng.below(self.na as u64) as u32) } else if rng.chance(1, 6) { Some(rng.below(self.na as u64 + 2) as u32) } else { None }
    }
}

fn gen_inv(rng: &mut Rng, g: &mut G, sub: bool, nchildren: usize, blobs: &[u64], force_yp: bool) -> String {
    let target = if force_yp {
        "yp".to_string()
    } else {
        match rng.below(14) {
            0..=4 => "m-".into(),
            5 => match g.some_a(rng) { Some(a) => format!("m{}", a), None => "m-".into() },
            6 => (*rng.pick(&["mr-", "mm-", "ma-"])).to_string(),
            7 => match g.some_a(rng) { Some(a) => format!("{}{}", rng.pick(&["mr", "mm", "ma"]), a), None => "mm-".into() },
            8 => "f-".into(),
            9 => match g.some_a(rng) { Some(a) => format!("f{}", a), None => "f-".into() },
            10 => "d".into(),
            11 => if sub || rng.chance(1, 4) { "yp".into() } else { "m-".into() },
            _ => format!("yc{}", if nchildren > 0 && rng.chance(5, 6) { rng.below(nchildren as u64) } else { rng.below(nchildren as u64 + 2) }),
        }
    };
    let yields = target.starts_with('y');
    let n = match rng.below(6) { 0 => 0, 1..=3 => 1 + rng.below(2), _ => 1 + rng.below(5) } as usize;
    let mut args = vec![];
    for _ in 0..n {
        let a = match rng.below(16) {
            0..=4 => {
                match g.some_unlocked_b(rng) {
                    Some(b) => {
                        g.live_b.retain(|x| *x != b);
                        format!("b{}", b)
                    }
                    None => "o".to_string(),
                }
            }
            5..=7 => {
                if yields && rng.chance(5, 6) {
                    "o".to_string()
                } else {
                    match g.some_p(rng) {
                        Some(p) => {
                            g.live_p.retain(|x| *x != p);
                            format!("p{}", p)
                        }
                        None => "s".to_string(),
                    }
                }
            }
            8..=9 => {
                match g.some_r(rng) {
                    Some(r) => {
                        g.live_r.retain(|x| *x != r);
                        format!("r{}", r)
                    }
                    None => "e".to_string(),
                }
            }
            10 => match g.some_a(rng) { Some(a) => format!("a{}", a), None => "s".into() },
            11 => "s".into(),
            12 => (*rng.pick(&["e", "z"])).to_string(),
            13..=14 => format!("x{}", if !blobs.is_empty() && rng.chance(5, 6) { *rng.pick(blobs) } else { rng.below(6) }),
            _ => "o".into(),
        };
        args.push(a);
    }
    let min_depth = if n == 0 { 1 } else { 2 };
    let depth = match rng.below(12) {
        0 => 22 + rng.below(6) as usize, // around MANIFEST_SBOR_V1_MAX_DEPTH
        1 => min_depth + rng.below(8) as usize,
        _ => min_depth + rng.below(2) as usize,
    };
    let mut s = format!("inv {} {} {}", target, depth.max(min_depth), n);
    for a in args {
        s.push(' ');
        s.push_str(&a);
    }
    s
}

fn gen_case(rng: &mut Rng) -> String {
    let sub = rng.chance(1, 3);
    let rules = gen_rules(rng);
    let nchildren = if rng.chance(1, 2) { 0 } else { rng.below(4) as usize };
    let nprealloc = if rng.chance(3, 4) { 0 } else { 1 + rng.below(3) as usize };
    let nblobs = if rng.chance(1, 2) { 0 } else { 1 + rng.below(4) as usize };
    let mut blobs: Vec<u64> = (0..nblobs).map(|_| rng.below(6)).collect();
    if rng.chance(4, 5) {
        // mostly no duplicates
        let mut seen = BTreeSet::new();
        blobs.retain(|b| seen.insert(*b));
    }
    let mut g = G { psrc: vec![], nb: 0, live_b: vec![], np: 0, live_p: vec![], nr: nprealloc as u32, live_r: (0..nprealloc as u32).collect(), na: 0 };
    let len = match rng.below(10) { 0 => 0, 1..=6 => 1 + rng.below(12), _ => 8 + rng.below(30) } as usize;
    let mut toks: Vec<String> = vec![];
    let mut pending_call = false;
    for _ in 0..len {
        if pending_call && rng.chance(9, 10) {
            toks.push(gen_inv(rng, &mut g, sub, nchildren, &blobs, false));
            pending_call = false;
            continue;
        }
        pending_call = false;
        let t = match rng.below(40) {
            0..=6 => {
                g.live_b.push(g.nb);
                g.nb += 1;
                format!("cb {} {}", rng.pick(&["f", "n"]), rng.pick(&["all", "amt", "ids"]))
            }
            7..=9 => {
                g.live_p.push(g.np);
                g.psrc.push(None);
                g.np += 1;
                format!("cp - {}", rng.pick(&["pop", "all", "amt", "ids"]))
            }
            10..=13 => match g.some_b(rng) {
                Some(b) => {
                    g.live_p.push(g.np);
                    g.psrc.push(Some(b));
                    g.np += 1;
                    format!("cp {} {}", b, rng.pick(&["all", "amt", "ids"]))
                }
                None => continue,
            },
            14..=17 => match g.some_unlocked_b(rng) {
                Some(b) => {
                    g.live_b.retain(|x| *x != b);
                    format!("kb {} {}", b, rng.pick(&["ret", "burn"]))
                }
                None => continue,
            },
            18..=21 => match g.some_p(rng) {
                Some(p) => {
                    g.live_p.retain(|x| *x != p);
                    format!("kp {} {}", p, rng.pick(&["drop", "push"]))
                }
                None => continue,
            },
            22..=23 => match g.some_p(rng) {
                Some(p) => {
                    g.live_p.push(g.np);
                    let src = g.psrc.get(p as usize).cloned().flatten();
                    g.psrc.push(src);
                    g.np += 1;
                    format!("cl {}", p)
                }
                None => continue,
            },
            24..=25 => {
                let k = *rng.pick(&["named", "all", "az", "azr", "azs"]);
                if k == "named" || k == "all" {
                    g.live_p.clear();
                }
                format!("dp {}", k)
            }
            26..=31 => gen_inv(rng, &mut g, sub, nchildren, &blobs, false),
            32..=33 => {
                g.live_r.push(g.nr);
                g.nr += 1;
                g.na += 1;
                "ar".to_string()
            }
            34 => if sub || rng.chance(1, 5) { "vf".to_string() } else { "as nz".to_string() },
            35 => match rng.below(3) {
                0 => "as nz".to_string(),
                1 => format!("as al {}", if rng.chance(1, 6) { 1 } else { 0 }),
                _ => format!("as anf {}", if rng.chance(1, 6) { 1 } else { 0 }),
            },
            36 => format!("as {} {}", rng.pick(&["wo", "wi"]), if rng.chance(1, 6) { 0 } else { 1 }),
            37 => {
                pending_call = true;
                format!("as {} {}", rng.pick(&["no", "ni"]), if rng.chance(1, 8) { 0 } else { 1 })
            }
            _ => match g.some_b(rng) {
                Some(b) => {
                    let (vf, vnf) = if rng.chance(3, 4) { (1, 1) } else { (rng.below(2), rng.below(2)) };
                    format!("as bc {} {} {}", b, vf, vnf)
                }
                None => continue,
            },
        };
        toks.push(t);
    }
    // wrap up: mostly tidy (consume what is live), sometimes not
    if rng.chance(4, 5) {
        if rng.chance(9, 10) && !g.live_p.is_empty() {
            toks.push("dp named".into());
            g.live_p.clear();
        }
        let lb = g.live_b.clone();
        for b in lb {
            if rng.chance(9, 10) {
                if rng.chance(1, 2) {
                    toks.push(format!("kb {} ret", b));
                } else {
                    toks.push(format!("inv m- 2 1 b{}", b));
                }
            }
        }
        let lr = g.live_r.clone();
        for r in lr {
            if rng.chance(9, 10) {
                toks.push(format!("inv f- 2 1 r{}", r));
            }
        }
    }
    if sub && rng.chance(9, 10) {
        let mut gg = G { psrc: vec![], nb: 0, live_b: vec![], np: 0, live_p: vec![], nr: 0, live_r: vec![], na: 0 };
        let s = if rng.chance(3, 4) { "inv yp 1 0".to_string() } else { gen_inv(rng, &mut gg, sub, nchildren, &blobs, true) };
        toks.push(s);
    }
    let blobs_s = if blobs.is_empty() { "-".to_string() } else { blobs.iter().map(|b| b.to_string()).collect::<Vec<_>>().join(",") };
    let mut s = format!("m {} {} {} {} {}", if sub { 1 } else { 0 }, rules, nchildren, nprealloc, blobs_s);
    for t in toks {
        s.push(' ');
        s.push_str(&t);
    }
    s
}

impl Area for A {
    fn gen(&self, rng: &mut Rng, n: usize, out: &mut dyn Write) {
        for i in 0..n {
            if i % 50 == 49 {
                // malformed stream
                let bad = ["m 0 11111 0 0 -", "m 2 111111 0 0 -", "m 0 111111 0 0 - kb", "m 0 111111 0 0 - inv m- 0 0", "x", "m 0 111111 0 0 - cb f", "m 0 111111 0 0 - inv m- 1 1 b0", "m 0 111111 0 0 1,,2", "m 0 111111 0 0 - as bc 0 1", "m 0 111111 0 0 - inv q 1 0"];
                writeln!(out, "{}", rng.pick(&bad)).unwrap();
            } else {
                writeln!(out, "{}", gen_case(rng)).unwrap();
            }
        }
    }
    fn runner(&self) -> Box<dyn Runner> {
        Box::new(R)
    }
    fn consts(&self) -> Vec<(String, String)> {
        let b = |x: bool| if x { "true" } else { "false" };
        let rs = |r: ValidationRuleset| {
            format!(
                "⟨{}, {}, {}, {}, {}, {}⟩\traw\tList Bool",
                b(r.validate_no_duplicate_blobs), b(r.validate_blob_refs), b(r.validate_bucket_proof_lock), b(r.validate_no_dangling_nodes), b(r.validate_dynamic_address_in_command_part), b(r.validate_resource_assertions)
            )
            .replace('⟨', "[")
            .replace('⟩', "]")
        };
        vec![
            ("MANIFEST_SBOR_V1_MAX_DEPTH".into(), MANIFEST_SBOR_V1_MAX_DEPTH.to_string()),
            ("RULESET_ALL".into(), rs(ValidationRuleset::all())),
            ("RULESET_CUTTLEFISH".into(), rs(ValidationRuleset::cuttlefish())),
            ("RULESET_BABYLON_EQUIVALENT".into(), rs(ValidationRuleset::babylon_equivalent())),
        ]
    }
}

// ========================================================================================== engine area

pub struct E;

/// engine-level token stream: the same grammar as `c36`, restricted by the generator to instructions that
/// can execute on a funded account (plus deliberately wrong ids).
struct ER {
    sim: Option<(DefaultLedgerSimulator, Secp256k1PublicKey, ComponentAddress, ResourceAddress)>,
}

fn engine_setup() -> (DefaultLedgerSimulator, Secp256k1PublicKey, ComponentAddress, ResourceAddress) {
    let mut sim = LedgerSimulatorBuilder::new().build();
    let (pk, _, account) = sim.new_allocated_account();
    let nf = sim.create_non_fungible_resource(account);
    (sim, pk, account, nf)
}

#[derive(Clone, Debug)]
enum EOp {
    WithdrawXrd,            // CallMethod account.withdraw(XRD, 10)   (returns to worktop)
    WithdrawNf,             // CallMethod account.withdraw_non_fungibles(nf, [1])  — may fail if already withdrawn
    TakeXrd(u8),            // cb f  (0 all, 1 amt 1)
    TakeNf,                 // cb n all
    ProofOfBucket(u32, u8), // cp b
    ProofAz,                // account.create_proof_of_amount(XRD, 1) then pop
    Clone(u32),
    DropProof(u32),
    PushProof(u32),
    Return(u32),
    Burn(u32),
    DropNamed,
    DropAll,
    Deposit(u32),           // account.deposit(bucket)
    DepositBatch,           // account.deposit_batch(ENTIRE_WORKTOP)
    AssertBucket(u32),
    Alloc,
    UseReservation(u32),    // faucet.free? no: Account create_advanced with reservation
    CallNamed(u32),         // CallMethod on named address (account created from reservation): balance query
    ProofArg(u32),          // pass a proof to account.deposit? -> create_proof… : pass proof to a method taking Proof (AccessRule?) — uses drop via `Proof` arg of resource manager? we use account `deposit_batch` of nothing + proof in tuple -> fails at runtime (schema) but id is taken first
}

fn parse_eops(line: &str) -> Option<Vec<EOp>> {
    let t: Vec<&str> = line.split(' ').filter(|x| !x.is_empty()).collect();
    if t.first() != Some(&"e") {
        return None;
    }
    let mut v = vec![];
    let mut i = 1;
    while i < t.len() {
        let a = |k: usize| -> Option<u32> { t.get(i + k).and_then(|s| p_u32(s)) };
        let (op, n) = match t[i] {
            "wx" => (EOp::WithdrawXrd, 1),
            "wn" => (EOp::WithdrawNf, 1),
            "tx" => (EOp::TakeXrd(a(1)? as u8), 2),
            "tn" => (EOp::TakeNf, 1),
            "pb" => (EOp::ProofOfBucket(a(1)?, a(2)? as u8), 3),
            "pa" => (EOp::ProofAz, 1),
            "cl" => (EOp::Clone(a(1)?), 2),
            "dr" => (EOp::DropProof(a(1)?), 2),
            "pu" => (EOp::PushProof(a(1)?), 2),
            "re" => (EOp::Return(a(1)?), 2),
            "bu" => (EOp::Burn(a(1)?), 2),
            "dn" => (EOp::DropNamed, 1),
            "da" => (EOp::DropAll, 1),
            "de" => (EOp::Deposit(a(1)?), 2),
            "db" => (EOp::DepositBatch, 1),
            "ab" => (EOp::AssertBucket(a(1)?), 2),
            "al" => (EOp::Alloc, 1),
            "ur" => (EOp::UseReservation(a(1)?), 2),
            "cn" => (EOp::CallNamed(a(1)?), 2),
            "px" => (EOp::ProofArg(a(1)?), 2),
            _ => return None,
        };
        v.push(op);
        i += n;
    }
    Some(v)
}

fn build_eops(ops: &[EOp], account: ComponentAddress, nf: ResourceAddress) -> Vec<InstructionV2> {
    use InstructionV2 as I;
    let acc: ManifestGlobalAddress = ManifestGlobalAddress::Static(account.into());
    let call = |m: &str, args: ManifestValue| I::CallMethod(CallMethod { address: acc.clone(), method_name: m.to_string(), args });
    let mut out = vec![I::CallMethod(CallMethod { address: acc.clone(), method_name: "lock_fee".into(), args: manifest_args!(dec!(100)).into() })];
    for op in ops {
        match op {
            EOp::WithdrawXrd => out.push(call("withdraw", manifest_args!(XRD, dec!(10)).into())),
            EOp::WithdrawNf => out.push(call("withdraw", manifest_args!(nf, dec!(1)).into())),
            EOp::TakeXrd(0) => out.push(I::TakeAllFromWorktop(TakeAllFromWorktop { resource_address: XRD })),
            EOp::TakeXrd(_) => out.push(I::TakeFromWorktop(TakeFromWorktop { resource_address: XRD, amount: dec!(1) })),
            EOp::TakeNf => out.push(I::TakeAllFromWorktop(TakeAllFromWorktop { resource_address: nf })),
            EOp::ProofOfBucket(b, 0) => out.push(I::CreateProofFromBucketOfAll(CreateProofFromBucketOfAll { bucket_id: ManifestBucket(*b) })),
            EOp::ProofOfBucket(b, _) => out.push(I::CreateProofFromBucketOfAmount(CreateProofFromBucketOfAmount { bucket_id: ManifestBucket(*b), amount: dec!(1) })),
            EOp::ProofAz => {
                out.push(call("create_proof_of_amount", manifest_args!(XRD, dec!(1)).into()));
                out.push(I::PopFromAuthZone(PopFromAuthZone));
            }
            EOp::Clone(p) => out.push(I::CloneProof(CloneProof { proof_id: ManifestProof(*p) })),
            EOp::DropProof(p) => out.push(I::DropProof(DropProof { proof_id: ManifestProof(*p) })),
            EOp::PushProof(p) => out.push(I::PushToAuthZone(PushToAuthZone { proof_id: ManifestProof(*p) })),
            EOp::Return(b) => out.push(I::ReturnToWorktop(ReturnToWorktop { bucket_id: ManifestBucket(*b) })),
            EOp::Burn(b) => out.push(I::BurnResource(BurnResource { bucket_id: ManifestBucket(*b) })),
            EOp::DropNamed => out.push(I::DropNamedProofs(DropNamedProofs)),
            EOp::DropAll => out.push(I::DropAllProofs(DropAllProofs)),
            EOp::Deposit(b) => out.push(call("deposit", manifest_args!(ManifestBucket(*b)).into())),
            EOp::DepositBatch => out.push(call("deposit_batch", manifest_args!(ManifestExpression::EntireWorktop).into())),
            EOp::AssertBucket(b) => out.push(I::AssertBucketContents(AssertBucketContents { bucket_id: ManifestBucket(*b), constraint: ManifestResourceConstraint::NonZeroAmount })),
            EOp::Alloc => out.push(I::AllocateGlobalAddress(AllocateGlobalAddress { package_address: ACCOUNT_PACKAGE, blueprint_name: "Account".into() })),
            EOp::UseReservation(r) => out.push(I::CallFunction(CallFunction {
                package_address: ManifestPackageAddress::Static(ACCOUNT_PACKAGE),
                blueprint_name: "Account".into(),
                function_name: "create_advanced".into(),
                args: manifest_args!(OwnerRole::None, Some(ManifestAddressReservation(*r))).into(),
            })),
            EOp::CallNamed(a) => out.push(I::CallMethod(CallMethod { address: ManifestGlobalAddress::Named(ManifestNamedAddress(*a)), method_name: "balance".into(), args: manifest_args!(XRD).into() })),
            EOp::ProofArg(p) => out.push(I::CallMethod(CallMethod { address: ManifestGlobalAddress::Static(XRD.into()), method_name: "drop_proof_arg".into(), args: manifest_args!(ManifestProof(*p)).into() })),
        }
    }
    out
}

impl Runner for ER {
    fn step(&mut self, line: &str) -> Answer {
        let ops = match parse_eops(line) {
            Some(o) => o,
            None => return Answer::ok("bad-op"),
        };
        if self.sim.is_none() {
            self.sim = Some(engine_setup());
        }
        let (sim, pk, account, nf) = self.sim.as_mut().unwrap();
        let instructions = build_eops(&ops, *account, *nf);
        let manifest = TransactionManifestV2 { instructions, blobs: Default::default(), children: Default::default(), object_names: Default::default() };
        let verdict = manifest.validate(ValidationRuleset::all());
        // execute WITHOUT committing: every case starts from the same ledger state
        let nonce = sim.next_transaction_nonce();
        let proofs: BTreeSet<NonFungibleGlobalId> = [NonFungibleGlobalId::from_public_key(&*pk)].into_iter().collect();
        let tx = TestTransaction::new_v2_builder(nonce).finish_with_root_intent(manifest, proofs);
        let receipt = sim.execute_transaction_no_commit(tx, ExecutionConfig::for_test_transaction());
        let class = match &receipt.result {
            TransactionResult::Commit(c) => match &c.outcome {
                TransactionOutcome::Success(_) => "success".to_string(),
                TransactionOutcome::Failure(e) => classify(e),
            },
            TransactionResult::Reject(r) => format!("reject:{:?}", r.reason).chars().take(60).collect(),
            TransactionResult::Abort(_) => "abort".to_string(),
        };
        if let Err(e) = &verdict {
            // informational: what the engine does with a statically rejected manifest (shows that the
            // receipt classification below does see id errors)
            return Answer::ok(format!("rejected {} rt={}", show_err(e, &Rec::default()).split(" @").next().unwrap().replace("err ", ""), class.split(':').next().unwrap()));
        }
        let ans = format!("accepted {}", class.split(':').next().unwrap());
        if class.starts_with("IDERR") {
            return Answer::fail(ans, format!("engine-accepted-unknown-id:{}", class), format!("statically accepted manifest failed at run time with {} ({})", class, line));
        }
        Answer::ok(ans)
    }
}

fn classify(e: &RuntimeError) -> String {
    match e {
        RuntimeError::ApplicationError(ApplicationError::TransactionProcessorError(t)) => match t {
            TransactionProcessorError::BucketNotFound(n) => format!("IDERR-BucketNotFound:{}", n),
            TransactionProcessorError::ProofNotFound(n) => format!("IDERR-ProofNotFound:{}", n),
            TransactionProcessorError::AddressReservationNotFound(n) => format!("IDERR-AddressReservationNotFound:{}", n),
            TransactionProcessorError::AddressNotFound(n) => format!("IDERR-AddressNotFound:{}", n),
            TransactionProcessorError::BlobNotFound(_) => "IDERR-BlobNotFound".to_string(),
            _ => "fail-txproc".to_string(),
        },
        RuntimeError::ApplicationError(_) => "fail-app".to_string(),
        RuntimeError::SystemError(_) => "fail-system".to_string(),
        RuntimeError::SystemModuleError(_) => "fail-module".to_string(),
        RuntimeError::SystemUpstreamError(_) => "fail-upstream".to_string(),
        RuntimeError::KernelError(_) => "fail-kernel".to_string(),
        RuntimeError::VmError(_) => "fail-vm".to_string(),
        RuntimeError::FinalizationCostingError(_) => "fail-cost".to_string(),
    }
}

fn gen_ecase(rng: &mut Rng) -> String {
    let mut s = String::from("e");
    let mut nb = 0u32;
    let mut live_b: Vec<u32> = vec![];
    let mut np = 0u32;
    let mut live_p: Vec<u32> = vec![];
    let mut nr = 0u32;
    let mut live_r: Vec<u32> = vec![];
    let mut na = 0u32;
    let mut worktop_xrd = false;
    let mut worktop_nf = false;
    let wrong = rng.chance(1, 3); // a third of the cases use deliberately wrong ids now and then
    let len = 2 + rng.below(14);
    let pick_b = |rng: &mut Rng, live: &Vec<u32>, n: u32| -> u32 {
        if !live.is_empty() && !(wrong && rng.chance(1, 5)) { *rng.pick(live) } else { rng.below(n as u64 + 1) as u32 }
    };
    for _ in 0..len {
        match rng.below(22) {
            0..=2 => {
                s.push_str(" wx");
                worktop_xrd = true;
            }
            3 => {
                s.push_str(" wn");
                worktop_nf = true;
            }
            4..=6 => {
                if worktop_xrd || rng.chance(1, 6) {
                    s.push_str(&format!(" tx {}", rng.below(2)));
                    live_b.push(nb);
                    nb += 1;
                }
            }
            7 => {
                if worktop_nf || rng.chance(1, 6) {
                    s.push_str(" tn");
                    live_b.push(nb);
                    nb += 1;
                    worktop_nf = false;
                }
            }
            8..=9 => {
                if !live_b.is_empty() || wrong {
                    let b = pick_b(rng, &live_b, nb);
                    s.push_str(&format!(" pb {} {}", b, rng.below(2)));
                    live_p.push(np);
                    np += 1;
                }
            }
            10 => {
                s.push_str(" pa");
                live_p.push(np);
                np += 1;
            }
            11 => {
                if !live_p.is_empty() || wrong {
                    let p = pick_b(rng, &live_p, np);
                    s.push_str(&format!(" cl {}", p));
                    live_p.push(np);
                    np += 1;
                }
            }
            12..=13 => {
                if !live_p.is_empty() || wrong {
                    let p = pick_b(rng, &live_p, np);
                    s.push_str(&format!(" {} {}", rng.pick(&["dr", "dr", "pu", "px"]), p));
                    live_p.retain(|x| *x != p);
                }
            }
            14 => {
                s.push_str(if rng.chance(1, 2) { " dn" } else { " da" });
                live_p.clear();
            }
            15..=16 => {
                if !live_b.is_empty() || wrong {
                    let b = pick_b(rng, &live_b, nb);
                    s.push_str(&format!(" {} {}", rng.pick(&["re", "de", "de", "bu"]), b));
                    live_b.retain(|x| *x != b);
                }
            }
            17 => {
                if !live_b.is_empty() || wrong {
                    let b = pick_b(rng, &live_b, nb);
                    s.push_str(&format!(" ab {}", b));
                }
            }
            18 => {
                s.push_str(" al");
                live_r.push(nr);
                nr += 1;
                na += 1;
            }
            19 => {
                if !live_r.is_empty() || wrong {
                    let r = pick_b(rng, &live_r, nr);
                    s.push_str(&format!(" ur {}", r));
                    live_r.retain(|x| *x != r);
                }
            }
            20 => {
                if na > 0 || wrong {
                    s.push_str(&format!(" cn {}", if na > 0 && !(wrong && rng.chance(1, 4)) { rng.below(na as u64) } else { na as u64 }));
                }
            }
            _ => {
                s.push_str(" db");
                worktop_xrd = false;
                worktop_nf = false;
            }
        }
    }
    // tidy end so that the static validator accepts (no dangling buckets / reservations)
    if !live_p.is_empty() {
        s.push_str(" dn");
    }
    for b in live_b {
        s.push_str(&format!(" de {}", b));
    }
    for r in live_r {
        s.push_str(&format!(" ur {}", r));
    }
    s.push_str(" db");
    s
}

impl Area for E {
    fn gen(&self, rng: &mut Rng, n: usize, out: &mut dyn Write) {
        for _ in 0..n {
            writeln!(out, "{}", gen_ecase(rng)).unwrap();
        }
    }
    fn runner(&self) -> Box<dyn Runner> {
        Box::new(ER { sim: None })
    }
}

fn main() {
    main_with(&[("c36", &A), ("c36e", &E)]);
}
