//! C02 — failed, rejected and aborted transactions change nothing but fees.
//!
//! Area `c02` (unit level, compared with the Lean model `RadixModel/Model/FailureCommit.lean`):
//!   the real `radix_engine::track::Track` over `InMemorySubstateDatabase` and the real
//!   `TransactionRuntimeModule` event list, driven through an execution phase (kernel store calls,
//!   `lock_fee` as the kernel performs it: `get_tracked_substate_info` check for `UNMODIFIED_BASE`,
//!   read, write, `force_write` on close, `LockFeeEvent` with `EventFlags::FORCE_WRITE`), then the
//!   sequence of `create_commit_receipt`: `revert_non_force_write_changes` on failure, the
//!   finalization writes, `runtime_module.finalize(is_success)`, `to_state_updates`.
//!   Line protocol (sort keys = hex `DbSortKey`s of the real key mapper, as in area c12):
//!     reset | base n p k v | get/set/remove/create/scankeys/drain/scansorted (as c12)
//!     lockfee n p k amount | emit f emitter name payload
//!     fail | succeed | finread n p k | fincredit n p k amt | finput n p k v | findel n p
//!     finevent emitter name payload | receipt
//!     commit s payments tp tv burn newRewards nullifs status advance newTracker hasEpoch
//!   Oracle (independent of the model): after a failure the final `StateUpdates`, applied to the base
//!   database, differ from it only at force-written substates (which hold base - fee) and at the
//!   substates / partitions the finalization wrote; no new nodes; surviving events are exactly the
//!   force-flagged ones followed by the finalization events.
//!
//! Area `c02e` (engine level, oracle only): real transactions on the `LedgerSimulator`, executed
//!   with the repo's `InjectCostingError` wrapper (`execute_manifest_with_injected_error`) at
//!   injection points k swept over the whole execution (exact number of call-backs N found by
//!   bisection), plus naturally failing manifests. Oracle on the full database content before/after:
//!   Reject/Abort ⇒ identical; Commit-failure ⇒ every changed substate is the balance field of a
//!   fee-locking XRD vault (decrease = the amount the receipt says it paid), the consensus manager's
//!   `ValidatorRewards` field, the rewards vault balance (+ to_proposer + to_validator_set) or lives
//!   in the transaction tracker; no new entities; events ⊆ {LockFee, PayFee of a fee vault,
//!   Deposit into the rewards vault, Burn of XRD}; payments cover the whole cost; then the repo's
//!   database checkers.
use harness::util::*;
use radix_common::prelude::*;
use radix_engine::blueprints::consensus_manager::*;
use radix_engine::blueprints::resource::*;
use radix_engine::system::checkers::*;
use radix_engine::system::system_modules::transaction_runtime::{Event, TransactionRuntimeModule};
use radix_engine::system::system_substates::FieldSubstate;
use radix_engine::track::interface::{CommitableSubstateStore, IOAccess, TrackedSubstateInfo};
use radix_engine::track::Track;
use radix_engine::transaction::*;
use radix_engine_interface::api::actor_api::EventFlags;
use radix_engine_interface::prelude::*;
use radix_engine_interface::types::IndexedScryptoValue;
use radix_substate_store_impls::memory_db::InMemorySubstateDatabase;
use radix_substate_store_interface::db_key_mapper::{DatabaseKeyMapper, SpreadPrefixKeyMapper};
use radix_substate_store_interface::interface::*;
use radix_transactions::prelude::*;
use scrypto_test::prelude::{LedgerSimulator, LedgerSimulatorBuilder, LedgerSimulatorSnapshot, NoExtension};
use std::collections::{BTreeMap, BTreeSet};
use std::io::Write;

// =====================================================================================================
// area c02 — unit level
// =====================================================================================================

pub struct U;

const NODES: u64 = 5; // 0,1: may exist in the base database; 2,3: fresh (creatable); 4: "system" node
const PARTS: u64 = 6; // kind = p % 3: 0 Field, 1 Map, 2 Sorted
const SYS: u64 = 4;
// Sys of the model (Driver/C02.lean uses the same numbers)
const CM_PART: u64 = 0;
const CM_STATE_FIELD: u8 = 0;
const CM_REWARDS_FIELD: u8 = 1;
const REWARDS_VAULT_FIELD: u8 = 2; // (SYS, CM_PART, field 2)
const TR_PART: u64 = 3;
const TR_FIELD: u8 = 0;

fn node(n: u64) -> NodeId {
    NodeId([n as u8; 30])
}

fn alphabet(kind: u64) -> Vec<SubstateKey> {
    match kind {
        0 => (0u8..5).map(SubstateKey::Field).collect(),
        1 => vec![
            SubstateKey::Map(vec![]),
            SubstateKey::Map(vec![0]),
            SubstateKey::Map(vec![1]),
            SubstateKey::Map(vec![1, 0]),
            SubstateKey::Map(vec![2, 255, 7]),
            SubstateKey::Map(vec![9; 12]),
        ],
        _ => vec![
            SubstateKey::Sorted(([0, 0], vec![])),
            SubstateKey::Sorted(([0, 1], vec![5])),
            SubstateKey::Sorted(([0, 1], vec![6])),
            SubstateKey::Sorted(([1, 0], vec![5])),
            SubstateKey::Sorted(([255, 255], vec![1, 2, 3])),
            SubstateKey::Sorted(([0, 255], vec![0])),
        ],
    }
}

fn dbk(k: &SubstateKey) -> Vec<u8> {
    SpreadPrefixKeyMapper::to_db_sort_key(k).0
}
fn sk_hex(k: &SubstateKey) -> String {
    hex(&dbk(k))
}
fn parse_key(p: u64, s: &str) -> Option<SubstateKey> {
    let bytes = unhex(s)?;
    alphabet(p % 3).into_iter().find(|k| dbk(k) == bytes)
}
fn val(v: u64) -> IndexedScryptoValue {
    IndexedScryptoValue::from_typed(&v)
}
fn unval(v: &IndexedScryptoValue) -> u64 {
    v.as_typed::<u64>().unwrap()
}
fn raw(v: u64) -> Vec<u8> {
    scrypto_encode(&v).unwrap()
}
fn no_io() -> impl FnMut(IOAccess) -> Result<(), ()> {
    |_| Ok(())
}
fn num(s: &str) -> Option<u64> {
    if s.is_empty() || s.len() > 15 || !s.bytes().all(|b| b.is_ascii_digit()) {
        return None;
    }
    s.parse().ok()
}
fn show_opt(o: Option<u64>) -> String {
    match o {
        Some(v) => format!("some {}", v),
        None => "none".to_string(),
    }
}
fn show_entries(es: &[(Vec<u8>, u64)]) -> String {
    format!("[{}]", es.iter().map(|(k, v)| format!("{}={}", hex(k), v)).collect::<Vec<_>>().join(","))
}

type K3 = (u64, u64, Vec<u8>);
type Tr = Track<'static, InMemorySubstateDatabase>;

#[derive(Clone, Debug, PartialEq)]
struct Ev {
    force: bool,
    emitter: u64,
    name: u64,
    payload: u64,
}
fn show_evs(evs: &[Ev]) -> String {
    format!("[{}]", evs.iter().map(|e| format!("{}:{}:{}", e.emitter, e.name, e.payload)).collect::<Vec<_>>().join(","))
}

enum FinOp {
    Read(u64, u64, SubstateKey),
    Credit(u64, u64, SubstateKey, u64),
    Put(u64, u64, SubstateKey, u64),
    DelPart(u64, u64),
}

#[derive(PartialEq, Clone, Copy, Debug)]
enum Phase {
    Building,
    Executing,
    Finalizing,
    Done,
    Poisoned,
}

struct UR {
    phase: Phase,
    base_db: InMemorySubstateDatabase,
    track: Option<Tr>,
    rt: TransactionRuntimeModule,
    is_success: bool,
    fin_events: Vec<Ev>,
    /// fee locks in push order (as the fee reserve records them)
    locked: Vec<(u64, u64, SubstateKey, u64)>,
    // ---- oracle state (independent of the implementation under test) ----
    base: BTreeMap<K3, u64>,
    /// value a force-written substate must hold after a failure: base - fee
    forced: BTreeMap<K3, u64>,
    forced_events: Vec<Ev>,
    all_events: Vec<Ev>,
    fin_written: BTreeMap<K3, u64>,
    fin_deleted: BTreeSet<(u64, u64)>,
    created: BTreeSet<u64>,
}

fn new_rt() -> TransactionRuntimeModule {
    TransactionRuntimeModule::new(NetworkDefinition::simulator(), Hash([0u8; 32]))
}

impl UR {
    fn new() -> UR {
        UR {
            phase: Phase::Building,
            base_db: InMemorySubstateDatabase::standard(),
            track: None,
            rt: new_rt(),
            is_success: true,
            fin_events: vec![],
            locked: vec![],
            base: BTreeMap::new(),
            forced: BTreeMap::new(),
            forced_events: vec![],
            all_events: vec![],
            fin_written: BTreeMap::new(),
            fin_deleted: BTreeSet::new(),
            created: BTreeSet::new(),
        }
    }
    fn track(&mut self) -> &mut Tr {
        if self.track.is_none() {
            let db: &'static InMemorySubstateDatabase = Box::leak(Box::new(self.base_db.clone()));
            self.track = Some(Track::new(db));
        }
        self.track.as_mut().unwrap()
    }
    fn add_event(&mut self, e: Ev) {
        self.rt.add_event(Event {
            type_identifier: EventTypeIdentifier(Emitter::Method(node(e.emitter), ModuleId::Main), e.name.to_string()),
            payload: scrypto_encode(&e.payload).unwrap(),
            flags: if e.force { EventFlags::FORCE_WRITE } else { EventFlags::empty() },
        });
        if e.force {
            self.forced_events.push(e.clone());
        }
        self.all_events.push(e);
    }
    /// one finalization write on the real track; Err = panic (unwrap of an absent substate)
    fn fin_step(&mut self, op: &FinOp) -> Result<(), ()> {
        match op {
            FinOp::Read(n, p, k) => {
                let r = self.track().get_substate(&node(*n), PartitionNumber(*p as u8), k, &mut no_io()).unwrap().map(unval);
                r.map(|_| ()).ok_or(())
            }
            FinOp::Credit(n, p, k, a) => {
                let r = self.track().get_substate(&node(*n), PartitionNumber(*p as u8), k, &mut no_io()).unwrap().map(unval);
                match r {
                    None => Err(()),
                    Some(bal) => {
                        self.track().set_substate(node(*n), PartitionNumber(*p as u8), k.clone(), val(bal + a), &mut no_io()).unwrap();
                        self.fin_written.insert((*n, *p, dbk(k)), bal + a);
                        Ok(())
                    }
                }
            }
            FinOp::Put(n, p, k, v) => {
                self.track().set_substate(node(*n), PartitionNumber(*p as u8), k.clone(), val(*v), &mut no_io()).unwrap();
                self.fin_written.insert((*n, *p, dbk(k)), *v);
                Ok(())
            }
            FinOp::DelPart(n, p) => {
                self.track().delete_partition(&node(*n), PartitionNumber(*p as u8));
                self.fin_deleted.insert((*n, *p));
                Ok(())
            }
        }
    }
    fn do_revert(&mut self) -> Result<(), String> {
        catch(|| self.track().revert_non_force_write_changes())
    }
    /// `to_state_updates` + events, and the oracle
    fn receipt(&mut self) -> Answer {
        self.track();
        let track = self.track.take().unwrap();
        self.phase = Phase::Done;
        let (tracked, _db) = match track.finalize() {
            Ok(x) => x,
            Err(_) => return Answer::fail("finalize-error", "finalize-error", "finalize failed without transient substates"),
        };
        let (new_nodes, su) = tracked.to_state_updates();
        let mut parts_out = vec![];
        for (nid, nu) in &su.by_node {
            let NodeStateUpdates::Delta { by_partition } = nu;
            let mut ps = vec![];
            for (pn, pu) in by_partition {
                let s = match pu {
                    PartitionStateUpdates::Delta { by_substate } => format!(
                        "D[{}]",
                        by_substate
                            .iter()
                            .map(|(k, u)| format!("{}={}", sk_hex(k), match u {
                                DatabaseUpdate::Set(v) => scrypto_decode::<u64>(v).unwrap().to_string(),
                                DatabaseUpdate::Delete => "-".to_string(),
                            }))
                            .collect::<Vec<_>>()
                            .join(",")
                    ),
                    PartitionStateUpdates::Batch(BatchPartitionStateUpdate::Reset { new_substate_values }) => format!(
                        "R[{}]",
                        new_substate_values.iter().map(|(k, v)| format!("{}={}", sk_hex(k), scrypto_decode::<u64>(v).unwrap())).collect::<Vec<_>>().join(",")
                    ),
                };
                ps.push(format!("{}:{}", pn.0, s));
            }
            parts_out.push(format!("{}{{{}}}", nid.0[0], ps.join(";")));
        }
        // events: the real runtime module's filter, then the finalization events
        let rt = std::mem::replace(&mut self.rt, new_rt());
        let (evs, _logs) = rt.finalize(self.is_success);
        let mut out_evs: Vec<Ev> = vec![];
        for (tid, payload) in evs {
            let EventTypeIdentifier(em, name) = tid;
            let emitter = match em {
                Emitter::Method(n, _) => n.0[0] as u64,
                _ => 255,
            };
            // the flag is not part of the result
            let payload: u64 = scrypto_decode(&payload).unwrap();
            let name: u64 = name.parse().unwrap();
            out_evs.push(Ev { force: false, emitter, name, payload });
        }
        let n_runtime = out_evs.len();
        out_evs.extend(self.fin_events.iter().cloned());
        let ans = format!(
            "{} new=[{}] su=[{}] ev={}",
            if self.is_success { "success" } else { "failure" },
            new_nodes.iter().map(|n| n.0[0].to_string()).collect::<Vec<_>>().join(","),
            parts_out.join(";"),
            show_evs(&out_evs)
        );
        if self.is_success {
            return Answer::ok(ans);
        }
        // ---------------- property oracle (failure) ----------------
        if !new_nodes.is_empty() {
            return Answer::fail(ans, "failure:new-nodes", format!("a failed commit reports new nodes {:?}", new_nodes.iter().map(|n| n.0[0]).collect::<Vec<_>>()));
        }
        let mut db2 = self.base_db.clone();
        db2.commit(&su.create_database_updates());
        for n in 0..NODES {
            for p in 0..PARTS {
                if self.fin_deleted.contains(&(n, p)) {
                    continue;
                }
                let got: BTreeMap<Vec<u8>, u64> = db2
                    .list_raw_values_from_db_key(&SpreadPrefixKeyMapper::to_db_partition_key(&node(n), PartitionNumber(p as u8)), None)
                    .map(|(k, v)| (k.0, scrypto_decode::<u64>(&v).unwrap()))
                    .collect();
                let mut exp: BTreeMap<Vec<u8>, u64> = self.base.iter().filter(|(k, _)| k.0 == n && k.1 == p).map(|(k, v)| (k.2.clone(), *v)).collect();
                for (k, v) in &self.forced {
                    if k.0 == n && k.1 == p {
                        exp.insert(k.2.clone(), *v);
                    }
                }
                for (k, v) in &self.fin_written {
                    if k.0 == n && k.1 == p {
                        exp.insert(k.2.clone(), *v);
                    }
                }
                if got != exp {
                    let bad: Vec<String> = got
                        .iter()
                        .filter(|(k, v)| exp.get(*k) != Some(*v))
                        .map(|(k, v)| format!("{}={}", hex(k), v))
                        .chain(exp.iter().filter(|(k, _)| !got.contains_key(*k)).map(|(k, _)| format!("{}=<deleted>", hex(k))))
                        .collect();
                    let class = if self.forced.keys().any(|k| k.0 == n && k.1 == p) { "force-written-partition" } else { "other-partition" };
                    return Answer::fail(
                        ans,
                        format!("failure:state-change-outside-fees:{}", class),
                        format!("after revert + finalization, node {} partition {} differs from base/force-written/finalization values at {}", n, p, bad.join(",")),
                    );
                }
            }
        }
        let surv: Vec<Ev> = out_evs[..n_runtime].to_vec();
        let forced_plain: Vec<Ev> = self.forced_events.iter().map(|e| Ev { force: false, ..e.clone() }).collect();
        if surv != forced_plain {
            return Answer::fail(ans, "failure:events", format!("surviving runtime events {} but the force-flagged ones were {}", show_evs(&surv), show_evs(&self.forced_events)));
        }
        Answer::ok(ans)
    }
}

enum FwdOp {
    Get(u64, u64, SubstateKey),
    Set(u64, u64, SubstateKey, u64),
    Remove(u64, u64, SubstateKey),
    Create(u64, Vec<(u64, Vec<(SubstateKey, u64)>)>),
    ScanKeys(u64, u64, u64),
    Drain(u64, u64, u64),
    ScanSorted(u64, u64, u64),
    LockFee(u64, u64, SubstateKey, u64),
    Emit(bool, u64, u64, u64),
}

fn parse_subs(s: &str) -> Option<Vec<(u64, Vec<(SubstateKey, u64)>)>> {
    if s == "-" {
        return Some(vec![]);
    }
    let mut out: Vec<(u64, Vec<(SubstateKey, u64)>)> = vec![];
    for ps in s.split(';') {
        let t: Vec<&str> = ps.split(':').collect();
        if t.len() != 2 {
            return None;
        }
        let p = num(t[0])?;
        let mut kvs = vec![];
        if t[1] != "-" {
            for kv in t[1].split(',') {
                let u: Vec<&str> = kv.split('=').collect();
                if u.len() != 2 {
                    return None;
                }
                let k = parse_key(p, u[0])?;
                let v = num(u[1])?;
                if kvs.iter().any(|(k2, _)| *k2 == k) {
                    return None;
                }
                kvs.push((k, v));
            }
        }
        if out.iter().any(|(p2, _)| *p2 == p) {
            return None;
        }
        out.push((p, kvs));
    }
    Some(out)
}

fn flag(s: &str) -> Option<bool> {
    match s {
        "0" => Some(false),
        "1" => Some(true),
        _ => None,
    }
}

fn parse_fwd(t: &[&str]) -> Option<FwdOp> {
    match (t[0], t.len()) {
        ("get", 4) => Some(FwdOp::Get(num(t[1])?, num(t[2])?, parse_key(num(t[2])?, t[3])?)),
        ("set", 5) => Some(FwdOp::Set(num(t[1])?, num(t[2])?, parse_key(num(t[2])?, t[3])?, num(t[4])?)),
        ("remove", 4) => Some(FwdOp::Remove(num(t[1])?, num(t[2])?, parse_key(num(t[2])?, t[3])?)),
        ("create", 3) => Some(FwdOp::Create(num(t[1])?, parse_subs(t[2])?)),
        ("scankeys", 4) => Some(FwdOp::ScanKeys(num(t[1])?, num(t[2])?, num(t[3])?)),
        ("drain", 4) => Some(FwdOp::Drain(num(t[1])?, num(t[2])?, num(t[3])?)),
        ("scansorted", 4) => Some(FwdOp::ScanSorted(num(t[1])?, num(t[2])?, num(t[3])?)),
        ("lockfee", 5) => Some(FwdOp::LockFee(num(t[1])?, num(t[2])?, parse_key(num(t[2])?, t[3])?, num(t[4])?)),
        ("emit", 5) => Some(FwdOp::Emit(flag(t[1])?, num(t[2])?, num(t[3])?, num(t[4])?)),
        _ => None,
    }
}

fn parse_fin(t: &[&str]) -> Option<FinOp> {
    match (t[0], t.len()) {
        ("finread", 4) => Some(FinOp::Read(num(t[1])?, num(t[2])?, parse_key(num(t[2])?, t[3])?)),
        ("fincredit", 5) => Some(FinOp::Credit(num(t[1])?, num(t[2])?, parse_key(num(t[2])?, t[3])?, num(t[4])?)),
        ("finput", 5) => Some(FinOp::Put(num(t[1])?, num(t[2])?, parse_key(num(t[2])?, t[3])?, num(t[4])?)),
        ("findel", 3) => Some(FinOp::DelPart(num(t[1])?, num(t[2])?)),
        _ => None,
    }
}

struct CommitArgs {
    success: bool,
    payments: Vec<u64>,
    tp: u64,
    tv: u64,
    burn: u64,
    new_rewards: u64,
    nullifs: Vec<(u64, SubstateKey)>,
    status: u64,
    advance: Option<u64>,
    new_tracker: u64,
    has_epoch: bool,
}

fn parse_commit(t: &[&str]) -> Option<CommitArgs> {
    if t.len() != 12 {
        return None;
    }
    let payments = if t[2] == "-" { vec![] } else { t[2].split(',').map(num).collect::<Option<Vec<_>>>()? };
    let mut nullifs = vec![];
    if t[7] != "-" {
        for e in t[7].split(';') {
            let u: Vec<&str> = e.split(':').collect();
            if u.len() != 2 {
                return None;
            }
            let p = num(u[0])?;
            nullifs.push((p, parse_key(p, u[1])?));
        }
    }
    Some(CommitArgs {
        success: flag(t[1])?,
        payments,
        tp: num(t[3])?,
        tv: num(t[4])?,
        burn: num(t[5])?,
        new_rewards: num(t[6])?,
        nullifs,
        status: num(t[8])?,
        advance: if t[9] == "-" { None } else { Some(num(t[9])?) },
        new_tracker: num(t[10])?,
        has_epoch: flag(t[11])?,
    })
}

fn scan_keys_kind(t: &mut Tr, n: u64, p: u64, limit: u32) -> Vec<SubstateKey> {
    match p % 3 {
        0 => t.scan_keys::<FieldKey, (), _>(&node(n), PartitionNumber(p as u8), limit, &mut no_io()).unwrap(),
        1 => t.scan_keys::<MapKey, (), _>(&node(n), PartitionNumber(p as u8), limit, &mut no_io()).unwrap(),
        _ => t.scan_keys::<SortedKey, (), _>(&node(n), PartitionNumber(p as u8), limit, &mut no_io()).unwrap(),
    }
}
fn drain_kind(t: &mut Tr, n: u64, p: u64, limit: u32) -> Vec<(SubstateKey, IndexedScryptoValue)> {
    match p % 3 {
        0 => t.drain_substates::<FieldKey, (), _>(&node(n), PartitionNumber(p as u8), limit, &mut no_io()).unwrap(),
        1 => t.drain_substates::<MapKey, (), _>(&node(n), PartitionNumber(p as u8), limit, &mut no_io()).unwrap(),
        _ => t.drain_substates::<SortedKey, (), _>(&node(n), PartitionNumber(p as u8), limit, &mut no_io()).unwrap(),
    }
}

impl Runner for UR {
    fn step(&mut self, line: &str) -> Answer {
        let t: Vec<&str> = line.split(' ').filter(|s| !s.is_empty()).collect();
        if t.is_empty() {
            return Answer::ok("bad-op");
        }
        if t == ["reset"] {
            *self = UR::new();
            return Answer::ok("ok");
        }
        if t[0] == "base" && t.len() == 5 {
            let parsed = (|| Some((num(t[1])?, num(t[2])?, parse_key(num(t[2])?, t[3])?, num(t[4])?)))();
            return match parsed {
                None => Answer::ok("bad-op"),
                Some((n, p, k, v)) => {
                    if self.phase == Phase::Building {
                        let mut m = indexmap!();
                        m.insert(SpreadPrefixKeyMapper::to_db_partition_key(&node(n), PartitionNumber(p as u8)), indexmap!(SpreadPrefixKeyMapper::to_db_sort_key(&k) => DatabaseUpdate::Set(raw(v))));
                        self.base_db.commit(&DatabaseUpdates::from_delta_maps(m));
                        self.base.insert((n, p, dbk(&k)), v);
                        Answer::ok("ok")
                    } else {
                        Answer::ok("wrong-phase")
                    }
                }
            };
        }
        // ---- classify the line
        let fwd = parse_fwd(&t);
        let fin = parse_fin(&t);
        let finevent = if t[0] == "finevent" && t.len() == 4 { (|| Some((num(t[1])?, num(t[2])?, num(t[3])?)))() } else { None };
        let commit = if t[0] == "commit" { parse_commit(&t) } else { None };
        let simple = t == ["fail"] || t == ["succeed"] || t == ["receipt"];
        if fwd.is_none() && fin.is_none() && finevent.is_none() && commit.is_none() && !simple {
            return Answer::ok("bad-op");
        }
        if self.phase == Phase::Poisoned {
            return Answer::ok("poisoned");
        }
        if self.phase == Phase::Done {
            return Answer::ok("done");
        }
        let executing = self.phase == Phase::Building || self.phase == Phase::Executing;
        if let Some(op) = fwd {
            if !executing {
                return Answer::ok("wrong-phase");
            }
            self.phase = Phase::Executing;
            self.track();
            return self.fwd_step(op);
        }
        if t == ["fail"] || t == ["succeed"] {
            if !executing {
                return Answer::ok("wrong-phase");
            }
            self.track();
            self.is_success = t == ["succeed"];
            if !self.is_success {
                if self.do_revert().is_err() {
                    self.phase = Phase::Poisoned;
                    // force-written substates always exist in the base database (UNMODIFIED_BASE), so
                    // their node cannot be one created by this transaction
                    return Answer::fail("panic", "revert:panic", "revert_non_force_write_changes panicked although every force write came from lock_fee");
                }
            }
            self.phase = Phase::Finalizing;
            return Answer::ok("ok");
        }
        if let Some(op) = fin {
            if self.phase != Phase::Finalizing {
                return Answer::ok("wrong-phase");
            }
            return match self.fin_step(&op) {
                Ok(()) => Answer::ok("ok"),
                Err(()) => {
                    self.phase = Phase::Poisoned;
                    Answer::ok("panic")
                }
            };
        }
        if let Some((emitter, name, payload)) = finevent {
            if self.phase != Phase::Finalizing {
                return Answer::ok("wrong-phase");
            }
            self.fin_events.push(Ev { force: false, emitter, name, payload });
            return Answer::ok("ok");
        }
        if t == ["receipt"] {
            if self.phase != Phase::Finalizing {
                return Answer::ok("wrong-phase");
            }
            return self.receipt();
        }
        if let Some(c) = commit {
            if !executing {
                return Answer::ok("wrong-phase");
            }
            self.track();
            return self.commit(c);
        }
        Answer::ok("bad-op")
    }
}

impl UR {
    fn fwd_step(&mut self, op: FwdOp) -> Answer {
        match op {
            FwdOp::Get(n, p, k) => {
                let r = self.track().get_substate(&node(n), PartitionNumber(p as u8), &k, &mut no_io()).unwrap().map(unval);
                Answer::ok(show_opt(r))
            }
            FwdOp::Set(n, p, k, v) => {
                self.track().set_substate(node(n), PartitionNumber(p as u8), k, val(v), &mut no_io()).unwrap();
                Answer::ok("ok")
            }
            FwdOp::Remove(n, p, k) => {
                let r = self.track().remove_substate(&node(n), PartitionNumber(p as u8), &k, &mut no_io()).unwrap().map(|v| unval(&v));
                Answer::ok(show_opt(r))
            }
            FwdOp::Create(n, subs) => {
                let mut ns: BTreeMap<PartitionNumber, BTreeMap<SubstateKey, IndexedScryptoValue>> = BTreeMap::new();
                for (p, kvs) in &subs {
                    let e = ns.entry(PartitionNumber(*p as u8)).or_default();
                    for (k, v) in kvs {
                        e.insert(k.clone(), val(*v));
                    }
                }
                let r = catch(|| self.track().create_node(node(n), ns, &mut no_io()).unwrap());
                if r.is_err() {
                    self.phase = Phase::Poisoned;
                    return Answer::ok("panic");
                }
                self.created.insert(n);
                Answer::ok("ok")
            }
            FwdOp::ScanKeys(n, p, limit) => {
                let ks = scan_keys_kind(self.track(), n, p, limit as u32);
                Answer::ok(format!("[{}]", ks.iter().map(sk_hex).collect::<Vec<_>>().join(",")))
            }
            FwdOp::Drain(n, p, limit) => {
                let es: Vec<(Vec<u8>, u64)> = drain_kind(self.track(), n, p, limit as u32).iter().map(|(k, v)| (dbk(k), unval(v))).collect();
                Answer::ok(show_entries(&es))
            }
            FwdOp::ScanSorted(n, p, limit) => {
                let r = catch(|| self.track().scan_sorted_substates(&node(n), PartitionNumber(p as u8), limit as u32, &mut no_io()).unwrap());
                match r {
                    Ok(es) => {
                        let es: Vec<(Vec<u8>, u64)> = es.iter().map(|(k, v)| (dbk(&SubstateKey::Sorted(k.clone())), unval(v))).collect();
                        Answer::ok(show_entries(&es))
                    }
                    Err(_) => {
                        self.phase = Phase::Poisoned;
                        Answer::ok("panic")
                    }
                }
            }
            FwdOp::Emit(force, emitter, name, payload) => {
                self.add_event(Ev { force, emitter, name, payload });
                Answer::ok("ok")
            }
            FwdOp::LockFee(n, p, k, amount) => {
                // SubstateIO::open_substate with LockFlags::UNMODIFIED_BASE (Store device)
                let info = self.track().get_tracked_substate_info(&node(n), PartitionNumber(p as u8), &k);
                match info {
                    TrackedSubstateInfo::New => return Answer::ok("err-new"),
                    TrackedSubstateInfo::Updated => return Answer::ok("err-updated"),
                    TrackedSubstateInfo::Unmodified => {}
                }
                let r = self.track().get_substate(&node(n), PartitionNumber(p as u8), &k, &mut no_io()).unwrap().map(unval);
                let bal = match r {
                    None => return Answer::ok("err-fault"),
                    Some(b) => b,
                };
                let key: K3 = (n, p, dbk(&k));
                // oracle: an UNMODIFIED_BASE open sees the base value
                if self.base.get(&key) != Some(&bal) {
                    return Answer::fail(format!("bal {}", bal), "lockfee:not-base-value", format!("UNMODIFIED_BASE open read {} but the base database has {:?}", bal, self.base.get(&key)));
                }
                if bal < amount {
                    return Answer::ok(format!("err-insufficient {}", bal));
                }
                // write_substate, then close_substate with FORCE_WRITE
                self.track().set_substate(node(n), PartitionNumber(p as u8), k.clone(), val(bal - amount), &mut no_io()).unwrap();
                let r = catch(|| self.track().force_write(&node(n), &PartitionNumber(p as u8), &k));
                if r.is_err() {
                    self.phase = Phase::Poisoned;
                    return Answer::fail("panic", "force-write:panic", "force_write panicked on a substate that was just written");
                }
                self.locked.push((n, p, k.clone(), amount));
                self.forced.insert(key, bal - amount);
                self.add_event(Ev { force: true, emitter: n, name: 0, payload: amount });
                Answer::ok(format!("ok {}", bal - amount))
            }
        }
    }

    /// the whole of `create_commit_receipt`, expanded into the finalization writes in the order of
    /// `finalize_fees_for_commit` and `update_transaction_tracker`
    fn commit(&mut self, c: CommitArgs) -> Answer {
        self.is_success = c.success;
        if !c.success {
            if self.do_revert().is_err() {
                self.phase = Phase::Poisoned;
                return Answer::fail("panic", "revert:panic", "revert_non_force_write_changes panicked although every force write came from lock_fee");
            }
        }
        self.phase = Phase::Finalizing;
        let mut ops: Vec<FinOp> = vec![];
        let mut evs: Vec<Ev> = vec![];
        let rev: Vec<(u64, u64, SubstateKey, u64)> = self.locked.iter().rev().cloned().collect();
        // the payment list of the line is cycled over the fee locks (`-` = no payments at all)
        let payments: Vec<u64> = if c.payments.is_empty() { vec![] } else { (0..rev.len()).map(|i| c.payments[i % c.payments.len()]).collect() };
        let c = CommitArgs { payments, ..c };
        if rev.len() != c.payments.len() {
            self.phase = Phase::Poisoned;
            return Answer::ok("panic");
        }
        for ((n, p, k, locked), a) in rev.iter().zip(c.payments.iter()) {
            if locked < a {
                self.phase = Phase::Poisoned;
                return Answer::ok("panic");
            }
            ops.push(FinOp::Credit(*n, *p, k.clone(), locked - a));
            evs.push(Ev { force: false, emitter: *n, name: 1, payload: *a });
        }
        if c.tp != 0 || c.tv != 0 {
            ops.push(FinOp::Read(SYS, CM_PART, SubstateKey::Field(CM_STATE_FIELD)));
            ops.push(FinOp::Read(SYS, CM_PART, SubstateKey::Field(CM_REWARDS_FIELD)));
            ops.push(FinOp::Put(SYS, CM_PART, SubstateKey::Field(CM_REWARDS_FIELD), c.new_rewards));
            ops.push(FinOp::Credit(SYS, CM_PART, SubstateKey::Field(REWARDS_VAULT_FIELD), c.tp + c.tv));
            evs.push(Ev { force: false, emitter: SYS, name: 2, payload: c.tp + c.tv });
        }
        if c.burn > 0 {
            evs.push(Ev { force: false, emitter: 0, name: 3, payload: c.burn });
        }
        if c.has_epoch {
            ops.push(FinOp::Read(SYS, TR_PART, SubstateKey::Field(TR_FIELD)));
            for (p, k) in &c.nullifs {
                ops.push(FinOp::Put(SYS, *p, k.clone(), c.status));
            }
            if let Some(old) = c.advance {
                ops.push(FinOp::DelPart(SYS, old));
            }
            ops.push(FinOp::Put(SYS, TR_PART, SubstateKey::Field(TR_FIELD), c.new_tracker));
        }
        for op in &ops {
            if self.fin_step(op).is_err() {
                self.phase = Phase::Poisoned;
                return Answer::ok("panic");
            }
        }
        self.fin_events = evs;
        self.receipt()
    }
}

impl Area for U {
    fn gen(&self, rng: &mut Rng, n: usize, out: &mut dyn Write) {
        for case in 0..n {
            writeln!(out, "reset").unwrap();
            let focus = if rng.chance(1, 2) { Some((rng.below(2), rng.below(PARTS))) } else { None };
            let pick_np = |rng: &mut Rng| -> (u64, u64) {
                match focus {
                    Some(f) if rng.chance(3, 5) => f,
                    _ => (rng.below(4), rng.below(PARTS)),
                }
            };
            let pick_key = |rng: &mut Rng, p: u64| -> String { sk_hex(rng.pick(&alphabet(p % 3))) };
            // base database: user nodes 0,1 and (mostly) the system node's book-keeping substates
            let mut vaults: Vec<(u64, u64, String)> = vec![];
            for _ in 0..rng.below(14) {
                let (mut nn, p) = pick_np(rng);
                nn %= 2;
                let k = pick_key(rng, p);
                writeln!(out, "base {} {} {} {}", nn, p, k, rng.below(1000)).unwrap();
                vaults.push((nn, p, k));
            }
            let sys_complete = rng.chance(9, 10);
            for f in [CM_STATE_FIELD, CM_REWARDS_FIELD, REWARDS_VAULT_FIELD] {
                if sys_complete || rng.chance(1, 2) {
                    writeln!(out, "base {} {} {} {}", SYS, CM_PART, sk_hex(&SubstateKey::Field(f)), rng.below(1000)).unwrap();
                }
            }
            if sys_complete || rng.chance(1, 2) {
                writeln!(out, "base {} {} {} {}", SYS, TR_PART, sk_hex(&SubstateKey::Field(TR_FIELD)), rng.below(1000)).unwrap();
            }
            for _ in 0..rng.below(3) {
                let p = *rng.pick(&[1u64, 4]);
                writeln!(out, "base {} {} {} {}", SYS, p, pick_key(rng, p), rng.below(3)).unwrap();
            }
            // execution phase
            let len = 1 + rng.below(30);
            let mut nlocks = 0usize;
            for _ in 0..len {
                let (nn, p) = pick_np(rng);
                match rng.below(100) {
                    0..=13 => writeln!(out, "get {} {} {}", nn, p, pick_key(rng, p)).unwrap(),
                    14..=31 => writeln!(out, "set {} {} {} {}", nn, p, pick_key(rng, p), rng.below(1000)).unwrap(),
                    32..=39 => writeln!(out, "remove {} {} {}", nn, p, pick_key(rng, p)).unwrap(),
                    40..=46 => {
                        let cn = 2 + rng.below(2);
                        let ps: Vec<u64> = (0..PARTS).filter(|_| rng.chance(1, 3)).collect();
                        let mut spec = vec![];
                        for pp in ps {
                            let keys: Vec<SubstateKey> = alphabet(pp % 3).into_iter().filter(|_| rng.chance(1, 2)).collect();
                            let kvs: Vec<String> = keys.iter().map(|k| format!("{}={}", sk_hex(k), rng.below(1000))).collect();
                            spec.push(format!("{}:{}", pp, if kvs.is_empty() { "-".to_string() } else { kvs.join(",") }));
                        }
                        writeln!(out, "create {} {}", cn, if spec.is_empty() { "-".to_string() } else { spec.join(";") }).unwrap();
                    }
                    47..=52 => writeln!(out, "scankeys {} {} {}", nn, p, rng.below(8)).unwrap(),
                    53..=59 => writeln!(out, "drain {} {} {}", nn, p, rng.below(8)).unwrap(),
                    60..=64 => {
                        let sp = if p % 3 == 2 { p } else { 2 + 3 * rng.below(2) };
                        writeln!(out, "scansorted {} {} {}", nn, sp, rng.below(8)).unwrap()
                    }
                    65..=84 => {
                        // lock_fee: mostly on a substate that exists in the base database
                        if !vaults.is_empty() && rng.chance(4, 5) {
                            let (vn, vp, vk) = rng.pick(&vaults).clone();
                            let amt = if rng.chance(1, 8) { 900 + rng.below(300) } else { rng.below(60) };
                            writeln!(out, "lockfee {} {} {} {}", vn, vp, vk, amt).unwrap();
                            nlocks += 1;
                        } else {
                            writeln!(out, "lockfee {} {} {} {}", nn, p, pick_key(rng, p), rng.below(50)).unwrap();
                            nlocks += 1;
                        }
                    }
                    85..=95 => writeln!(out, "emit {} {} {} {}", rng.below(2), rng.below(4), 10 + rng.below(3), rng.below(100)).unwrap(),
                    _ => {
                        let bad = ["get 1", "set 0 0 zz 1", "frobnicate", "lockfee 0 0 00", "lockfee 0 0 00 -1", "emit 2 0 0 0", "emit 1 0 0", "commit 0 - 0 0", "finput 0 0 0g 1", "fincredit 0 0 00", "receipt now"];
                        writeln!(out, "{}", rng.pick(&bad)).unwrap()
                    }
                }
            }
            // end of execution: mostly a failure
            let success = rng.chance(1, 6);
            let nullif = |rng: &mut Rng| -> String {
                let cnt = rng.below(3);
                if cnt == 0 {
                    "-".to_string()
                } else {
                    (0..cnt).map(|_| { let p = *rng.pick(&[1u64, 4]); format!("{}:{}", p, pick_key(rng, p)) }).collect::<Vec<_>>().join(";")
                }
            };
            if case % 3 != 0 {
                // one-shot create_commit_receipt; payments mostly line up with the number of locks
                let np = if rng.chance(9, 10) { 1 + (nlocks.min(5)) } else { rng.below(4) as usize };
                let pays: Vec<String> = (0..np).map(|_| { let big = rng.chance(1, 10); rng.below(if big { 2000 } else { 30 }).to_string() }).collect();
                let (tp, tv) = if rng.chance(1, 5) { (0, 0) } else { (rng.below(20), rng.below(20)) };
                writeln!(
                    out,
                    "commit {} {} {} {} {} {} {} {} {} {} {}",
                    if success { 1 } else { 0 },
                    if pays.is_empty() { "-".to_string() } else { pays.join(",") },
                    tp,
                    tv,
                    rng.below(3) * 7,
                    rng.below(1000),
                    nullif(rng),
                    1 + rng.below(2),
                    if rng.chance(1, 4) { (*rng.pick(&[1u64, 4])).to_string() } else { "-".to_string() },
                    rng.below(1000),
                    if rng.chance(9, 10) { 1 } else { 0 }
                )
                .unwrap();
            } else {
                writeln!(out, "{}", if success { "succeed" } else { "fail" }).unwrap();
                for _ in 0..rng.below(8) {
                    let (nn, p) = if rng.chance(1, 2) { (SYS, *rng.pick(&[0u64, 1, 3, 4])) } else { pick_np(rng) };
                    match rng.below(10) {
                        0..=1 => writeln!(out, "finread {} {} {}", nn, p, pick_key(rng, p)).unwrap(),
                        2..=4 => {
                            if !vaults.is_empty() && rng.chance(2, 3) {
                                let (vn, vp, vk) = rng.pick(&vaults).clone();
                                writeln!(out, "fincredit {} {} {} {}", vn, vp, vk, rng.below(50)).unwrap()
                            } else {
                                writeln!(out, "fincredit {} {} {} {}", nn, p, pick_key(rng, p), rng.below(50)).unwrap()
                            }
                        }
                        5..=7 => writeln!(out, "finput {} {} {} {}", nn, p, pick_key(rng, p), rng.below(1000)).unwrap(),
                        8 => writeln!(out, "findel {} {}", SYS, rng.pick(&[1u64, 4])).unwrap(),
                        _ => writeln!(out, "finevent {} {} {}", rng.below(5), 1 + rng.below(3), rng.below(100)).unwrap(),
                    }
                }
                if case % 12 != 0 {
                    writeln!(out, "receipt").unwrap();
                }
                if rng.chance(1, 6) {
                    writeln!(out, "get 0 0 {}", sk_hex(&SubstateKey::Field(0))).unwrap(); // after the end: done / wrong-phase
                }
            }
        }
    }
    fn runner(&self) -> Box<dyn Runner> {
        Box::new(UR::new())
    }
    fn consts(&self) -> Vec<(String, String)> {
        source_consts()
    }
}

// ----------------------------------------------------------------------------------------------------
// translator items: flag values as compiled + the shape of the source the model relies on
// ----------------------------------------------------------------------------------------------------

fn read_src(rel: &str) -> String {
    std::fs::read_to_string(format!("/repo/{}", rel)).unwrap_or_default()
}

fn strip_comments(s: &str) -> String {
    s.lines().filter(|l| !l.trim_start().starts_with("//")).collect::<Vec<_>>().join("\n")
}

fn rs_files(dir: &str, out: &mut Vec<String>) {
    if let Ok(rd) = std::fs::read_dir(dir) {
        let mut ents: Vec<_> = rd.filter_map(|e| e.ok()).collect();
        ents.sort_by_key(|e| e.path());
        for e in ents {
            let p = e.path();
            if p.is_dir() {
                rs_files(p.to_str().unwrap(), out);
            } else if p.extension().map(|x| x == "rs").unwrap_or(false) {
                out.push(p.to_str().unwrap().to_string());
            }
        }
    }
}

fn source_consts() -> Vec<(String, String)> {
    let mut v: Vec<(String, String)> = vec![];
    v.push(("LOCKFLAG_MUTABLE".into(), LockFlags::MUTABLE.bits().to_string()));
    v.push(("LOCKFLAG_UNMODIFIED_BASE".into(), LockFlags::UNMODIFIED_BASE.bits().to_string()));
    v.push(("LOCKFLAG_FORCE_WRITE".into(), LockFlags::FORCE_WRITE.bits().to_string()));
    v.push(("EVENTFLAG_FORCE_WRITE".into(), EventFlags::FORCE_WRITE.bits().to_string()));
    // source shape (radix-engine/src, comment lines stripped)
    let mut files = vec![];
    rs_files("/repo/radix-engine/src", &mut files);
    let mut fw_lock_pass_sites = 0; // places that *pass* LockFlags::FORCE_WRITE (not `contains` checks)
    let mut fw_lock_pass_in_vault = 0;
    let mut fw_event_pass_sites = 0; // places that pass EventFlags::FORCE_WRITE
    let mut fw_event_pass_in_system = 0;
    let mut delete_partition_calls = 0;
    let mut delete_partition_calls_in_callback = 0;
    let mut revert_calls = 0;
    let mut revert_calls_in_callback = 0;
    let mut force_write_calls = 0;
    let mut force_write_calls_in_substate_io = 0;
    for f in &files {
        let src = strip_comments(&std::fs::read_to_string(f).unwrap_or_default());
        let in_track = f.contains("/src/track/");
        for l in src.lines() {
            if l.contains("LockFlags::FORCE_WRITE") && !l.contains("contains(LockFlags::FORCE_WRITE)") {
                fw_lock_pass_sites += 1;
                if f.ends_with("blueprints/resource/fungible/fungible_vault.rs") {
                    fw_lock_pass_in_vault += 1;
                }
            }
            if l.contains("EventFlags::FORCE_WRITE") && !l.contains("contains(EventFlags::FORCE_WRITE)") {
                fw_event_pass_sites += 1;
                if f.ends_with("system/system.rs") {
                    fw_event_pass_in_system += 1;
                }
            }
            if !in_track && l.contains(".delete_partition(") {
                delete_partition_calls += 1;
                if f.ends_with("system/system_callback.rs") {
                    delete_partition_calls_in_callback += 1;
                }
            }
            if l.contains(".revert_non_force_write_changes(") {
                revert_calls += 1;
                if f.ends_with("system/system_callback.rs") {
                    revert_calls_in_callback += 1;
                }
            }
            if !in_track && l.contains(".force_write(") {
                force_write_calls += 1;
                if f.ends_with("kernel/substate_io.rs") {
                    force_write_calls_in_substate_io += 1;
                }
            }
        }
    }
    v.push(("fwLockPassSites".into(), fw_lock_pass_sites.to_string()));
    v.push(("fwLockPassSitesInFungibleVault".into(), fw_lock_pass_in_vault.to_string()));
    v.push(("fwEventPassSites".into(), fw_event_pass_sites.to_string()));
    v.push(("fwEventPassSitesInSystem".into(), fw_event_pass_in_system.to_string()));
    v.push(("deletePartitionCalls".into(), delete_partition_calls.to_string()));
    v.push(("deletePartitionCallsInSystemCallback".into(), delete_partition_calls_in_callback.to_string()));
    v.push(("revertCalls".into(), revert_calls.to_string()));
    v.push(("revertCallsInSystemCallback".into(), revert_calls_in_callback.to_string()));
    v.push(("forceWriteCalls".into(), force_write_calls.to_string()));
    v.push(("forceWriteCallsInSubstateIo".into(), force_write_calls_in_substate_io.to_string()));
    // the guards of system.rs
    let sys = strip_comments(&read_src("radix-engine/src/system/system.rs"));
    let flat: String = sys.split_whitespace().collect::<Vec<_>>().join(" ");
    let guard = "flags.contains(LockFlags::UNMODIFIED_BASE) || flags.contains(LockFlags::FORCE_WRITE)";
    v.push(("lockFlagGuards".into(), flat.matches(guard).count().to_string()));
    // the field guard: the special flags are refused unless the blueprint is the fungible vault
    let field_guard = "if (flags.contains(LockFlags::UNMODIFIED_BASE) || flags.contains(LockFlags::FORCE_WRITE)) && !(blueprint_info.blueprint_id.eq(&BlueprintId::new( &RESOURCE_PACKAGE, FUNGIBLE_VAULT_BLUEPRINT, ))) { return Err(RuntimeError::SystemError(SystemError::InvalidLockFlags)); }";
    v.push(("fieldGuardPresent".into(), flat.matches(field_guard).count().to_string()));
    let kv_guard = "if flags.contains(LockFlags::UNMODIFIED_BASE) || flags.contains(LockFlags::FORCE_WRITE) { return Err(RuntimeError::SystemError(SystemError::InvalidLockFlags)); }";
    v.push(("kvGuardsPresent".into(), flat.matches(kv_guard).count().to_string()));
    let ev_guard = "if event_flags.contains(EventFlags::FORCE_WRITE) { let blueprint_id = self.actor_get_blueprint_id()?; if !blueprint_id.package_address.eq(&RESOURCE_PACKAGE) || !blueprint_id.blueprint_name.eq(FUNGIBLE_VAULT_BLUEPRINT) { return Err(RuntimeError::SystemError( SystemError::ForceWriteEventFlagsNotAllowed, )); } }";
    v.push(("eventGuardPresent".into(), flat.matches(ev_guard).count().to_string()));
    // open_substate: UNMODIFIED_BASE refused on heap, New and Updated
    let sio = strip_comments(&read_src("radix-engine/src/kernel/substate_io.rs"));
    let sflat: String = sio.split_whitespace().collect::<Vec<_>>().join(" ");
    v.push(("unmodifiedBaseRefusals".into(), (sflat.matches("OpenSubstateError::LockUnmodifiedBaseOnHeapNode").count() + sflat.matches("OpenSubstateError::LockUnmodifiedBaseOnNewSubstate(").count() + sflat.matches("OpenSubstateError::LockUnmodifiedBaseOnOnUpdatedSubstate(").count()).to_string()));
    let close = "if lock_data.flags.contains(LockFlags::FORCE_WRITE) { self.store .force_write(&node_id, &partition_num, &substate_key); }";
    v.push(("closeForceWritePresent".into(), sflat.matches(close).count().to_string()));
    // create_commit_receipt: revert guarded by !is_success, before the fee finalization
    let cb = strip_comments(&read_src("radix-engine/src/system/system_callback.rs"));
    let cflat: String = cb.split_whitespace().collect::<Vec<_>>().join(" ");
    let rv = "if !is_success { fee_reserve.revert_royalty(); track.revert_non_force_write_changes(); }";
    v.push(("revertOnFailurePresent".into(), cflat.matches(rv).count().to_string()));
    let order_ok = match (cflat.find(rv), cflat.find("Self::finalize_fees_for_commit(&mut track, fee_reserve, is_success)"), cflat.find("Self::update_transaction_tracker( &mut track,"), cflat.find("runtime_module.finalize(is_success)"), cflat.find("tracked_substates.to_state_updates()")) {
        (Some(a), Some(b), Some(c), Some(d), Some(e)) => a < b && b < c && c < d && d < e,
        _ => false,
    };
    v.push(("commitReceiptOrderOk".into(), (if order_ok { "1" } else { "0" }).to_string()));
    let rtm = strip_comments(&read_src("radix-engine/src/system/system_modules/transaction_runtime/module.rs"));
    let rflat: String = rtm.split_whitespace().collect::<Vec<_>>().join(" ");
    v.push(("eventFilterPresent".into(), rflat.matches("if !flags.contains(EventFlags::FORCE_WRITE) && !is_success { continue; }").count().to_string()));
    v
}

// =====================================================================================================
// area c02e — engine level fault sweep (oracle only)
// =====================================================================================================

pub struct E;

type Sim = LedgerSimulator<NoExtension, InMemorySubstateDatabase>;

struct World {
    snap: LedgerSimulatorSnapshot,
    a: ComponentAddress,
    b: ComponentAddress,
    pk_a: Secp256k1PublicKey,
    pk_b: Secp256k1PublicKey,
    res: ResourceAddress,
    vault_a: NodeId,
    vault_b: NodeId,
    vault_faucet: NodeId,
    rewards_vault: NodeId,
}

struct ER {
    sim: Option<Sim>,
    world: Option<World>,
}

const N_SCEN: u64 = 16;

fn dec(x: u64) -> Decimal {
    Decimal::from(x)
}

/// the manifest of scenario `s` with parameters `(x, y)`; returns also the XRD vaults that lock fees
/// and the signer proofs
fn scenario(w: &World, s: u64, x: u64, y: u64) -> (TransactionManifestV1, Vec<NodeId>, Vec<NonFungibleGlobalId>) {
    let sig_a = NonFungibleGlobalId::from_public_key(&w.pk_a);
    let sig_b = NonFungibleGlobalId::from_public_key(&w.pk_b);
    let fee = 20 + x % 200; // XRD locked
    let amt = 1 + y % 500;
    let mb = ManifestBuilder::new();
    match s {
        // transfer XRD from the fee-paying vault itself (vault written after the force write)
        0 => (mb.lock_fee(w.a, dec(fee)).withdraw_from_account(w.a, XRD, dec(amt)).try_deposit_entire_worktop_or_abort(w.b, None).build(), vec![w.vault_a], vec![sig_a]),
        // fee from the faucet, free XRD to an account
        1 => (mb.lock_fee_from_faucet().get_free_xrd_from_faucet().try_deposit_entire_worktop_or_abort(w.a, None).build(), vec![w.vault_faucet], vec![]),
        // work first, fee locked late: everything before the lock must reject
        2 => (mb.withdraw_from_account(w.a, w.res, dec(amt)).try_deposit_entire_worktop_or_abort(w.b, None).lock_fee(w.a, dec(fee)).build(), vec![w.vault_a], vec![sig_a]),
        // two fee payers
        3 => (mb.lock_fee(w.a, dec(fee)).lock_fee(w.b, dec(1 + y % 50)).withdraw_from_account(w.b, XRD, dec(amt)).try_deposit_entire_worktop_or_abort(w.a, None).build(), vec![w.vault_a, w.vault_b], vec![sig_a, sig_b]),
        // contingent fee from B (never charged on failure)
        4 => (mb.lock_fee(w.a, dec(fee)).lock_contingent_fee(w.b, dec(1 + y % 50)).withdraw_from_account(w.a, w.res, dec(amt)).try_deposit_entire_worktop_or_abort(w.b, None).build(), vec![w.vault_a, w.vault_b], vec![sig_a, sig_b]),
        // mint and burn
        5 => (mb.lock_fee(w.a, dec(fee)).mint_fungible(w.res, dec(amt)).burn_all_from_worktop(w.res).mint_fungible(w.res, dec(amt)).try_deposit_entire_worktop_or_abort(w.a, None).build(), vec![w.vault_a], vec![sig_a]),
        // new entities: a resource and an account
        6 => (
            mb.lock_fee(w.a, dec(fee))
                .create_fungible_resource(OwnerRole::None, true, 18, FungibleResourceRoles::default(), metadata!(), Some(dec(amt)))
                .new_account()
                .try_deposit_entire_worktop_or_abort(w.b, None)
                .build(),
            vec![w.vault_a],
            vec![sig_a],
        ),
        // natural failure: worktop assertion
        7 => (mb.lock_fee(w.a, dec(fee)).withdraw_from_account(w.a, w.res, dec(amt)).assert_worktop_contains(w.res, dec(amt + 1)).try_deposit_entire_worktop_or_abort(w.b, None).build(), vec![w.vault_a], vec![sig_a]),
        // natural failure: insufficient balance
        8 => (mb.lock_fee(w.a, dec(fee)).withdraw_from_account(w.a, w.res, dec(100_000_000 + amt)).try_deposit_entire_worktop_or_abort(w.b, None).build(), vec![w.vault_a], vec![sig_a]),
        // natural failure: auth (B's vault without B's signature)
        9 => (mb.lock_fee(w.a, dec(fee)).withdraw_from_account(w.b, XRD, dec(amt)).try_deposit_entire_worktop_or_abort(w.a, None).build(), vec![w.vault_a], vec![sig_a]),
        // out of fee: the locked amount is tiny
        10 => (mb.lock_fee(w.a, Decimal::from_attos(I192::from(1 + x % 1000) * I192::from(100_000_000_000_000u64))).withdraw_from_account(w.a, w.res, dec(amt)).try_deposit_entire_worktop_or_abort(w.b, None).build(), vec![w.vault_a], vec![sig_a]),
        // lock more than the vault holds: error before any repayment
        11 => (mb.lock_fee(w.a, dec(1_000_000_000 + fee)).withdraw_from_account(w.a, w.res, dec(amt)).try_deposit_entire_worktop_or_abort(w.b, None).build(), vec![w.vault_a], vec![sig_a]),
        // second lock_fee on the same vault (refused: the substate is no longer unmodified)
        12 => (mb.lock_fee(w.a, dec(fee)).withdraw_from_account(w.a, w.res, dec(amt)).lock_fee(w.a, dec(1 + y % 20)).try_deposit_entire_worktop_or_abort(w.b, None).build(), vec![w.vault_a], vec![sig_a]),
        // deposit XRD into the fee vault after it locked the fee, then fail by leaving resources behind
        13 => (mb.lock_fee(w.a, dec(fee)).withdraw_from_account(w.b, XRD, dec(amt)).try_deposit_entire_worktop_or_abort(w.a, None).withdraw_from_account(w.a, w.res, dec(amt)).build(), vec![w.vault_a], vec![sig_a, sig_b]),
        // fee vault touched (deposit) before it locks the fee: lock refused, error before repayment
        14 => (mb.get_free_xrd_from_faucet().try_deposit_entire_worktop_or_abort(w.a, None).lock_fee(w.a, dec(fee)).build(), vec![w.vault_a], vec![sig_a]),
        // burn from the account + transfer
        _ => (mb.lock_fee(w.b, dec(fee)).burn_in_account(w.a, w.res, dec(amt)).withdraw_from_account(w.a, XRD, dec(amt)).try_deposit_entire_worktop_or_abort(w.b, None).build(), vec![w.vault_b], vec![sig_a, sig_b]),
    }
}

type Snapshot = BTreeMap<(Vec<u8>, Vec<u8>), Vec<u8>>;

fn db_content(db: &InMemorySubstateDatabase) -> Snapshot {
    let mut m = BTreeMap::new();
    let pks: Vec<DbPartitionKey> = db.list_partition_keys().collect();
    for pk in pks {
        let mut pkb = pk.node_key.clone();
        pkb.push(pk.partition_num);
        for (sk, v) in db.list_raw_values_from_db_key(&pk, None) {
            m.insert((pkb.clone(), sk.0), v);
        }
    }
    m
}

fn pk_bytes(n: &NodeId, p: PartitionNumber) -> Vec<u8> {
    let pk = SpreadPrefixKeyMapper::to_db_partition_key(n, p);
    let mut b = pk.node_key.clone();
    b.push(pk.partition_num);
    b
}

fn field_sk(f: u8) -> Vec<u8> {
    SpreadPrefixKeyMapper::to_db_sort_key(&SubstateKey::Field(f)).0
}

fn vault_amount(raw: &[u8]) -> Option<Decimal> {
    let s: FungibleVaultBalanceFieldSubstate = scrypto_decode(raw).ok()?;
    Some(s.into_payload().fully_update_and_into_latest_version().amount())
}

fn outcome_string(r: &TransactionReceipt) -> String {
    match &r.result {
        TransactionResult::Commit(c) => match &c.outcome {
            TransactionOutcome::Success(_) => "success".to_string(),
            TransactionOutcome::Failure(e) => format!("failure:{:?}", e),
        },
        TransactionResult::Reject(rr) => format!("reject:{:?}", rr.reason),
        TransactionResult::Abort(a) => format!("abort:{:?}", a.reason),
    }
}

fn class_of(r: &TransactionReceipt) -> &'static str {
    match &r.result {
        TransactionResult::Commit(c) => {
            if c.outcome.is_success() {
                "success"
            } else {
                "failure"
            }
        }
        TransactionResult::Reject(_) => "reject",
        TransactionResult::Abort(_) => "abort",
    }
}

impl ER {
    fn world(&mut self) -> (&mut Sim, &World) {
        if self.sim.is_none() {
            let mut sim = LedgerSimulatorBuilder::new().without_kernel_trace().build();
            let (pk_a, _, a) = sim.new_allocated_account();
            let (pk_b, _, b) = sim.new_allocated_account();
            let res = sim.create_freely_mintable_and_burnable_fungible_resource(OwnerRole::None, Some(dec(1_000_000)), 18, a);
            let vault_a = sim.get_component_vaults(a, XRD)[0];
            let vault_b = sim.get_component_vaults(b, XRD)[0];
            let vault_faucet = sim.get_component_vaults(FAUCET, XRD)[0];
            // rewards vault from the consensus manager's ValidatorRewards field
            let raw = sim
                .substate_db()
                .get_raw_substate_by_db_key(&SpreadPrefixKeyMapper::to_db_partition_key(CONSENSUS_MANAGER.as_node_id(), MAIN_BASE_PARTITION), &SpreadPrefixKeyMapper::to_db_sort_key(&SubstateKey::Field(ConsensusManagerField::ValidatorRewards.into())))
                .unwrap();
            let rewards: FieldSubstate<ConsensusManagerValidatorRewardsFieldPayload> = scrypto_decode(&raw).unwrap();
            let rewards_vault = rewards.into_payload().fully_update_and_into_latest_version().rewards_vault.0 .0;
            let snap = sim.create_snapshot();
            self.world = Some(World { snap, a, b, pk_a, pk_b, res, vault_a, vault_b, vault_faucet, rewards_vault });
            self.sim = Some(sim);
        }
        (self.sim.as_mut().unwrap(), self.world.as_ref().unwrap())
    }

    /// one execution with injection point k (0 = none) from the world snapshot; returns the receipt
    /// and the oracle verdict on the database before / after
    fn run_one(&mut self, s: u64, x: u64, y: u64, k: u64) -> Result<(TransactionReceipt, Option<(String, String)>), String> {
        let (sim, w) = self.world();
        sim.restore_snapshot(w.snap.clone());
        let before = db_content(sim.substate_db());
        let (manifest, fee_vaults, proofs) = scenario(w, s, x, y);
        let receipt = catch(|| sim.execute_manifest_with_injected_error(manifest, proofs, k))?;
        let after = db_content(sim.substate_db());
        let verdict = judge(w, s, k, &before, &after, &receipt, &fee_vaults, sim);
        Ok((receipt, verdict))
    }
}

fn judge(w: &World, s: u64, k: u64, before: &Snapshot, after: &Snapshot, receipt: &TransactionReceipt, fee_vaults: &[NodeId], sim: &Sim) -> Option<(String, String)> {
    let mut changed: Vec<(Vec<u8>, Vec<u8>)> = vec![];
    for (key, v) in after {
        if before.get(key) != Some(v) {
            changed.push(key.clone());
        }
    }
    for key in before.keys() {
        if !after.contains_key(key) {
            changed.push(key.clone());
        }
    }
    let tag = format!("s{}", s);
    match &receipt.result {
        TransactionResult::Reject(_) | TransactionResult::Abort(_) => {
            if !changed.is_empty() {
                return Some((format!("reject-changes-db:{}", tag), format!("scenario {} k={}: {} — {} substates changed in the database", s, k, outcome_string(receipt), changed.len())));
            }
            None
        }
        // VERIF_C02_SELFTEST=1: judge successful commits as if they were failures (the oracle must object)
        TransactionResult::Commit(c) if c.outcome.is_success() && std::env::var("VERIF_C02_SELFTEST").is_err() => None,
        TransactionResult::Commit(c) => {
            let bal_sk = field_sk(FungibleVaultField::Balance.into());
            let rewards_sk = field_sk(ConsensusManagerField::ValidatorRewards.into());
            let cm_pk = pk_bytes(CONSENSUS_MANAGER.as_node_id(), MAIN_BASE_PARTITION);
            let rv_pk = pk_bytes(&w.rewards_vault, MAIN_BASE_PARTITION);
            let tracker_node_key = SpreadPrefixKeyMapper::to_db_partition_key(TRANSACTION_TRACKER.as_node_id(), PartitionNumber(0)).node_key;
            let to_rewards = c.fee_destination.to_proposer.checked_add(c.fee_destination.to_validator_set).unwrap();
            let mut paid_seen: BTreeMap<NodeId, Decimal> = BTreeMap::new();
            for key in &changed {
                let (pk, sk) = key;
                let describe = || {
                    let (n, p) = SpreadPrefixKeyMapper::from_db_partition_key(&DbPartitionKey { node_key: pk[..pk.len() - 1].to_vec(), partition_num: pk[pk.len() - 1] });
                    format!("node {} ({:?}) partition {} sort key {}", hex(&n.0), n.entity_type(), p.0, hex(sk))
                };
                // fee vault balance
                if let Some(v) = fee_vaults.iter().find(|v| pk_bytes(v, MAIN_BASE_PARTITION) == *pk) {
                    if *sk != bal_sk {
                        return Some((format!("failure-changes:fee-vault-other-field:{}", tag), format!("scenario {} k={}: {} changed", s, k, describe())));
                    }
                    let old = before.get(key).and_then(|r| vault_amount(r));
                    let new = after.get(key).and_then(|r| vault_amount(r));
                    match (old, new) {
                        (Some(o), Some(n)) => {
                            let paid = c.fee_source.paying_vaults.get(v).cloned().unwrap_or(Decimal::ZERO);
                            if o.checked_sub(n) != Some(paid) {
                                return Some((format!("failure-changes:fee-vault-not-by-payment:{}", tag), format!("scenario {} k={}: fee vault {} went {} -> {} but the receipt says it paid {}", s, k, hex(&v.0), o, n, paid)));
                            }
                            paid_seen.insert(*v, paid);
                        }
                        _ => return Some((format!("failure-changes:fee-vault-untyped:{}", tag), format!("scenario {} k={}: {}", s, k, describe()))),
                    }
                    continue;
                }
                if *pk == cm_pk && *sk == rewards_sk {
                    continue;
                }
                if *pk == rv_pk && *sk == bal_sk {
                    let old = before.get(key).and_then(|r| vault_amount(r));
                    let new = after.get(key).and_then(|r| vault_amount(r));
                    match (old, new) {
                        (Some(o), Some(n)) if n.checked_sub(o) == Some(to_rewards) => {}
                        _ => return Some((format!("failure-changes:rewards-vault-amount:{}", tag), format!("scenario {} k={}: rewards vault {:?} -> {:?}, to_proposer+to_validator_set = {}", s, k, old, new, to_rewards))),
                    }
                    continue;
                }
                if pk[..pk.len() - 1] == tracker_node_key[..] {
                    continue;
                }
                return Some((format!("failure-changes:non-fee-substate:{}", tag), format!("scenario {} k={}: {} — {} changed ({})", s, k, outcome_string(receipt), describe(), if after.contains_key(key) { if before.contains_key(key) { "updated" } else { "created" } } else { "deleted" })));
            }
            // every vault the receipt charges is a fee vault whose balance went down by that amount
            for (v, paid) in &c.fee_source.paying_vaults {
                if !fee_vaults.contains(v) {
                    return Some((format!("failure-pays-from-non-locker:{}", tag), format!("scenario {} k={}: vault {} pays {} but no lock_fee names it", s, k, hex(&v.0), paid)));
                }
                if !paid.is_zero() && paid_seen.get(v) != Some(paid) {
                    return Some((format!("failure-payment-not-taken:{}", tag), format!("scenario {} k={}: receipt says vault {} paid {} but its balance did not change by that", s, k, hex(&v.0), paid)));
                }
            }
            // a committed failure has paid for everything it consumed
            let total_paid = c.fee_source.paying_vaults.values().fold(Decimal::ZERO, |a, b| a.checked_add(*b).unwrap());
            if total_paid != receipt.fee_summary.total_cost() {
                return Some((format!("failure-cost-not-covered:{}", tag), format!("scenario {} k={}: paid {} but total cost {}", s, k, total_paid, receipt.fee_summary.total_cost())));
            }
            // no new entities
            let sus = &c.state_update_summary;
            if !sus.new_packages.is_empty() || !sus.new_components.is_empty() || !sus.new_resources.is_empty() || !sus.new_vaults.is_empty() {
                return Some((format!("failure-new-entities:{}", tag), format!("scenario {} k={}: new entities in a failed commit", s, k)));
            }
            // events
            for (EventTypeIdentifier(emitter, name), _) in &c.application_events {
                let ok = match emitter {
                    Emitter::Method(n, ModuleId::Main) => match name.as_str() {
                        "LockFeeEvent" | "PayFeeEvent" => fee_vaults.contains(n),
                        "DepositEvent" => *n == w.rewards_vault,
                        "BurnFungibleResourceEvent" => *n == XRD.into_node_id(),
                        _ => false,
                    },
                    _ => false,
                };
                if !ok {
                    return Some((format!("failure-event:{}:{}", name, tag), format!("scenario {} k={}: event {} by {:?} survived a failed transaction", s, k, name, emitter)));
                }
            }
            let _ = sim;
            None
        }
    }
}

fn db_checks(sim: &Sim) -> Result<(), String> {
    let mut kernel_checker = KernelDatabaseChecker::new();
    kernel_checker.check_db(sim.substate_db()).map_err(|e| format!("kernel checker: {:?}", e))?;
    let mut checker = SystemDatabaseChecker::<ResourceDatabaseChecker>::default();
    checker.check_db(sim.substate_db()).map_err(|e| format!("system/resource checker: {:?}", e))?;
    Ok(())
}

impl Runner for ER {
    fn step(&mut self, line: &str) -> Answer {
        let t: Vec<&str> = line.split(' ').filter(|s| !s.is_empty()).collect();
        // sweep s x y npoints seed     (npoints = 0: every k)
        if t.len() != 6 || t[0] != "sweep" {
            return Answer::ok("bad-op");
        }
        let p: Option<Vec<u64>> = t[1..].iter().map(|s| num(s)).collect();
        let p = match p {
            Some(p) if p[0] < N_SCEN => p,
            _ => return Answer::ok("bad-op"),
        };
        let (s, x, y, npoints, seed) = (p[0], p[1], p[2], p[3], p[4]);
        // clean run
        let (clean, v0) = match self.run_one(s, x, y, 0) {
            Ok(r) => r,
            Err(m) => return Answer::fail("panic", format!("engine-panic:s{}", s), format!("scenario {} clean run panicked: {}", s, m)),
        };
        if let Some((key, d)) = v0 {
            return Answer::fail(format!("clean={}", class_of(&clean)), key, d);
        }
        let clean_out = outcome_string(&clean);
        // N = number of call-backs after which an injection no longer changes the outcome (bisection;
        // the outcome for k > N is the clean one)
        let same = |me: &mut ER, k: u64| -> Result<bool, Answer> {
            match me.run_one(s, x, y, k) {
                Ok((r, v)) => {
                    if let Some((key, d)) = v {
                        return Err(Answer::fail(format!("clean={}", class_of(&clean)), key, d));
                    }
                    Ok(outcome_string(&r) == clean_out)
                }
                Err(m) => Err(Answer::fail("panic", format!("engine-panic:s{}", s), format!("scenario {} k={} panicked: {}", s, k, m))),
            }
        };
        let mut hi = 64u64;
        loop {
            match same(self, hi) {
                Err(a) => return a,
                Ok(true) => break,
                Ok(false) => hi *= 2,
            }
            if hi > (1 << 22) {
                return Answer::fail("no-bound", format!("sweep-unbounded:s{}", s), "no injection point beyond which the clean outcome returns");
            }
        }
        let mut lo = 0u64; // outcome(lo) differs from clean (or lo = 0 sentinel)
        while hi - lo > 1 {
            let mid = (lo + hi) / 2;
            match same(self, mid) {
                Err(a) => return a,
                Ok(true) => hi = mid,
                Ok(false) => lo = mid,
            }
        }
        let n = lo; // injections at 1..=n change the outcome
        let mut ks: Vec<u64> = vec![];
        if npoints == 0 {
            ks = (1..=n).collect();
        } else if n > 0 {
            let mut rng = Rng::new(seed);
            ks.push(1);
            ks.push(n);
            if n > 2 {
                ks.push(n - 1);
            }
            for i in 0..npoints {
                // stratified: one point per stratum
                let a = 1 + n * i / npoints;
                let b = 1 + n * (i + 1) / npoints;
                ks.push(a + rng.below(std::cmp::max(1, b - a)));
            }
            ks.retain(|k| *k >= 1 && *k <= n);
            ks.sort();
            ks.dedup();
        }
        let mut counts: BTreeMap<&'static str, u64> = BTreeMap::new();
        let mut first_failure: Option<u64> = None;
        let mut last_failure_checked = false;
        for k in ks.iter().rev() {
            let (r, v) = match self.run_one(s, x, y, *k) {
                Ok(r) => r,
                Err(m) => return Answer::fail("panic", format!("engine-panic:s{}", s), format!("scenario {} k={} panicked: {}", s, k, m)),
            };
            if let Some((key, d)) = v {
                return Answer::fail(format!("clean={} n={}", class_of(&clean), n), key, d);
            }
            let cl = class_of(&r);
            *counts.entry(cl).or_insert(0) += 1;
            if cl == "failure" {
                first_failure = Some(*k);
                if !last_failure_checked {
                    last_failure_checked = true;
                    if let Err(m) = db_checks(self.sim.as_ref().unwrap()) {
                        return Answer::fail(format!("clean={} n={}", class_of(&clean), n), format!("failure-breaks-invariants:s{}", s), format!("scenario {} k={}: {}", s, k, m));
                    }
                }
            }
            if cl == "success" {
                return Answer::fail(format!("clean={} n={}", class_of(&clean), n), format!("injected-error-succeeds:s{}", s), format!("scenario {} k={} <= N={} committed successfully although an error was injected", s, k, n));
            }
        }
        // rejects come before commits: once the loan is repaid an error commits as failure
        Answer::ok(format!(
            "clean={} n={} points={} reject={} failure={} abort={} first_failure_k={}",
            class_of(&clean),
            n,
            ks.len(),
            counts.get("reject").unwrap_or(&0),
            counts.get("failure").unwrap_or(&0),
            counts.get("abort").unwrap_or(&0),
            first_failure.map(|k| k.to_string()).unwrap_or("-".to_string())
        ))
    }
}

impl Area for E {
    fn gen(&self, rng: &mut Rng, n: usize, out: &mut dyn Write) {
        let thorough = std::env::var("VERIF_TIER").map(|t| t == "thorough").unwrap_or(false);
        for i in 0..n {
            let s = (i as u64) % N_SCEN;
            let npoints = if thorough && i < 2 * N_SCEN as usize { 0 } else if thorough { 60 } else { 12 };
            writeln!(out, "sweep {} {} {} {} {}", s, rng.below(100000), rng.below(100000), npoints, rng.below(1 << 30)).unwrap();
        }
        writeln!(out, "sweep 99 0 0 1 1").unwrap();
        writeln!(out, "sweep 1 2").unwrap();
    }
    fn runner(&self) -> Box<dyn Runner> {
        Box::new(ER { sim: None, world: None })
    }
}

fn main() {
    main_with(&[("c02", &U), ("c02e", &E)]);
}
