//! C47 — host memory access from WASM is bounds-checked.
//!
//! The functions under test (`read_memory`, `write_memory`, `read_slice`, `consume_buffer` in
//! `radix-engine/src/vm/wasm/wasmi.rs`) are private; they are driven in-process through the public
//! `WasmiModule::instantiate` / `WasmInstance::invoke_export` with a WAT module whose exports call the
//! real host functions with pointer/length pairs chosen by the op line, and a recording `WasmRuntime`
//! that captures the byte vectors the engine read out of the guest memory.
//!
//! Line protocol (stateful; a case starts with `reset P`):
//!   reset P              new instance, P initial pages (max 4), memory[i] = (7 i + 3) mod 256      -> ok
//!   ret X                export returns the u64 X; engine does read_slice(Slice(X))                 -> ok LEN CK | err MemoryAccess
//!   host F p1 l1 [p2 l2 [p3 l3 [p4 l4]]]   host function F reads the buffers                       -> ok LEN:CK ... | err MemoryAccess
//!        F = panic keccak tread kvw fw (1 buffer) | log event (2) | call (3) | bpcall (4)
//!   consume LEN DEST     buffer_consume(id, DEST); the runtime hands out LEN bytes b[i]=(13 i+LEN) mod 256
//!                        (LEN > 300000: the runtime answers BufferNotFound)                         -> ok | err MemoryAccess | err BufferNotFound
//!   twrite PTR LEN       test_host_write_memory: LEN zero bytes at PTR                               -> ok | err MemoryAccess
//!   grow N               memory.grow N                                                               -> ok PAGES
//!   dump                 whole memory                                                                -> ok LEN CK
//!   slice P L            Slice::new(P, L): packed u64, ptr(), len(), as_i64()                        -> ok U64 PTR LEN I64
//!   unslice I            Slice::transmute_i64(I): ptr(), len()                                       -> ok PTR LEN
//! CK = fold (c*31 + b + 1) mod 2^32 over the bytes.
use harness::util::*;
use radix_engine::errors::InvokeError;
use radix_engine::vm::wasm::*;
use radix_engine_interface::api::actor_api::EventFlags;
use radix_engine_interface::api::ActorRefHandle;
use radix_engine_interface::types::*;
use std::cell::RefCell;
use std::io::Write;
use std::rc::Rc;

pub struct A;

const PAGE: usize = 65536;
const MAX_PAGES: u64 = 4;

fn wat_source(pages: u64) -> String {
    format!(
        r#"(module
  (import "env" "buffer_consume" (func $buffer_consume (param i32 i32)))
  (import "env" "object_call" (func $object_call (param i32 i32 i32 i32 i32 i32) (result i64)))
  (import "env" "blueprint_call" (func $blueprint_call (param i32 i32 i32 i32 i32 i32 i32 i32) (result i64)))
  (import "env" "sys_log" (func $sys_log (param i32 i32 i32 i32)))
  (import "env" "kv_entry_write" (func $kv_entry_write (param i32 i32 i32)))
  (import "env" "field_entry_write" (func $field_entry_write (param i32 i32 i32)))
  (import "env" "actor_emit_event" (func $actor_emit_event (param i32 i32 i32 i32 i32)))
  (import "env" "sys_panic" (func $sys_panic (param i32 i32)))
  (import "env" "crypto_utils_keccak256_hash" (func $keccak (param i32 i32) (result i64)))
  (import "env" "test_host_read_memory" (func $tread (param i32 i32)))
  (import "env" "test_host_write_memory" (func $twrite (param i32 i32)))
  (memory $m {pages} {max})
  (export "memory" (memory $m))
  (func $hi (param i64) (result i32) (i32.wrap_i64 (i64.shr_u (local.get 0) (i64.const 32))))
  (func $lo (param i64) (result i32) (i32.wrap_i64 (local.get 0)))
  (func (export "ret") (param i64) (result i64) (local.get 0))
  (func (export "init") (result i64) (local $i i32) (local $n i32)
    (local.set $n (i32.mul (memory.size) (i32.const 65536)))
    (block $done
      (loop $l
        (br_if $done (i32.eq (local.get $i) (local.get $n)))
        (i32.store8 (local.get $i) (i32.add (i32.mul (local.get $i) (i32.const 7)) (i32.const 3)))
        (local.set $i (i32.add (local.get $i) (i32.const 1)))
        (br $l)))
    (i64.const 0))
  (func (export "size") (result i64) (i64.extend_i32_u (memory.size)))
  (func (export "grow") (param i64) (result i64)
    (drop (memory.grow (call $lo (local.get 0))))
    (i64.extend_i32_u (memory.size)))
  (func (export "panic") (param i64) (result i64)
    (call $sys_panic (call $hi (local.get 0)) (call $lo (local.get 0))) (i64.const 0))
  (func (export "keccak") (param i64) (result i64)
    (drop (call $keccak (call $hi (local.get 0)) (call $lo (local.get 0)))) (i64.const 0))
  (func (export "tread") (param i64) (result i64)
    (call $tread (call $hi (local.get 0)) (call $lo (local.get 0))) (i64.const 0))
  (func (export "twrite") (param i64) (result i64)
    (call $twrite (call $hi (local.get 0)) (call $lo (local.get 0))) (i64.const 0))
  (func (export "kvw") (param i64) (result i64)
    (call $kv_entry_write (i32.const 5) (call $hi (local.get 0)) (call $lo (local.get 0))) (i64.const 0))
  (func (export "fw") (param i64) (result i64)
    (call $field_entry_write (i32.const 6) (call $hi (local.get 0)) (call $lo (local.get 0))) (i64.const 0))
  (func (export "log") (param i64 i64) (result i64)
    (call $sys_log (call $hi (local.get 0)) (call $lo (local.get 0)) (call $hi (local.get 1)) (call $lo (local.get 1))) (i64.const 0))
  (func (export "event") (param i64 i64) (result i64)
    (call $actor_emit_event (call $hi (local.get 0)) (call $lo (local.get 0)) (call $hi (local.get 1)) (call $lo (local.get 1)) (i32.const 0)) (i64.const 0))
  (func (export "call") (param i64 i64 i64) (result i64)
    (drop (call $object_call (call $hi (local.get 0)) (call $lo (local.get 0)) (call $hi (local.get 1)) (call $lo (local.get 1)) (call $hi (local.get 2)) (call $lo (local.get 2)))) (i64.const 0))
  (func (export "bpcall") (param i64 i64 i64 i64) (result i64)
    (drop (call $blueprint_call (call $hi (local.get 0)) (call $lo (local.get 0)) (call $hi (local.get 1)) (call $lo (local.get 1)) (call $hi (local.get 2)) (call $lo (local.get 2)) (call $hi (local.get 3)) (call $lo (local.get 3)))) (i64.const 0))
  (func (export "consume") (param i64) (result i64)
    (call $buffer_consume (call $hi (local.get 0)) (call $lo (local.get 0))) (i64.const 0))
)"#,
        pages = pages,
        max = MAX_PAGES
    )
}

fn ck(b: &[u8]) -> u32 {
    b.iter().fold(0u32, |c, x| c.wrapping_mul(31).wrapping_add(*x as u32).wrapping_add(1))
}
fn pattern_mem(i: usize) -> u8 {
    (i.wrapping_mul(7).wrapping_add(3)) as u8
}
fn pattern_buf(len: usize) -> Vec<u8> {
    (0..len).map(|i| (i.wrapping_mul(13).wrapping_add(len)) as u8).collect()
}
const BUF_LIMIT: u64 = 300000;

/// recording runtime: every byte vector the engine read from guest memory is kept in `seen`
struct Rec {
    seen: Rc<RefCell<Vec<(&'static str, Vec<u8>)>>>,
}
impl Rec {
    fn consume(&mut self, id: BufferId) -> Result<Vec<u8>, InvokeError<WasmRuntimeError>> {
        if id as u64 > BUF_LIMIT {
            Err(InvokeError::SelfError(WasmRuntimeError::BufferNotFound(id)))
        } else {
            Ok(pattern_buf(id as usize))
        }
    }
}
struct SeenProxy<'a>(&'a Rc<RefCell<Vec<(&'static str, Vec<u8>)>>>);
impl<'a> SeenProxy<'a> {
    fn push(&self, v: (&'static str, Vec<u8>)) {
        self.0.borrow_mut().push(v)
    }
}

#[allow(unused_variables)]
impl WasmRuntime for Rec {
    fn allocate_buffer(&mut self, buffer: Vec<u8>) -> Result<Buffer, InvokeError<WasmRuntimeError>> { let _ = buffer; Ok(Buffer::new(0, 0)) }
    fn buffer_consume(&mut self, buffer_id: BufferId) -> Result<Vec<u8>, InvokeError<WasmRuntimeError>> { self.consume(buffer_id) }
    fn object_call(&mut self, receiver: Vec<u8>, ident: Vec<u8>, args: Vec<u8>) -> Result<Buffer, InvokeError<WasmRuntimeError>> { SeenProxy(&self.seen).push(("object_call.receiver", receiver)); SeenProxy(&self.seen).push(("object_call.ident", ident)); SeenProxy(&self.seen).push(("object_call.args", args)); Ok(Buffer::new(0, 0)) }
    fn object_call_module(&mut self, receiver: Vec<u8>, module_id: u32, ident: Vec<u8>, args: Vec<u8>) -> Result<Buffer, InvokeError<WasmRuntimeError>> { SeenProxy(&self.seen).push(("object_call_module.receiver", receiver)); let _ = module_id; SeenProxy(&self.seen).push(("object_call_module.ident", ident)); SeenProxy(&self.seen).push(("object_call_module.args", args)); Ok(Buffer::new(0, 0)) }
    fn object_call_direct(&mut self, receiver: Vec<u8>, ident: Vec<u8>, args: Vec<u8>) -> Result<Buffer, InvokeError<WasmRuntimeError>> { SeenProxy(&self.seen).push(("object_call_direct.receiver", receiver)); SeenProxy(&self.seen).push(("object_call_direct.ident", ident)); SeenProxy(&self.seen).push(("object_call_direct.args", args)); Ok(Buffer::new(0, 0)) }
    fn blueprint_call(&mut self, package_address: Vec<u8>, blueprint_name: Vec<u8>, ident: Vec<u8>, args: Vec<u8>) -> Result<Buffer, InvokeError<WasmRuntimeError>> { SeenProxy(&self.seen).push(("blueprint_call.package_address", package_address)); SeenProxy(&self.seen).push(("blueprint_call.blueprint_name", blueprint_name)); SeenProxy(&self.seen).push(("blueprint_call.ident", ident)); SeenProxy(&self.seen).push(("blueprint_call.args", args)); Ok(Buffer::new(0, 0)) }
    fn object_new(&mut self, blueprint_name: Vec<u8>, object_states: Vec<u8>) -> Result<Buffer, InvokeError<WasmRuntimeError>> { SeenProxy(&self.seen).push(("object_new.blueprint_name", blueprint_name)); SeenProxy(&self.seen).push(("object_new.object_states", object_states)); Ok(Buffer::new(0, 0)) }
    fn address_allocate(&mut self, package_address: Vec<u8>, blueprint_name: Vec<u8>) -> Result<Buffer, InvokeError<WasmRuntimeError>> { SeenProxy(&self.seen).push(("address_allocate.package_address", package_address)); SeenProxy(&self.seen).push(("address_allocate.blueprint_name", blueprint_name)); Ok(Buffer::new(0, 0)) }
    fn address_get_reservation_address(&mut self, node_id: Vec<u8>) -> Result<Buffer, InvokeError<WasmRuntimeError>> { SeenProxy(&self.seen).push(("address_get_reservation_address.node_id", node_id)); Ok(Buffer::new(0, 0)) }
    fn globalize_object(&mut self, node_id: Vec<u8>, modules: Vec<u8>, address: Vec<u8>) -> Result<Buffer, InvokeError<WasmRuntimeError>> { SeenProxy(&self.seen).push(("globalize_object.node_id", node_id)); SeenProxy(&self.seen).push(("globalize_object.modules", modules)); SeenProxy(&self.seen).push(("globalize_object.address", address)); Ok(Buffer::new(0, 0)) }
    fn key_value_store_new(&mut self, schema: Vec<u8>) -> Result<Buffer, InvokeError<WasmRuntimeError>> { SeenProxy(&self.seen).push(("key_value_store_new.schema", schema)); Ok(Buffer::new(0, 0)) }
    fn key_value_store_open_entry(&mut self, node_id: Vec<u8>, key: Vec<u8>, flags: u32) -> Result<SubstateHandle, InvokeError<WasmRuntimeError>> { SeenProxy(&self.seen).push(("key_value_store_open_entry.node_id", node_id)); SeenProxy(&self.seen).push(("key_value_store_open_entry.key", key)); let _ = flags; Ok(0) }
    fn key_value_entry_get(&mut self, handle: u32) -> Result<Buffer, InvokeError<WasmRuntimeError>> { let _ = handle; Ok(Buffer::new(0, 0)) }
    fn key_value_entry_set(&mut self, handle: u32, data: Vec<u8>) -> Result<(), InvokeError<WasmRuntimeError>> { let _ = handle; SeenProxy(&self.seen).push(("key_value_entry_set.data", data)); Ok(()) }
    fn key_value_entry_remove(&mut self, handle: u32) -> Result<Buffer, InvokeError<WasmRuntimeError>> { let _ = handle; Ok(Buffer::new(0, 0)) }
    fn key_value_entry_close(&mut self, handle: u32) -> Result<(), InvokeError<WasmRuntimeError>> { let _ = handle; Ok(()) }
    fn key_value_store_remove_entry(&mut self, node_id: Vec<u8>, key: Vec<u8>) -> Result<Buffer, InvokeError<WasmRuntimeError>> { SeenProxy(&self.seen).push(("key_value_store_remove_entry.node_id", node_id)); SeenProxy(&self.seen).push(("key_value_store_remove_entry.key", key)); Ok(Buffer::new(0, 0)) }
    fn instance_of(&mut self, object_id: Vec<u8>, package_address: Vec<u8>, blueprint_name: Vec<u8>) -> Result<u32, InvokeError<WasmRuntimeError>> { SeenProxy(&self.seen).push(("instance_of.object_id", object_id)); SeenProxy(&self.seen).push(("instance_of.package_address", package_address)); SeenProxy(&self.seen).push(("instance_of.blueprint_name", blueprint_name)); Ok(0) }
    fn blueprint_id(&mut self, object_id: Vec<u8>) -> Result<Buffer, InvokeError<WasmRuntimeError>> { SeenProxy(&self.seen).push(("blueprint_id.object_id", object_id)); Ok(Buffer::new(0, 0)) }
    fn get_outer_object(&mut self, component_id: Vec<u8>) -> Result<Buffer, InvokeError<WasmRuntimeError>> { SeenProxy(&self.seen).push(("get_outer_object.component_id", component_id)); Ok(Buffer::new(0, 0)) }
    fn actor_open_field(&mut self, object_handle: u32, field: u8, flags: u32) -> Result<SubstateHandle, InvokeError<WasmRuntimeError>> { let _ = object_handle; let _ = field; let _ = flags; Ok(0) }
    fn field_entry_read(&mut self, handle: SubstateHandle) -> Result<Buffer, InvokeError<WasmRuntimeError>> { let _ = handle; Ok(Buffer::new(0, 0)) }
    fn field_entry_write(&mut self, handle: SubstateHandle, data: Vec<u8>) -> Result<(), InvokeError<WasmRuntimeError>> { let _ = handle; SeenProxy(&self.seen).push(("field_entry_write.data", data)); Ok(()) }
    fn field_entry_close(&mut self, handle: SubstateHandle) -> Result<(), InvokeError<WasmRuntimeError>> { let _ = handle; Ok(()) }
    fn actor_get_node_id(&mut self, actor_ref_handle: ActorRefHandle) -> Result<Buffer, InvokeError<WasmRuntimeError>> { let _ = actor_ref_handle; Ok(Buffer::new(0, 0)) }
    fn actor_get_package_address(&mut self) -> Result<Buffer, InvokeError<WasmRuntimeError>> {  Ok(Buffer::new(0, 0)) }
    fn actor_get_blueprint_name(&mut self) -> Result<Buffer, InvokeError<WasmRuntimeError>> {  Ok(Buffer::new(0, 0)) }
    fn consume_wasm_execution_units(&mut self, n: u32) -> Result<(), InvokeError<WasmRuntimeError>> { let _ = n; Ok(()) }
    fn costing_get_execution_cost_unit_limit(&mut self) -> Result<u32, InvokeError<WasmRuntimeError>> {  Ok(0) }
    fn costing_get_execution_cost_unit_price(&mut self) -> Result<Buffer, InvokeError<WasmRuntimeError>> {  Ok(Buffer::new(0, 0)) }
    fn costing_get_finalization_cost_unit_limit(&mut self) -> Result<u32, InvokeError<WasmRuntimeError>> {  Ok(0) }
    fn costing_get_finalization_cost_unit_price(&mut self) -> Result<Buffer, InvokeError<WasmRuntimeError>> {  Ok(Buffer::new(0, 0)) }
    fn costing_get_usd_price(&mut self) -> Result<Buffer, InvokeError<WasmRuntimeError>> {  Ok(Buffer::new(0, 0)) }
    fn costing_get_tip_percentage(&mut self) -> Result<u32, InvokeError<WasmRuntimeError>> {  Ok(0) }
    fn costing_get_fee_balance(&mut self) -> Result<Buffer, InvokeError<WasmRuntimeError>> {  Ok(Buffer::new(0, 0)) }
    fn actor_emit_event(&mut self, event_name: Vec<u8>, event_payload: Vec<u8>, event_flags: EventFlags) -> Result<(), InvokeError<WasmRuntimeError>> { SeenProxy(&self.seen).push(("actor_emit_event.event_name", event_name)); SeenProxy(&self.seen).push(("actor_emit_event.event_payload", event_payload)); let _ = event_flags; Ok(()) }
    fn sys_log(&mut self, level: Vec<u8>, message: Vec<u8>) -> Result<(), InvokeError<WasmRuntimeError>> { SeenProxy(&self.seen).push(("sys_log.level", level)); SeenProxy(&self.seen).push(("sys_log.message", message)); Ok(()) }
    fn sys_bech32_encode_address(&mut self, address: Vec<u8>) -> Result<Buffer, InvokeError<WasmRuntimeError>> { SeenProxy(&self.seen).push(("sys_bech32_encode_address.address", address)); Ok(Buffer::new(0, 0)) }
    fn sys_get_transaction_hash(&mut self) -> Result<Buffer, InvokeError<WasmRuntimeError>> {  Ok(Buffer::new(0, 0)) }
    fn sys_generate_ruid(&mut self) -> Result<Buffer, InvokeError<WasmRuntimeError>> {  Ok(Buffer::new(0, 0)) }
    fn sys_panic(&mut self, message: Vec<u8>) -> Result<(), InvokeError<WasmRuntimeError>> { SeenProxy(&self.seen).push(("sys_panic.message", message)); Ok(()) }
    fn crypto_utils_bls12381_v1_verify(&mut self, message: Vec<u8>, public_key: Vec<u8>, signature: Vec<u8>) -> Result<u32, InvokeError<WasmRuntimeError>> { SeenProxy(&self.seen).push(("crypto_utils_bls12381_v1_verify.message", message)); SeenProxy(&self.seen).push(("crypto_utils_bls12381_v1_verify.public_key", public_key)); SeenProxy(&self.seen).push(("crypto_utils_bls12381_v1_verify.signature", signature)); Ok(0) }
    fn crypto_utils_bls12381_v1_aggregate_verify(&mut self, pub_keys_and_msgs: Vec<u8>, signatures: Vec<u8>) -> Result<u32, InvokeError<WasmRuntimeError>> { SeenProxy(&self.seen).push(("crypto_utils_bls12381_v1_aggregate_verify.pub_keys_and_msgs", pub_keys_and_msgs)); SeenProxy(&self.seen).push(("crypto_utils_bls12381_v1_aggregate_verify.signatures", signatures)); Ok(0) }
    fn crypto_utils_bls12381_v1_fast_aggregate_verify(&mut self, message: Vec<u8>, public_keys: Vec<u8>, signatures: Vec<u8>) -> Result<u32, InvokeError<WasmRuntimeError>> { SeenProxy(&self.seen).push(("crypto_utils_bls12381_v1_fast_aggregate_verify.message", message)); SeenProxy(&self.seen).push(("crypto_utils_bls12381_v1_fast_aggregate_verify.public_keys", public_keys)); SeenProxy(&self.seen).push(("crypto_utils_bls12381_v1_fast_aggregate_verify.signatures", signatures)); Ok(0) }
    fn crypto_utils_bls12381_g2_signature_aggregate(&mut self, signatures: Vec<u8>) -> Result<Buffer, InvokeError<WasmRuntimeError>> { SeenProxy(&self.seen).push(("crypto_utils_bls12381_g2_signature_aggregate.signatures", signatures)); Ok(Buffer::new(0, 0)) }
    fn crypto_utils_keccak256_hash(&mut self, data: Vec<u8>) -> Result<Buffer, InvokeError<WasmRuntimeError>> { SeenProxy(&self.seen).push(("crypto_utils_keccak256_hash.data", data)); Ok(Buffer::new(0, 0)) }
    fn crypto_utils_blake2b_256_hash(&mut self, data: Vec<u8>) -> Result<Buffer, InvokeError<WasmRuntimeError>> { SeenProxy(&self.seen).push(("crypto_utils_blake2b_256_hash.data", data)); Ok(Buffer::new(0, 0)) }
    fn crypto_utils_ed25519_verify(&mut self, message: Vec<u8>, public_key: Vec<u8>, signature: Vec<u8>) -> Result<u32, InvokeError<WasmRuntimeError>> { SeenProxy(&self.seen).push(("crypto_utils_ed25519_verify.message", message)); SeenProxy(&self.seen).push(("crypto_utils_ed25519_verify.public_key", public_key)); SeenProxy(&self.seen).push(("crypto_utils_ed25519_verify.signature", signature)); Ok(0) }
    fn crypto_utils_secp256k1_ecdsa_verify(&mut self, message: Vec<u8>, public_key: Vec<u8>, signature: Vec<u8>) -> Result<u32, InvokeError<WasmRuntimeError>> { SeenProxy(&self.seen).push(("crypto_utils_secp256k1_ecdsa_verify.message", message)); SeenProxy(&self.seen).push(("crypto_utils_secp256k1_ecdsa_verify.public_key", public_key)); SeenProxy(&self.seen).push(("crypto_utils_secp256k1_ecdsa_verify.signature", signature)); Ok(0) }
    fn crypto_utils_secp256k1_ecdsa_verify_and_key_recover(&mut self, message: Vec<u8>, signature: Vec<u8>) -> Result<Buffer, InvokeError<WasmRuntimeError>> { SeenProxy(&self.seen).push(("crypto_utils_secp256k1_ecdsa_verify_and_key_recover.message", message)); SeenProxy(&self.seen).push(("crypto_utils_secp256k1_ecdsa_verify_and_key_recover.signature", signature)); Ok(Buffer::new(0, 0)) }
    fn crypto_utils_secp256k1_ecdsa_verify_and_key_recover_uncompressed(&mut self, message: Vec<u8>, signature: Vec<u8>) -> Result<Buffer, InvokeError<WasmRuntimeError>> { SeenProxy(&self.seen).push(("crypto_utils_secp256k1_ecdsa_verify_and_key_recover_uncompressed.message", message)); SeenProxy(&self.seen).push(("crypto_utils_secp256k1_ecdsa_verify_and_key_recover_uncompressed.signature", signature)); Ok(Buffer::new(0, 0)) }
}

fn parse_u64(s: &str) -> Option<u64> {
    if s.is_empty() || !s.bytes().all(|b| b.is_ascii_digit()) || (s.len() > 1 && s.starts_with('0')) {
        return None;
    }
    s.parse().ok()
}
fn parse_i64(s: &str) -> Option<i64> {
    let body = s.strip_prefix('-').unwrap_or(s);
    if body.is_empty() || !body.bytes().all(|b| b.is_ascii_digit()) || (body.len() > 1 && body.starts_with('0')) || s == "-0" {
        return None;
    }
    s.parse().ok()
}
fn parse_u32(s: &str) -> Option<u64> {
    parse_u64(s).filter(|v| *v <= u32::MAX as u64)
}

// ---------------------------------------------------------------- generator
fn gen_ptr(rng: &mut Rng, size: u64) -> u64 {
    match rng.below(10) {
        0 => 0,
        1 => size,
        2 => size - 1,
        3 => size + 1,
        4 => u32::MAX as u64 - rng.below(3),
        5 => size - 1 - rng.below(64),
        6 => rng.below(u32::MAX as u64 + 1),
        7 => (rng.below(MAX_PAGES) + 1) * PAGE as u64 + rng.below(3) - 1,
        _ => rng.below(size),
    }
    .min(u32::MAX as u64)
}
fn gen_pair(rng: &mut Rng, size: u64) -> (u64, u64) {
    let p = gen_ptr(rng, size);
    let room = size.saturating_sub(p);
    let l = match rng.below(12) {
        0 => 0,
        1 => room,
        2 => room + 1,
        3 => room.saturating_sub(1),
        4 => u32::MAX as u64 - rng.below(2),
        5 => (u32::MAX as u64 + 1 - p).min(u32::MAX as u64), // ptr + len = 2^32 (would wrap in 32-bit arithmetic)
        6 => (u32::MAX as u64 + 1 - p + rng.below(4)).min(u32::MAX as u64),
        7 => rng.below(u32::MAX as u64 + 1),
        8 => size,
        _ => rng.below(room.min(300) + 1),
    };
    (p, l.min(u32::MAX as u64))
}
fn gen_small_ok(rng: &mut Rng, size: u64) -> (u64, u64) {
    let p = rng.below(size);
    (p, rng.below((size - p).min(64) + 1))
}

impl Area for A {
    fn gen(&self, rng: &mut Rng, n: usize, out: &mut dyn Write) {
        for _ in 0..n {
            // mostly one page (the Lean model walks the memory as a list), sometimes 2 or 3
            let mut pages = match rng.below(10) { 0..=6 => 1, 7..=8 => 2, _ => 3 };
            writeln!(out, "reset {}", pages).unwrap();
            let len = 1 + rng.below(14);
            for _ in 0..len {
                let size = pages * PAGE as u64;
                match rng.below(20) {
                    0..=4 => {
                        let (p, l) = gen_pair(rng, size);
                        let x = if rng.chance(1, 12) { rng.next() } else { (p << 32) | l };
                        writeln!(out, "ret {}", x).unwrap();
                    }
                    5..=10 => {
                        let (f, k) = *rng.pick(&[("panic", 1), ("keccak", 1), ("tread", 1), ("kvw", 1), ("fw", 1), ("log", 2), ("event", 2), ("call", 3), ("bpcall", 4)]);
                        let bad = if rng.chance(1, 2) { rng.below(k) as i64 } else { -1 };
                        let mut s = format!("host {}", f);
                        for i in 0..k {
                            let (p, l) = if i as i64 == bad { gen_pair(rng, size) } else { gen_small_ok(rng, size) };
                            s += &format!(" {} {}", p, l);
                        }
                        writeln!(out, "{}", s).unwrap();
                    }
                    11..=14 => {
                        let dest = gen_ptr(rng, size);
                        let room = size.saturating_sub(dest);
                        let l = match rng.below(8) {
                            0 => 0,
                            1 => room,
                            2 => room + 1,
                            3 => room.saturating_sub(1),
                            4 => BUF_LIMIT + 1 + rng.below(10),
                            5 => rng.below(BUF_LIMIT + 1),
                            _ => rng.below(room.min(200) + 1),
                        };
                        writeln!(out, "consume {} {}", l, dest).unwrap();
                    }
                    15..=16 => {
                        let (p, l) = gen_pair(rng, size);
                        // keep the zero vector allocated by the host function reasonable
                        let l = if l > 1 << 20 { *rng.pick(&[l % (1 << 20), 1 << 20, (1 << 20) + 1]) } else { l };
                        writeln!(out, "twrite {} {}", p, l).unwrap();
                    }
                    17 => {
                        let g = rng.below(4);
                        writeln!(out, "grow {}", g).unwrap();
                        if pages + g <= MAX_PAGES {
                            pages += g;
                        }
                    }
                    18 => writeln!(out, "dump").unwrap(),
                    _ => match rng.below(4) {
                        0 => writeln!(out, "slice {} {}", rng.below(1 << 32), rng.below(1 << 32)).unwrap(),
                        1 => writeln!(out, "unslice {}", rng.next() as i64).unwrap(),
                        2 => writeln!(out, "unslice {}", *rng.pick(&[0i64, -1, i64::MIN, i64::MAX, 1 << 32, (1 << 32) - 1, -(1 << 32)])).unwrap(),
                        _ => writeln!(out, "{}", rng.pick(&["ret", "ret x", "ret 18446744073709551616", "host", "host nope 1 2", "host log 1 2", "host panic 4294967296 0", "consume 1", "twrite 1", "grow", "slice 1", "slice 4294967296 0", "unslice 9223372036854775808", "frob 1", "reset 0", "ret 01"])).unwrap(),
                    },
                }
            }
            writeln!(out, "dump").unwrap();
        }
    }
    fn runner(&self) -> Box<dyn Runner> {
        Box::new(R { inst: None, shadow: vec![], modules: Default::default() })
    }
    fn consts(&self) -> Vec<(String, String)> {
        // Slice packing constants as the compiled code behaves
        let s = Slice::new(1, 0);
        let shift = s.0.trailing_zeros();
        let t = Slice::new(0, u32::MAX);
        vec![
            ("SLICE_PTR_SHIFT".into(), shift.to_string()),
            ("SLICE_LEN_MASK".into(), t.0.to_string()),
            ("USIZE_BITS".into(), usize::BITS.to_string()),
            ("WASM_PAGE_SIZE".into(), PAGE.to_string()),
        ]
    }
}

struct R {
    inst: Option<WasmiInstance>,
    /// oracle: what the guest memory must contain, maintained from the *intended* effect of each op
    shadow: Vec<u8>,
    modules: std::collections::BTreeMap<u64, WasmiModule>,
}

enum Out {
    Ok(Vec<u8>, Vec<(&'static str, Vec<u8>)>),
    MemErr,
    BufNotFound,
    Other(String),
    Panic(String),
}

impl R {
    fn invoke(&mut self, name: &str, args: &[u64]) -> Out {
        let seen = Rc::new(RefCell::new(vec![]));
        let inst = self.inst.as_mut().unwrap();
        let mut rt: Box<dyn WasmRuntime> = Box::new(Rec { seen: seen.clone() });
        let bufs: Vec<Buffer> = args.iter().map(|a| Buffer(*a)).collect();
        let r = catch(|| inst.invoke_export(name, bufs, &mut rt));
        let s = seen.borrow().clone();
        match r {
            Err(m) => Out::Panic(m),
            Ok(Ok(v)) => Out::Ok(v, s),
            Ok(Err(InvokeError::SelfError(WasmRuntimeError::MemoryAccessError))) => Out::MemErr,
            Ok(Err(InvokeError::SelfError(WasmRuntimeError::BufferNotFound(_)))) => Out::BufNotFound,
            Ok(Err(e)) => Out::Other(format!("{:?}", e)),
        }
    }
    /// whole guest memory through the engine's own read_slice
    fn dump(&mut self) -> Option<Vec<u8>> {
        let size = self.shadow.len() as u64;
        match self.invoke("ret", &[size]) {
            // Slice(ptr = 0, len = size)
            Out::Ok(v, _) => Some(v),
            _ => None,
        }
    }
    fn verify_frame(&mut self, ans: String, what: &str) -> Answer {
        match self.dump() {
            Some(v) if v == self.shadow => Answer::ok(ans),
            Some(v) => {
                let first = v.iter().zip(self.shadow.iter()).position(|(a, b)| a != b);
                Answer::fail(ans, format!("write-frame:{}", what), format!("guest memory differs from the intended effect (len {} vs {}, first difference at {:?})", v.len(), self.shadow.len(), first))
            }
            None => Answer::fail(ans, "dump-failed", "could not read back the whole memory"),
        }
    }
}

fn unexpected(o: Out, line: &str) -> Answer {
    match o {
        Out::Panic(m) => Answer::fail("panic", "panic", format!("host call panicked on `{}`: {}", line, m)),
        Out::Other(e) => Answer::fail(format!("err other"), "unexpected-error", format!("`{}` failed with {} (neither success nor MemoryAccessError)", line, e)),
        Out::BufNotFound => Answer::fail("err BufferNotFound", "unexpected-error", "BufferNotFound where no buffer is consumed"),
        Out::MemErr => Answer::ok("err MemoryAccess"),
        Out::Ok(..) => Answer::ok("ok"),
    }
}

impl Runner for R {
    fn step(&mut self, line: &str) -> Answer {
        let t: Vec<&str> = line.split(' ').collect();
        if t[0] == "reset" && t.len() == 2 {
            let Some(p) = parse_u64(t[1]).filter(|p| (1..=MAX_PAGES).contains(p)) else { return Answer::ok("bad-op") };
            if !self.modules.contains_key(&p) {
                let code = wat::parse_str(wat_source(p)).expect("wat");
                self.modules.insert(p, WasmiModule::new(&code).expect("module"));
            }
            self.inst = Some(self.modules[&p].instantiate().expect("instantiate"));
            self.shadow = (0..(p as usize * PAGE)).map(pattern_mem).collect();
            return match self.invoke("init", &[]) {
                Out::Ok(..) => self.verify_frame("ok".into(), "init"),
                o => unexpected(o, line),
            };
        }
        if t[0] == "slice" && t.len() == 3 {
            let (Some(p), Some(l)) = (parse_u32(t[1]), parse_u32(t[2])) else { return Answer::ok("bad-op") };
            let s = Slice::new(p as u32, l as u32);
            let ans = format!("ok {} {} {} {}", s.0, s.ptr(), s.len(), s.as_i64());
            let back = Slice::transmute_i64(s.as_i64());
            if s.ptr() as u64 != p || s.len() as u64 != l || back.ptr() as u64 != p || back.len() as u64 != l {
                return Answer::fail(ans, "slice-pack", "Slice::new / ptr / len / transmute_i64 do not round-trip");
            }
            return Answer::ok(ans);
        }
        if t[0] == "unslice" && t.len() == 2 {
            let Some(i) = parse_i64(t[1]) else { return Answer::ok("bad-op") };
            let s = Slice::transmute_i64(i);
            let ans = format!("ok {} {}", s.ptr(), s.len());
            if Slice::new(s.ptr(), s.len()).as_i64() != i {
                return Answer::fail(ans, "slice-pack", "transmute_i64 then new does not give the value back");
            }
            return Answer::ok(ans);
        }
        if self.inst.is_none() {
            return Answer::ok("bad-op");
        }
        let size = self.shadow.len() as u64;
        match t[0] {
            "ret" if t.len() == 2 => {
                let Some(x) = parse_u64(t[1]) else { return Answer::ok("bad-op") };
                let (p, l) = (x >> 32, x & 0xffff_ffff);
                let inb = p + l <= size;
                match self.invoke("ret", &[x]) {
                    Out::Ok(v, _) => {
                        let ans = format!("ok {} {}", v.len(), ck(&v));
                        if !inb {
                            return Answer::fail(ans, "read-bounds:accepted-out-of-range", format!("read_slice(ptr={}, len={}) succeeded with memory size {}", p, l, size));
                        }
                        if v != self.shadow[p as usize..(p + l) as usize] {
                            return Answer::fail(ans, "read-bytes", format!("read_slice(ptr={}, len={}) returned other bytes than memory[ptr..ptr+len]", p, l));
                        }
                        Answer::ok(ans)
                    }
                    Out::MemErr if inb => Answer::fail("err MemoryAccess", "read-bounds:rejected-in-range", format!("read_slice(ptr={}, len={}) refused with memory size {}", p, l, size)),
                    o => unexpected(o, line),
                }
            }
            "host" if t.len() >= 2 => {
                let k = match t[1] {
                    "panic" | "keccak" | "tread" | "kvw" | "fw" => 1,
                    "log" | "event" => 2,
                    "call" => 3,
                    "bpcall" => 4,
                    _ => return Answer::ok("bad-op"),
                };
                if t.len() != 2 + 2 * k {
                    return Answer::ok("bad-op");
                }
                let mut pairs = vec![];
                for i in 0..k {
                    let (Some(p), Some(l)) = (parse_u32(t[2 + 2 * i]), parse_u32(t[3 + 2 * i])) else { return Answer::ok("bad-op") };
                    pairs.push((p, l));
                }
                let args: Vec<u64> = pairs.iter().map(|(p, l)| (p << 32) | l).collect();
                let all_in = pairs.iter().all(|(p, l)| p + l <= size);
                match self.invoke(t[1], &args) {
                    Out::Ok(_, seen) => {
                        // test_host_read_memory drops the bytes; everything else hands them to the runtime
                        let got: Vec<Vec<u8>> = seen.into_iter().map(|s| s.1).collect();
                        let ans = if t[1] == "tread" {
                            "ok".to_string()
                        } else {
                            format!("ok {}", got.iter().map(|g| format!("{}:{}", g.len(), ck(g))).collect::<Vec<_>>().join(" "))
                        };
                        if !all_in {
                            return Answer::fail(ans, "read-bounds:accepted-out-of-range", format!("`{}` succeeded with memory size {}", line, size));
                        }
                        if t[1] != "tread" {
                            if got.len() != k {
                                return Answer::fail(ans, "read-bytes", "the runtime did not receive one vector per buffer argument");
                            }
                            for (g, (p, l)) in got.iter().zip(pairs.iter()) {
                                if g[..] != self.shadow[*p as usize..(*p + *l) as usize] {
                                    return Answer::fail(ans, "read-bytes", format!("host function received other bytes than memory[{}..{}+{}]", p, p, l));
                                }
                            }
                        }
                        self.verify_frame(ans, "host-read")
                    }
                    Out::MemErr if all_in => Answer::fail("err MemoryAccess", "read-bounds:rejected-in-range", format!("`{}` refused with memory size {}", line, size)),
                    o => unexpected(o, line),
                }
            }
            "consume" if t.len() == 3 => {
                let (Some(len), Some(dest)) = (parse_u32(t[1]), parse_u32(t[2])) else { return Answer::ok("bad-op") };
                let o = self.invoke("consume", &[(len << 32) | dest]);
                if len > BUF_LIMIT {
                    return match o {
                        Out::BufNotFound => self.verify_frame("err BufferNotFound".into(), "consume-missing"),
                        Out::Ok(..) => Answer::fail("ok", "unexpected-error", "consume of a missing buffer succeeded"),
                        o => unexpected(o, line),
                    };
                }
                let inb = dest + len <= size;
                match o {
                    Out::Ok(..) => {
                        if !inb {
                            return Answer::fail("ok", "write-bounds:accepted-out-of-range", format!("buffer_consume wrote {} bytes at {} with memory size {}", len, dest, size));
                        }
                        let data = pattern_buf(len as usize);
                        self.shadow[dest as usize..(dest + len) as usize].copy_from_slice(&data);
                        self.verify_frame("ok".into(), "consume")
                    }
                    Out::MemErr => {
                        if inb {
                            return Answer::fail("err MemoryAccess", "write-bounds:rejected-in-range", format!("buffer_consume refused {} bytes at {} with memory size {}", len, dest, size));
                        }
                        self.verify_frame("err MemoryAccess".into(), "consume-rejected")
                    }
                    o => unexpected(o, line),
                }
            }
            "twrite" if t.len() == 3 => {
                let (Some(p), Some(l)) = (parse_u32(t[1]), parse_u32(t[2])) else { return Answer::ok("bad-op") };
                if l > (1 << 20) + 1 {
                    return Answer::ok("bad-op"); // the test hook allocates `l` bytes; keep it small
                }
                let inb = p + l <= size;
                match self.invoke("twrite", &[(p << 32) | l]) {
                    Out::Ok(..) => {
                        if !inb {
                            return Answer::fail("ok", "write-bounds:accepted-out-of-range", format!("write_memory({}, {} bytes) succeeded with memory size {}", p, l, size));
                        }
                        for b in &mut self.shadow[p as usize..(p + l) as usize] {
                            *b = 0;
                        }
                        self.verify_frame("ok".into(), "twrite")
                    }
                    Out::MemErr => {
                        if inb {
                            return Answer::fail("err MemoryAccess", "write-bounds:rejected-in-range", format!("write_memory({}, {} bytes) refused with memory size {}", p, l, size));
                        }
                        self.verify_frame("err MemoryAccess".into(), "twrite-rejected")
                    }
                    o => unexpected(o, line),
                }
            }
            "grow" if t.len() == 2 => {
                let Some(g) = parse_u32(t[1]) else { return Answer::ok("bad-op") };
                match self.invoke("grow", &[g]) {
                    // the export returns Slice(0, pages): the engine reads `pages` bytes at 0
                    Out::Ok(v, _) => {
                        let pages = v.len();
                        let expect = if size / PAGE as u64 + g <= MAX_PAGES { size as usize / PAGE + g as usize } else { size as usize / PAGE };
                        let ans = format!("ok {}", pages);
                        if pages != expect {
                            return Answer::fail(ans, "grow", format!("memory has {} pages, expected {}", pages, expect));
                        }
                        self.shadow.resize(pages * PAGE, 0);
                        self.verify_frame(ans, "grow")
                    }
                    o => unexpected(o, line),
                }
            }
            "dump" if t.len() == 1 => match self.dump() {
                Some(v) => {
                    let ans = format!("ok {} {}", v.len(), ck(&v));
                    if v != self.shadow {
                        return Answer::fail(ans, "write-frame:dump", "guest memory differs from the intended effect of the ops");
                    }
                    Answer::ok(ans)
                }
                None => Answer::fail("err", "dump-failed", "could not read the whole memory"),
            },
            _ => Answer::ok("bad-op"),
        }
    }
}

fn main() {
    main_with(&[("c47", &A)]);
}
