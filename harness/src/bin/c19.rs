//! C19 — crash points of `RocksDBWithMerkleTreeSubstateStore::commit`, and
//! C15 — observational equivalence of the three substate stores.
//!
//! Crash enumeration needs no hook inside /repo: every individual write of a commit
//! (`put_cf`, `delete_cf`, `delete_range_cf`, `write(batch)`) appends exactly one logical record
//! to RocksDB's write-ahead log. After a complete commit the store directory is copied, the WAL
//! of the copy is truncated at the end of the j-th record (j = 0..=J) and the copy is reopened:
//! that is the state a process would find if it had stopped right after the j-th write.
use harness::util::*;
use radix_common::prelude::*;
use radix_substate_store_impls::memory_db::InMemorySubstateDatabase;
use radix_substate_store_impls::rocks_db::RocksdbSubstateStore;
use radix_substate_store_impls::rocks_db_with_merkle_tree::RocksDBWithMerkleTreeSubstateStore;
use radix_substate_store_impls::state_tree::tree_store::TypedInMemoryTreeStore;
use radix_substate_store_impls::state_tree::{list_substate_hashes_at_version, put_at_next_version};
use radix_substate_store_interface::interface::*;
use std::collections::BTreeMap;
use std::io::Write;
use std::path::{Path, PathBuf};

// ------------------------------------------------------------------------------------ updates text
// commit text:  <node>:<part>:<D|R>:<key>=<val>,<key>=~,...;...      (hex; `~` = delete; `-` = empty list)

type Content = BTreeMap<(Vec<u8>, u8), BTreeMap<Vec<u8>, Vec<u8>>>;

fn parse_updates(s: &str) -> Option<DatabaseUpdates> {
    let mut du = DatabaseUpdates::default();
    if s == "-" {
        return Some(du);
    }
    for part in s.split(';') {
        let f: Vec<&str> = part.split(':').collect();
        if f.len() != 4 {
            return None;
        }
        let node = unhex(f[0])?;
        let pn: u8 = f[1].parse().ok()?;
        let mut sets: IndexMap<DbSortKey, DatabaseUpdate> = index_map_new();
        if f[3] != "-" {
            for kv in f[3].split(',') {
                let (k, v) = kv.split_once('=')?;
                let k = unhex(k)?;
                if v == "~" {
                    sets.insert(DbSortKey(k), DatabaseUpdate::Delete);
                } else {
                    sets.insert(DbSortKey(k), DatabaseUpdate::Set(unhex(v)?));
                }
            }
        }
        let pu = match f[2] {
            "D" => PartitionDatabaseUpdates::Delta { substate_updates: sets },
            "R" => {
                let mut m = index_map_new();
                for (k, u) in sets {
                    match u {
                        DatabaseUpdate::Set(v) => {
                            m.insert(k, v);
                        }
                        DatabaseUpdate::Delete => return None,
                    }
                }
                PartitionDatabaseUpdates::Reset { new_substate_values: m }
            }
            _ => return None,
        };
        du.node_updates.entry(node).or_insert_with(NodeDatabaseUpdates::default).partition_updates.insert(pn, pu);
    }
    Some(du)
}

/// independent reference semantics of a commit on plain ordered maps
fn apply_content(c: &mut Content, du: &DatabaseUpdates) {
    for (nk, nu) in &du.node_updates {
        for (pn, pu) in &nu.partition_updates {
            let key = (nk.clone(), *pn);
            match pu {
                PartitionDatabaseUpdates::Delta { substate_updates } => {
                    for (sk, u) in substate_updates {
                        match u {
                            DatabaseUpdate::Set(v) => {
                                c.entry(key.clone()).or_default().insert(sk.0.clone(), v.clone());
                            }
                            DatabaseUpdate::Delete => {
                                if let Some(p) = c.get_mut(&key) {
                                    p.remove(&sk.0);
                                }
                            }
                        }
                    }
                }
                PartitionDatabaseUpdates::Reset { new_substate_values } => {
                    c.remove(&key);
                    for (sk, v) in new_substate_values {
                        c.entry(key.clone()).or_default().insert(sk.0.clone(), v.clone());
                    }
                }
            }
            if c.get(&key).map(|p| p.is_empty()).unwrap_or(false) {
                c.remove(&key);
            }
        }
    }
}

fn read_content<S: SubstateDatabase + ListableSubstateDatabase>(db: &S) -> Content {
    let mut c = Content::new();
    for pk in db.list_partition_keys() {
        let entries: BTreeMap<Vec<u8>, Vec<u8>> = db.list_raw_values_from_db_key(&pk, None).map(|(k, v)| (k.0, v)).collect();
        if !entries.is_empty() {
            c.insert((pk.node_key.clone(), pk.partition_num), entries);
        }
    }
    c
}

/// root of a from-scratch state tree over `c` (by C17 the root is a function of the content only)
fn root_of_content(c: &Content) -> Hash {
    let store = TypedInMemoryTreeStore::new();
    let mut du = DatabaseUpdates::default();
    for ((nk, pn), entries) in c {
        let m: IndexMap<DbSortKey, Vec<u8>> = entries.iter().map(|(k, v)| (DbSortKey(k.clone()), v.clone())).collect();
        du.node_updates.entry(nk.clone()).or_insert_with(NodeDatabaseUpdates::default).partition_updates.insert(*pn, PartitionDatabaseUpdates::Reset { new_substate_values: m });
    }
    put_at_next_version(&store, None, &du)
}

fn gen_updates(rng: &mut Rng, big: bool) -> String {
    let nparts = 1 + rng.below(if big { 4 } else { 3 });
    let mut parts = vec![];
    let mut seen = std::collections::BTreeSet::new();
    for _ in 0..nparts {
        let node = vec![0xA0 + rng.below(3) as u8; 3];
        let pn = rng.below(3) as u8;
        if !seen.insert((node.clone(), pn)) {
            continue;
        }
        let reset = rng.chance(1, 4);
        let nk = if reset { rng.below(4) } else { 1 + rng.below(4) };
        let mut kvs = vec![];
        let mut ks = std::collections::BTreeSet::new();
        for _ in 0..nk {
            let k = vec![rng.below(6) as u8, rng.below(2) as u8];
            if !ks.insert(k.clone()) {
                continue;
            }
            if !reset && rng.chance(1, 3) {
                kvs.push(format!("{}=~", hex(&k)));
            } else {
                let vl = 1 + rng.below(4) as usize;
                let v = rng.bytes(vl);
                kvs.push(format!("{}={}", hex(&k), hex(&v)));
            }
        }
        let body = if kvs.is_empty() { "-".to_string() } else { kvs.join(",") };
        parts.push(format!("{}:{}:{}:{}", hex(&node), pn, if reset { "R" } else { "D" }, body));
    }
    parts.join(";")
}

// ------------------------------------------------------------------------------------ WAL parsing
const BLOCK: usize = 32768;

/// end offsets of the logical records of a RocksDB log file (legacy 7-byte headers; recyclable 11-byte)
fn wal_record_ends(data: &[u8]) -> Vec<(usize, Vec<u8>)> {
    let mut out = vec![];
    let mut pos = 0usize;
    let mut cur: Vec<u8> = vec![];
    while pos + 7 <= data.len() {
        let block_left = BLOCK - (pos % BLOCK);
        if block_left < 7 {
            pos += block_left;
            continue;
        }
        let len = u16::from_le_bytes([data[pos + 4], data[pos + 5]]) as usize;
        let ty = data[pos + 6];
        let hdr = if (5..=8).contains(&ty) { 11 } else { 7 };
        if ty == 0 && len == 0 {
            break; // zero padding / preallocated tail
        }
        if pos + hdr + len > data.len() {
            break;
        }
        cur.extend_from_slice(&data[pos + hdr..pos + hdr + len]);
        pos += hdr + len;
        match ty {
            1 | 5 | 4 | 8 => {
                out.push((pos, std::mem::take(&mut cur)));
            }
            2 | 3 | 6 | 7 => {}
            _ => break,
        }
    }
    out
}

fn varint(b: &[u8], p: &mut usize) -> Option<usize> {
    let mut r = 0usize;
    let mut sh = 0;
    loop {
        let x = *b.get(*p)?;
        *p += 1;
        r |= ((x & 0x7f) as usize) << sh;
        if x & 0x80 == 0 {
            return Some(r);
        }
        sh += 7;
        if sh > 35 {
            return None;
        }
    }
}
fn slice<'a>(b: &'a [u8], p: &mut usize) -> Option<&'a [u8]> {
    let n = varint(b, p)?;
    let s = b.get(*p..*p + n)?;
    *p += n;
    Some(s)
}

/// (cf id, kind) of every operation of one WriteBatch payload; kind in {put, del, delrange, other}
fn batch_ops(rep: &[u8]) -> Option<Vec<(usize, &'static str)>> {
    if rep.len() < 12 {
        return None;
    }
    let mut p = 12;
    let mut ops = vec![];
    while p < rep.len() {
        let tag = rep[p];
        p += 1;
        match tag {
            0x1 => { slice(rep, &mut p)?; slice(rep, &mut p)?; ops.push((0, "put")); }
            0x0 | 0x7 => { slice(rep, &mut p)?; ops.push((0, "del")); }
            0xF => { slice(rep, &mut p)?; slice(rep, &mut p)?; ops.push((0, "delrange")); }
            0x5 => { let cf = varint(rep, &mut p)?; slice(rep, &mut p)?; slice(rep, &mut p)?; ops.push((cf, "put")); }
            0x4 | 0x8 => { let cf = varint(rep, &mut p)?; slice(rep, &mut p)?; ops.push((cf, "del")); }
            0xE => { let cf = varint(rep, &mut p)?; slice(rep, &mut p)?; slice(rep, &mut p)?; ops.push((cf, "delrange")); }
            0x3 => { slice(rep, &mut p)?; }
            0xD => {}
            _ => return None,
        }
    }
    Some(ops)
}

// CF ids are assigned in creation order by `with_options`: default=0, meta=1, substates=2, merkle_nodes=3, stale=4
const CF_META: usize = 1;
const CF_SUBSTATES: usize = 2;
const CF_NODES: usize = 3;
const CF_STALE: usize = 4;

fn copy_dir(from: &Path, to: &Path) {
    std::fs::create_dir_all(to).unwrap();
    for e in std::fs::read_dir(from).unwrap() {
        let e = e.unwrap();
        let n = e.file_name();
        if n == "LOCK" {
            continue;
        }
        if e.file_type().unwrap().is_file() {
            std::fs::copy(e.path(), to.join(n)).unwrap();
        }
    }
}

fn newest_log(dir: &Path) -> Option<PathBuf> {
    let mut logs: Vec<PathBuf> = std::fs::read_dir(dir).unwrap().filter_map(|e| e.ok()).map(|e| e.path()).filter(|p| p.extension().map(|x| x == "log").unwrap_or(false)).collect();
    logs.sort();
    logs.pop()
}

fn open_merkle(dir: &Path, pruning: bool) -> RocksDBWithMerkleTreeSubstateStore {
    let mut options = radix_substate_store_impls::rocks_db_with_merkle_tree::Options::default();
    options.create_if_missing(true);
    options.create_missing_column_families(true);
    options.set_max_file_opening_threads(1);
    options.set_skip_stats_update_on_db_open(true);
    RocksDBWithMerkleTreeSubstateStore::with_options(&options, dir.to_path_buf(), pruning)
}

/// Is the (reopened) store self-consistent, and does it equal `pre` or `post`?
fn classify(store: &RocksDBWithMerkleTreeSubstateStore, pre: &(u64, Content), post: &(u64, Content)) -> (String, Option<String>) {
    let v = store.get_current_version();
    let root = store.get_current_root_hash();
    let content = read_content(store);
    let expect_root = if content.is_empty() && v == 0 { Hash([0u8; 32]) } else { root_of_content(&content) };
    let mut why = None;
    if root != expect_root {
        why = Some(format!("recorded root {} at version {} does not describe the substates held (their commitment is {})", root, v, expect_root));
    } else if v > 0 {
        // the tree under the recorded root must be walkable and list exactly the held substates
        let walked = catch(|| list_substate_hashes_at_version(store, v));
        match walked {
            Err(e) => why = Some(format!("state tree under the recorded root is not walkable: {}", e)),
            Ok(w) => {
                let mut n = 0usize;
                for (pk, m) in &w {
                    for (sk, h) in m {
                        n += 1;
                        let ok = content.get(&(pk.node_key.clone(), pk.partition_num)).and_then(|p| p.get(&sk.0)).map(|val| hash(val) == *h).unwrap_or(false);
                        if !ok {
                            why = Some("state tree lists a substate hash that the store does not hold".to_string());
                        }
                    }
                }
                let total: usize = content.values().map(|p| p.len()).sum();
                if n != total {
                    why = Some(format!("state tree lists {} substates, store holds {}", n, total));
                }
            }
        }
    }
    if why.is_none() {
        if v == pre.0 && content == pre.1 {
            return ("pre".into(), None);
        }
        if v == post.0 && content == post.1 {
            return ("post".into(), None);
        }
        why = Some(format!("self-consistent but neither the pre-commit nor the post-commit state (version {})", v));
    }
    ("bad".into(), why)
}

/// scratch directory on tmpfs when available (RocksDB open/close fsyncs a lot)
fn scratch() -> tempfile::TempDir {
    if Path::new("/dev/shm").is_dir() {
        if let Ok(d) = tempfile::tempdir_in("/dev/shm") {
            return d;
        }
    }
    tempfile::tempdir().unwrap()
}

// ------------------------------------------------------------------------------------ area c19
pub struct A19;

impl Area for A19 {
    fn gen(&self, rng: &mut Rng, n: usize, out: &mut dyn Write) {
        for _ in 0..n {
            writeln!(out, "reset {}", rng.below(2)).unwrap();
            let h = rng.below(4);
            for _ in 0..h {
                writeln!(out, "commit {}", gen_updates(rng, false)).unwrap();
            }
            writeln!(out, "crash {}", gen_updates(rng, true)).unwrap();
        }
    }
    fn runner(&self) -> Box<dyn Runner> {
        Box::new(R19 { tmp: scratch(), n: 0, dir: None, store: None, pruning: true, content: Content::new(), version: 0 })
    }
}

struct R19 {
    tmp: tempfile::TempDir,
    n: usize,
    dir: Option<PathBuf>,
    store: Option<RocksDBWithMerkleTreeSubstateStore>,
    pruning: bool,
    content: Content,
    version: u64,
}

fn shape_of(recs: &[Vec<(usize, &'static str)>]) -> String {
    // one group per WAL record = one individual write. Prune steps (records holding only Merkle-node deletes;
    // their number depends on the tree shape, which C17/C18 own) are checked by the oracle but not printed.
    let mut gs = vec![];
    for ops in recs {
        let c = |cf: usize, k: &str| ops.iter().filter(|o| o.0 == cf && o.1 == k).count();
        let other = ops.iter().filter(|o| ![CF_META, CF_SUBSTATES, CF_NODES, CF_STALE].contains(&o.0)).count();
        let nodes_put = c(CF_NODES, "put");
        let nodes_del = c(CF_NODES, "del");
        let sub = (c(CF_SUBSTATES, "put"), c(CF_SUBSTATES, "del"), c(CF_SUBSTATES, "delrange"));
        let meta = c(CF_META, "put");
        if sub == (0, 0, 0) && meta == 0 && nodes_put == 0 && other == 0 && nodes_del > 0 {
            continue;
        }
        gs.push(format!("w[sub={}/{}/{} meta={}]{}", sub.0, sub.1, sub.2, meta, if other > 0 { "+other" } else { "" }));
    }
    gs.join(" ")
}

impl Runner for R19 {
    fn step(&mut self, line: &str) -> Answer {
        let t: Vec<&str> = line.split(' ').collect();
        match t[0] {
            "reset" if t.len() == 2 => {
                self.store = None;
                if let Some(d) = self.dir.take() {
                    let _ = std::fs::remove_dir_all(d);
                }
                self.n += 1;
                let d = self.tmp.path().join(format!("s{}", self.n));
                self.pruning = t[1] == "1";
                self.store = Some(open_merkle(&d, self.pruning));
                self.dir = Some(d);
                self.content = Content::new();
                self.version = 0;
                Answer::ok("ok")
            }
            "commit" if t.len() == 2 && self.store.is_some() => {
                let Some(du) = parse_updates(t[1]) else { return Answer::ok("bad-op") };
                let store = self.store.as_mut().unwrap();
                if let Err(e) = catch(|| store.commit(&du)) {
                    return Answer::fail("panic", "commit-panic", e);
                }
                apply_content(&mut self.content, &du);
                self.version += 1;
                let st = (self.version, self.content.clone());
                let (cls, why) = classify(store, &st, &st);
                if let Some(w) = why {
                    return Answer::fail(format!("v={} {}", self.version, cls), "commit-inconsistent", w);
                }
                Answer::ok(format!("v={}", self.version))
            }
            "crash" if t.len() == 2 && self.store.is_some() => {
                let Some(du) = parse_updates(t[1]) else { return Answer::ok("bad-op") };
                // close, copy the clean pre-commit directory, reopen the copy (fresh WAL), commit there
                self.store = None;
                let base = self.dir.clone().unwrap();
                let work = self.tmp.path().join(format!("w{}", self.n));
                let _ = std::fs::remove_dir_all(&work);
                copy_dir(&base, &work);
                let pre = (self.version, self.content.clone());
                let mut postc = self.content.clone();
                apply_content(&mut postc, &du);
                let post = (self.version + 1, postc);
                let mut s = open_merkle(&work, self.pruning);
                let log_before: Vec<u8> = newest_log(&work).map(|p| std::fs::read(p).unwrap()).unwrap_or_default();
                let skip = wal_record_ends(&log_before).len();
                if let Err(e) = catch(|| s.commit(&du)) {
                    return Answer::fail("panic", "commit-panic", e);
                }
                // snapshot the directory as a killed process would leave it (store still open: nothing flushed by close)
                let snap = self.tmp.path().join(format!("k{}", self.n));
                let _ = std::fs::remove_dir_all(&snap);
                copy_dir(&work, &snap);
                drop(s);
                let logp = newest_log(&snap).unwrap();
                let data = std::fs::read(&logp).unwrap();
                let recs = wal_record_ends(&data);
                let mine = &recs[skip.min(recs.len())..];
                let mut parsed = vec![];
                for (_, rep) in mine {
                    match batch_ops(rep) {
                        Some(o) => parsed.push(o),
                        None => return Answer::fail("wal-unparsed", "wal-unparsed", "cannot parse a WriteBatch record of the WAL"),
                    }
                }
                let shape = shape_of(&parsed);
                // crash after j writes, j = 0..=J
                let start = if skip == 0 { 0 } else { recs[skip - 1].0 };
                let mut outcomes: Vec<String> = vec![];
                let mut bad: Option<(usize, String)> = None;
                for j in 0..=mine.len() {
                    let cut = if j == 0 { start } else { mine[j - 1].0 };
                    let cdir = self.tmp.path().join(format!("c{}_{}", self.n, j));
                    let _ = std::fs::remove_dir_all(&cdir);
                    copy_dir(&snap, &cdir);
                    let lp = newest_log(&cdir).unwrap();
                    let f = std::fs::OpenOptions::new().write(true).open(&lp).unwrap();
                    f.set_len(cut as u64).unwrap();
                    drop(f);
                    let r = catch(|| {
                        let st = open_merkle(&cdir, self.pruning);
                        classify(&st, &pre, &post)
                    });
                    let (cls, why) = match r {
                        Ok(x) => x,
                        Err(e) => ("bad".to_string(), Some(format!("reopen panicked: {}", e))),
                    };
                    if let (Some(w), None) = (why, &bad) {
                        bad = Some((j, w));
                    }
                    if outcomes.last().map(|l| *l != cls).unwrap_or(true) {
                        outcomes.push(cls);
                    }
                    let _ = std::fs::remove_dir_all(&cdir);
                }
                let _ = std::fs::remove_dir_all(&snap);
                // continue the case from the completed commit
                let _ = std::fs::remove_dir_all(&base);
                std::fs::rename(&work, &base).unwrap();
                self.store = Some(open_merkle(&base, self.pruning));
                self.content = post.1;
                self.version = post.0;
                let ans = format!("plan={} outcomes={}", shape, outcomes.join(","));
                if let Some((j, w)) = bad {
                    return Answer::fail(ans, "crash-inconsistent", format!("stopping after {} of {} individual writes of the commit: {}", j, mine.len(), w));
                }
                Answer::ok(ans)
            }
            _ => Answer::ok("bad-op"),
        }
    }
}

// ------------------------------------------------------------------------------------ area c15
pub struct A15;

/// `arbitrary`: short keys from a tiny alphabet incl. 0x00 / 0xff, empty keys and keys that are prefixes of
/// each other. Otherwise keys have a fixed length per tier (node keys: per case; sort keys: per partition),
/// i.e. they are prefix-free within each tier as the engine's key mapper guarantees.
fn gen_key15(rng: &mut Rng, fixed: Option<usize>) -> Vec<u8> {
    let n = fixed.unwrap_or_else(|| rng.below(4) as usize);
    (0..n).map(|_| *rng.pick(&[0u8, 1, 0x7f, 0xff])).collect()
}

fn gen_case15(rng: &mut Rng, out: &mut dyn Write, arbitrary: bool) {
    writeln!(out, "reset{}", if arbitrary { " plain" } else { "" }).unwrap();
    let node_len = 1 + rng.below(3) as usize;
    let node = |rng: &mut Rng| -> Vec<u8> {
        if arbitrary { if rng.chance(1, 6) { vec![] } else { vec![*rng.pick(&[0u8, 1, 0xff]); 1 + rng.below(2) as usize] } } else { gen_key15(rng, Some(node_len)) }
    };
    let sk_len = |node: &Vec<u8>, pn: u8| -> Option<usize> {
        if arbitrary { None } else { Some(1 + (node.iter().map(|b| *b as usize).sum::<usize>() + pn as usize) % 3) }
    };
    let len = 2 + rng.below(14);
    let mut known: Vec<(Vec<u8>, u8, Vec<u8>)> = vec![];
    for _ in 0..len {
        match rng.below(10) {
            0..=4 => {
                let nparts = 1 + rng.below(3);
                let mut parts = vec![];
                let mut seen = std::collections::BTreeSet::new();
                for _ in 0..nparts {
                    let nd = node(rng);
                    let pn = *rng.pick(&[0u8, 1, 255]);
                    if !seen.insert((nd.clone(), pn)) {
                        continue;
                    }
                    let reset = rng.chance(1, 3);
                    let nk = rng.below(4);
                    let mut kvs = vec![];
                    let mut ks = std::collections::BTreeSet::new();
                    for _ in 0..nk {
                        let mut k = gen_key15(rng, sk_len(&nd, pn));
                        if !known.is_empty() && rng.chance(1, 3) {
                            // re-touch (overwrite / delete) a key of this partition written earlier
                            let c = rng.pick(&known).clone();
                            if c.0 == nd && c.1 == pn {
                                k = c.2;
                            }
                        }
                        if !ks.insert(k.clone()) {
                            continue;
                        }
                        known.push((nd.clone(), pn, k.clone()));
                        if !reset && rng.chance(2, 5) {
                            kvs.push(format!("{}=~", hex(&k)));
                        } else {
                            let vl = rng.below(3) as usize;
                            kvs.push(format!("{}={}", hex(&k), hex(&rng.bytes(vl))));
                        }
                    }
                    let body = if kvs.is_empty() { "-".to_string() } else { kvs.join(",") };
                    parts.push(format!("{}:{}:{}:{}", hex(&nd), pn, if reset { "R" } else { "D" }, body));
                }
                writeln!(out, "commit {}", parts.join(";")).unwrap();
            }
            5..=6 => {
                let (nd, pn, k) = if !known.is_empty() && rng.chance(3, 4) { rng.pick(&known).clone() } else {
                    let nd = node(rng);
                    let pn = *rng.pick(&[0u8, 1, 255]);
                    let k = gen_key15(rng, sk_len(&nd, pn));
                    (nd, pn, k)
                };
                writeln!(out, "get {} {} {}", hex(&nd), pn, hex(&k)).unwrap();
            }
            7..=8 => {
                let (nd, pn) = if !known.is_empty() && rng.chance(3, 4) { let c = rng.pick(&known).clone(); (c.0, c.1) } else { (node(rng), *rng.pick(&[0u8, 1, 255])) };
                // cursors of any length: at / just before / just after existing keys
                let from = if rng.chance(1, 3) { "none".to_string() } else { hex(&gen_key15(rng, None)) };
                writeln!(out, "list {} {} {}", hex(&nd), pn, from).unwrap();
            }
            _ => writeln!(out, "partitions").unwrap(),
        }
    }
}

impl Area for A15 {
    fn consts(&self) -> Vec<(String, String)> {
        vec![
            ("MAX_SUBSTATE_KEY_SIZE".into(), radix_common::constants::MAX_SUBSTATE_KEY_SIZE.to_string()),
            // longest DbSortKey the engine's key mapper produces: Sorted = 2 + hashed prefix + key
            ("HASHED_PREFIX_LENGTH".into(), <radix_substate_store_interface::db_key_mapper::SpreadPrefixKeyMapper as radix_substate_store_interface::db_key_mapper::DatabaseKeyMapper>::to_db_node_key(&NodeId([0u8; 30])).len().saturating_sub(30).to_string()),
        ]
    }
    fn gen(&self, rng: &mut Rng, n: usize, out: &mut dyn Write) {
        for i in 0..n {
            // every third case: arbitrary keys on the two plain stores only (the Merkle store's tree needs
            // prefix-free keys per tier, see known_findings.txt C15 merkle-prefix-or-empty-keys)
            gen_case15(rng, out, i % 3 == 2);
        }
    }
    fn runner(&self) -> Box<dyn Runner> {
        Box::new(R15 { plain: false, poisoned: false, tmp: scratch(), n: 0, mem: InMemorySubstateDatabase::standard(), rocks: None, merkle: None, content: Content::new() })
    }
}

struct R15 {
    plain: bool,
    poisoned: bool,
    tmp: tempfile::TempDir,
    n: usize,
    mem: InMemorySubstateDatabase,
    rocks: Option<RocksdbSubstateStore>,
    merkle: Option<RocksDBWithMerkleTreeSubstateStore>,
    content: Content,
}

fn show_list(v: &[(Vec<u8>, Vec<u8>)]) -> String {
    if v.is_empty() {
        return "[]".into();
    }
    v.iter().map(|(k, val)| format!("{}={}", hex(k), hex(val))).collect::<Vec<_>>().join(",")
}

/// does the content + update contain, within one tier tree of the Merkle store, a key that is a proper prefix of another?
fn has_prefix_pair(content: &Content, du: &DatabaseUpdates) -> bool {
    let mut nodes: std::collections::BTreeSet<Vec<u8>> = content.keys().map(|k| k.0.clone()).collect();
    let mut sks: BTreeMap<(Vec<u8>, u8), std::collections::BTreeSet<Vec<u8>>> = content.iter().map(|(k, v)| (k.clone(), v.keys().cloned().collect())).collect();
    for (nk, nu) in &du.node_updates {
        nodes.insert(nk.clone());
        for (pn, pu) in &nu.partition_updates {
            let e = sks.entry((nk.clone(), *pn)).or_default();
            match pu {
                PartitionDatabaseUpdates::Delta { substate_updates } => e.extend(substate_updates.keys().map(|k| k.0.clone())),
                PartitionDatabaseUpdates::Reset { new_substate_values } => e.extend(new_substate_values.keys().map(|k| k.0.clone())),
            }
        }
    }
    // an empty key is a (degenerate) prefix of everything, including of the tree root's empty nibble path
    let pref = |set: &std::collections::BTreeSet<Vec<u8>>| set.iter().any(|a| a.is_empty() || set.iter().any(|b| a != b && b.starts_with(a)));
    pref(&nodes) || sks.values().any(pref)
}

impl R15 {
    fn agree<T: PartialEq + std::fmt::Debug>(&self, line: &str, what: &str, a: T, b: T, c: Option<T>, show: impl Fn(&T) -> String, expect: &T) -> Answer {
        let ans = show(&a);
        if a != b {
            return Answer::fail(ans, format!("{}-mem-vs-rocksdb", what), format!("`{}`: in-memory {:?} vs RocksDB {:?}", line, a, b));
        }
        if let Some(c) = c {
            if a != c {
                return Answer::fail(ans, format!("{}-mem-vs-merkle", what), format!("`{}`: in-memory {:?} vs RocksDB+Merkle {:?}", line, a, c));
            }
        }
        if a != *expect {
            return Answer::fail(ans, format!("{}-vs-reference", what), format!("`{}`: the stores answer {:?} but the ordered-map reference says {:?}", line, a, expect));
        }
        Answer::ok(ans)
    }
}

impl Runner for R15 {
    fn step(&mut self, line: &str) -> Answer {
        let t: Vec<&str> = line.split(' ').collect();
        if t[0] != "reset" && self.poisoned {
            // a store panicked earlier in this case: the stores are no longer comparable
            return Answer::ok("poisoned");
        }
        match t[0] {
            "reset" => {
                self.rocks = None;
                self.merkle = None;
                self.n += 1;
                self.poisoned = false;
                self.plain = t.len() == 2 && t[1] == "plain";
                self.mem = InMemorySubstateDatabase::standard();
                let mut o = radix_substate_store_impls::rocks_db::Options::default();
                o.create_if_missing(true);
                o.create_missing_column_families(true);
                o.set_max_file_opening_threads(1);
                self.rocks = Some(RocksdbSubstateStore::with_options(&o, self.tmp.path().join(format!("r{}", self.n))));
                if !self.plain {
                    self.merkle = Some(open_merkle(&self.tmp.path().join(format!("m{}", self.n)), true));
                }
                if self.n > 1 {
                    let _ = std::fs::remove_dir_all(self.tmp.path().join(format!("r{}", self.n - 1)));
                    let _ = std::fs::remove_dir_all(self.tmp.path().join(format!("m{}", self.n - 1)));
                }
                self.content = Content::new();
                Answer::ok("ok")
            }
            "commit" if t.len() == 2 && self.rocks.is_some() => {
                let Some(du) = parse_updates(t[1]) else { return Answer::ok("bad-op") };
                let prefix_pair = has_prefix_pair(&self.content, &du);
                let (mem, rocks) = (&mut self.mem, self.rocks.as_mut().unwrap());
                let r = catch(|| {
                    mem.commit(&du);
                    rocks.commit(&du);
                });
                if let Err(e) = r {
                    self.poisoned = true;
                    return Answer::fail("panic", "commit-panic-plain", e);
                }
                if let Some(merkle) = self.merkle.as_mut() {
                    if let Err(e) = catch(|| merkle.commit(&du)) {
                        self.poisoned = true;
                        let key = if prefix_pair { "merkle-prefix-or-empty-keys" } else { "commit-panic-merkle" };
                        return Answer::fail("ok", key, format!("`{}`: the in-memory and RocksDB stores accept the commit, the RocksDB store with Merkle tree panics: {}", line, e));
                    }
                }
                apply_content(&mut self.content, &du);
                Answer::ok("ok")
            }
            "get" if t.len() == 4 && self.rocks.is_some() => {
                let (Some(node), Ok(pn), Some(k)) = (unhex(t[1]), t[2].parse::<u8>(), unhex(t[3])) else { return Answer::ok("bad-op") };
                let pk = DbPartitionKey { node_key: node.clone(), partition_num: pn };
                let sk = DbSortKey(k.clone());
                let a = self.mem.get_raw_substate_by_db_key(&pk, &sk);
                let b = self.rocks.as_ref().unwrap().get_raw_substate_by_db_key(&pk, &sk);
                let c = self.merkle.as_ref().map(|m| m.get_raw_substate_by_db_key(&pk, &sk));
                let e = self.content.get(&(node, pn)).and_then(|p| p.get(&k)).cloned();
                self.agree(line, "get", a, b, c, |x| match x { Some(v) => format!("some {}", hex(v)), None => "none".into() }, &e)
            }
            "list" if t.len() == 4 && self.rocks.is_some() => {
                let (Some(node), Ok(pn)) = (unhex(t[1]), t[2].parse::<u8>()) else { return Answer::ok("bad-op") };
                let from = if t[3] == "none" { None } else { match unhex(t[3]) { Some(k) => Some(DbSortKey(k)), None => return Answer::ok("bad-op") } };
                let pk = DbPartitionKey { node_key: node.clone(), partition_num: pn };
                let coll = |it: Box<dyn Iterator<Item = PartitionEntry> + '_>| -> Vec<(Vec<u8>, Vec<u8>)> { it.map(|(k, v)| (k.0, v)).collect() };
                let a = coll(self.mem.list_raw_values_from_db_key(&pk, from.as_ref()));
                let b = coll(self.rocks.as_ref().unwrap().list_raw_values_from_db_key(&pk, from.as_ref()));
                let c = self.merkle.as_ref().map(|m| coll(m.list_raw_values_from_db_key(&pk, from.as_ref())));
                let e: Vec<(Vec<u8>, Vec<u8>)> = self.content.get(&(node, pn)).map(|p| p.iter().filter(|(k, _)| from.as_ref().map(|f| **k >= f.0).unwrap_or(true)).map(|(k, v)| (k.clone(), v.clone())).collect()).unwrap_or_default();
                self.agree(line, "list", a, b, c, |x| show_list(x), &e)
            }
            "partitions" if self.rocks.is_some() => {
                let coll = |it: Box<dyn Iterator<Item = DbPartitionKey> + '_>| -> Vec<(Vec<u8>, u8)> {
                    let mut v: Vec<(Vec<u8>, u8)> = it.map(|pk| (pk.node_key, pk.partition_num)).collect();
                    v.sort();
                    v
                };
                let a = coll(self.mem.list_partition_keys());
                let b = coll(self.rocks.as_ref().unwrap().list_partition_keys());
                let c = self.merkle.as_ref().map(|m| coll(m.list_partition_keys()));
                let e: Vec<(Vec<u8>, u8)> = self.content.keys().cloned().collect();
                self.agree(line, "partitions", a, b, c, |x| if x.is_empty() { "[]".into() } else { x.iter().map(|(n, p)| format!("{}:{}", hex(n), p)).collect::<Vec<_>>().join(",") }, &e)
            }
            _ => Answer::ok("bad-op"),
        }
    }
}

fn main() {
    main_with(&[("c19", &A19), ("c15", &A15)]);
}
