//! C11 — no transaction can crash the engine.
//!
//! * `c11a` (model-compared, stateless) — the logic between "what execution returned" and the receipt:
//!     abortion <err>                      -> none | some          real `CanBeAbortion::abortion()` on a constructed error
//!     classify <interp> <fee> <abort>     -> commit-success | commit-failure | reject:<reason> | abort | host-panic
//!   `classify` calls the REAL `System::create_receipt` (hence `determine_result_type`) on a freshly
//!   initialised system (real `System::init` on a real ledger state) with a constructed interpretation
//!   result: <interp> ∈ ok | boot | <err>; <fee> ∈ locked (a fee is locked on the faucet vault, so
//!   `repay_all` can repay the loan) | none (loan cannot be repaid); <abort> ∈ 0|1 =
//!   `SystemOverrides.abort_when_loan_repaid`.
//!   <err> ∈ kernel | vm:native:code | vm:native:trap | vm:wasm:fee:<f> | vm:wasm:other | vm:ver | sys |
//!   sys:panic | upstream | mod:auth | mod:costing:<f> | mod:limits | mod:event | app | fin:<f>,
//!   <f> ∈ insufficient | overflow | limit | loan | abort.
//!   Oracle: whatever the inputs, the result is a receipt of one of the four classes, except for
//!   `sys:panic` (documented re-panic); a Trap is never turned into an abort.
//!
//! * `c11n` (oracle only — exploration): every function and method of every native blueprint found in
//!   the ledger's package definitions is called through a transaction with (a) schema-directed random
//!   arguments, (b) type-confused payloads, (c) boundary decimals / ids / addresses, under
//!   `catch_unwind`.
//!     call f <package hex> <blueprint> <function> <pre> <args hex>
//!     call m <address hex> <module 0..3> <method> <pre> <args hex>
//!     call v <vault address hex> <method> <pre> <args hex>
//!   <pre> bit 0: allocate a global address reservation first. <args> = manifest-SBOR encoded value.
//!   Failing input: a panic escaping `execute_transaction`, or a receipt whose error is
//!   `NativeRuntimeError::Trap` (a caught native panic) — key `native-panic:<blueprint>:<fn>`.
use harness::util::*;
use radix_common::prelude::*;
use radix_engine::errors::*;
use radix_engine::kernel::kernel::KernelBoot;
use radix_engine::kernel::kernel_callback_api::KernelTransactionExecutor;
use radix_engine::system::system_callback::{System, SystemInit};
use radix_engine::system::system_db_reader::SystemDatabaseReader;
use radix_engine::system::system_modules::auth::AuthError;
use radix_engine::system::system_modules::costing::{CostingError, ExecutionFeeReserve, FeeReserveError};
use radix_engine::system::system_modules::limits::TransactionLimitsError;
use radix_engine::blueprints::resource::*;
use radix_engine::track::{CommitableSubstateStore, Track};
use radix_engine::transaction::*;
use radix_engine::vm::wasm::{DefaultWasmEngine, WasmRuntimeError};
use radix_engine::vm::*;
use radix_engine_interface::blueprints::package::*;
use radix_blueprint_schema_init::RefTypes;
use radix_engine_interface::prelude::*;
use radix_substate_store_impls::memory_db::InMemorySubstateDatabase;
use radix_transactions::manifest::*;
use radix_transactions::model::*;
use radix_transactions::prelude::*;
use scrypto_test::prelude::*;
use std::io::Write;

// ============================================================================================ ledger

struct Target {
    package: PackageAddress,
    blueprint: String,
    ident: String,
    is_method: bool,
    direct_access: bool,
    input: Option<(Rc<VersionedScryptoSchema>, LocalTypeId)>,
}

pub struct Env {
    ledger: DefaultLedgerSimulator,
    db: InMemorySubstateDatabase,
    pk: Secp256k1PublicKey,
    account: ComponentAddress,
    res: ResourceAddress,
    nf: ResourceAddress,
    faucet_vault: NodeId,
    /// blueprint name -> global instances
    instances: BTreeMap<String, Vec<GlobalAddress>>,
    vaults: Vec<InternalAddress>,
    globals: Vec<GlobalAddress>,
    targets: Vec<Target>,
}

fn native_packages() -> Vec<PackageAddress> {
    vec![
        PACKAGE_PACKAGE,
        RESOURCE_PACKAGE,
        ACCOUNT_PACKAGE,
        IDENTITY_PACKAGE,
        CONSENSUS_MANAGER_PACKAGE,
        ACCESS_CONTROLLER_PACKAGE,
        POOL_PACKAGE,
        TRANSACTION_PROCESSOR_PACKAGE,
        METADATA_MODULE_PACKAGE,
        ROYALTY_MODULE_PACKAGE,
        ROLE_ASSIGNMENT_MODULE_PACKAGE,
        TRANSACTION_TRACKER_PACKAGE,
        LOCKER_PACKAGE,
    ]
}

impl Env {
    pub fn new() -> Env {
        let mut ledger = LedgerSimulatorBuilder::new().without_kernel_trace().build();
        let (pk, _sk, account) = ledger.new_allocated_account();
        let (_pk2, _sk2, _account2) = ledger.new_allocated_account();
        let res = ledger.create_freely_mintable_and_burnable_fungible_resource(OwnerRole::None, Some(Decimal::from(1000u32)), 18, account);
        let nf = ledger.create_non_fungible_resource(account);
        let _validator = ledger.new_validator_with_pub_key(pk, account);
        let _pool = ledger.create_one_resource_pool(res, rule!(allow_all));
        let _identity = ledger.new_identity(pk, false);
        let _ = catch(|| ledger.new_ed25519_preallocated_account_with_access_controller(2));
        // two-resource / multi-resource pools and an account locker through their instantiate functions
        let m = ManifestBuilder::new()
            .lock_fee_from_faucet()
            .call_function(
                POOL_PACKAGE,
                "TwoResourcePool",
                "instantiate",
                manifest_args!(OwnerRole::None, rule!(allow_all), (res, XRD), None::<ManifestAddressReservation>),
            )
            .call_function(
                POOL_PACKAGE,
                "MultiResourcePool",
                "instantiate",
                manifest_args!(OwnerRole::None, rule!(allow_all), indexset![res, XRD], None::<ManifestAddressReservation>),
            )
            .call_function(LOCKER_PACKAGE, "AccountLocker", "instantiate_simple", manifest_args!(true))
            .try_deposit_entire_worktop_or_abort(account, None)
            .build();
        let _ = catch(|| ledger.execute_manifest(m, vec![NonFungibleGlobalId::from_public_key(&pk)]));
        let faucet_vault = ledger.get_component_vaults(FAUCET, XRD)[0];
        let db = ledger.substate_db().clone();

        // instances by blueprint
        let mut instances: BTreeMap<String, Vec<GlobalAddress>> = BTreeMap::new();
        let mut globals: Vec<GlobalAddress> = vec![];
        let mut vaults: Vec<InternalAddress> = vec![];
        {
            let reader = SystemDatabaseReader::new(&db);
            let mut nodes: Vec<NodeId> = ledger.find_all_nodes().into_iter().collect();
            nodes.sort();
            for n in nodes {
                if let Ok(g) = GlobalAddress::try_from(n.0.as_slice()) {
                    if let Ok(bp) = reader.get_blueprint_id(&n, ModuleId::Main) {
                        let e = instances.entry(bp.blueprint_name.clone()).or_default();
                        if e.len() < 3 {
                            e.push(g);
                            globals.push(g);
                        }
                    }
                }
            }
            for r in [XRD, res, nf] {
                for v in ledger.get_component_vaults(account, r) {
                    vaults.push(InternalAddress::new_or_panic(v.0));
                }
            }
        }
        // targets
        let mut targets = vec![];
        {
            let reader = SystemDatabaseReader::new(&db);
            for p in native_packages() {
                let defs = ledger.get_package_blueprint_definitions(&p);
                let mut keys: Vec<_> = defs.keys().cloned().collect();
                keys.sort_by(|a, b| a.blueprint.cmp(&b.blueprint));
                for k in keys {
                    let d = &defs[&k];
                    let mut idents: Vec<&String> = d.interface.functions.keys().collect();
                    idents.sort();
                    for ident in idents {
                        let fs = &d.interface.functions[ident];
                        let input = match &fs.input {
                            BlueprintPayloadDef::Static(st) => reader.get_schema(p.as_node_id(), &st.0).ok().map(|s| (s, st.1)),
                            _ => None,
                        };
                        targets.push(Target {
                            package: p,
                            blueprint: k.blueprint.clone(),
                            ident: ident.clone(),
                            is_method: fs.receiver.is_some(),
                            direct_access: fs.receiver.as_ref().map(|r| r.ref_types.contains(RefTypes::DIRECT_ACCESS)).unwrap_or(false),
                            input,
                        });
                    }
                }
            }
        }
        Env { ledger, db, pk, account, res, nf, faucet_vault, instances, vaults, globals, targets }
    }
}

// ============================================================================================ c11a

pub struct Classify;

const FEES: [&str; 5] = ["insufficient", "overflow", "limit", "loan", "abort"];

fn all_errs() -> Vec<String> {
    let mut v: Vec<String> = ["kernel", "vm:native:code", "vm:native:trap", "vm:wasm:other", "vm:ver", "sys", "sys:panic", "upstream", "mod:auth", "mod:limits", "mod:event", "app"]
        .iter()
        .map(|s| s.to_string())
        .collect();
    for f in FEES {
        v.push(format!("vm:wasm:fee:{}", f));
        v.push(format!("mod:costing:{}", f));
        v.push(format!("fin:{}", f));
    }
    v
}

fn fee_err(f: &str) -> Option<FeeReserveError> {
    Some(match f {
        "insufficient" => FeeReserveError::InsufficientBalance { required: Decimal::ONE, remaining: Decimal::ZERO },
        "overflow" => FeeReserveError::Overflow,
        "limit" => FeeReserveError::LimitExceeded { limit: 1, committed: 1, new: 1 },
        "loan" => FeeReserveError::LoanRepaymentFailed { xrd_owed: Decimal::ONE },
        "abort" => FeeReserveError::Abort(AbortReason::ConfiguredAbortTriggeredOnFeeLoanRepayment),
        _ => return None,
    })
}

fn mk_err(s: &str) -> Option<RuntimeError> {
    let t: Vec<&str> = s.split(':').collect();
    Some(match t.as_slice() {
        ["kernel"] => RuntimeError::KernelError(KernelError::IdAllocationError(IdAllocationError::OutOfID)),
        ["vm", "native", "code"] => RuntimeError::VmError(VmError::Native(NativeRuntimeError::InvalidCodeId)),
        ["vm", "native", "trap"] => RuntimeError::VmError(VmError::Native(NativeRuntimeError::Trap {
            export_name: "f".to_string(),
            input: ScryptoValue::Tuple { fields: vec![] },
            error: "boom".to_string(),
        })),
        ["vm", "wasm", "fee", f] => RuntimeError::VmError(VmError::Wasm(WasmRuntimeError::FeeReserveError(fee_err(f)?))),
        ["vm", "wasm", "other"] => RuntimeError::VmError(VmError::Wasm(WasmRuntimeError::InvalidString)),
        ["vm", "ver"] => RuntimeError::VmError(VmError::ScryptoVmVersion(ScryptoVmVersionError::FromIntError(9))),
        ["sys"] => RuntimeError::SystemError(SystemError::NoBlueprintId),
        ["sys", "panic"] => RuntimeError::SystemError(SystemError::SystemPanic("constructed".to_string())),
        ["upstream"] => RuntimeError::SystemUpstreamError(SystemUpstreamError::ReceiverNotMatch("x".to_string())),
        ["mod", "auth"] => RuntimeError::SystemModuleError(SystemModuleError::AuthError(AuthError::InvalidOuterObjectMapping)),
        ["mod", "costing", f] => RuntimeError::SystemModuleError(SystemModuleError::CostingError(CostingError::FeeReserveError(fee_err(f)?))),
        ["mod", "limits"] => RuntimeError::SystemModuleError(SystemModuleError::TransactionLimitsError(TransactionLimitsError::MaxCallDepthLimitReached)),
        ["mod", "event"] => RuntimeError::SystemModuleError(SystemModuleError::EventError(Box::new(EventError::NoAssociatedPackage))),
        ["app"] => RuntimeError::ApplicationError(ApplicationError::PanicMessage("p".to_string())),
        ["fin", f] => RuntimeError::FinalizationCostingError(CostingError::FeeReserveError(fee_err(f)?)),
        _ => return None,
    })
}

impl Area for Classify {
    fn gen(&self, rng: &mut Rng, n: usize, out: &mut dyn Write) {
        let errs = all_errs();
        // exhaustive part first (27 errors; 29 interps × 2 × 2 classifications), then random repeats
        for e in &errs {
            writeln!(out, "abortion {}", e).unwrap();
        }
        let mut interps: Vec<String> = vec!["ok".to_string(), "boot".to_string()];
        interps.extend(errs.iter().cloned());
        let mut k = errs.len();
        'outer: for i in &interps {
            for fee in ["locked", "none"] {
                for ab in [0, 1] {
                    if k >= n {
                        break 'outer;
                    }
                    writeln!(out, "classify {} {} {}", i, fee, ab).unwrap();
                    k += 1;
                }
            }
        }
        while k < n {
            match rng.below(12) {
                0 => writeln!(out, "abortion nonsense:{}", rng.below(9)).unwrap(),
                1 => writeln!(out, "classify {} maybe 0", rng.pick(&interps)).unwrap(),
                2 => writeln!(out, "classify {} locked 2", rng.pick(&interps)).unwrap(),
                3 | 4 => writeln!(out, "abortion {}", rng.pick(&errs)).unwrap(),
                _ => writeln!(out, "classify {} {} {}", rng.pick(&interps), if rng.chance(1, 2) { "locked" } else { "none" }, rng.below(2)).unwrap(),
            }
            k += 1;
        }
    }
    fn runner(&self) -> Box<dyn Runner> {
        Box::new(ClassifyR { env: None })
    }
    fn consts(&self) -> Vec<(String, String)> {
        consts_c11()
    }
}

struct ClassifyR {
    env: Option<Env>,
}

impl ClassifyR {
    fn classify(&mut self, interp: Result<Vec<InstructionOutput>, TransactionExecutionError>, locked: bool, abort: bool) -> Result<String, String> {
        if self.env.is_none() {
            self.env = Some(Env::new());
        }
        let env = self.env.as_ref().unwrap();
        let mut config = ExecutionConfig::for_notarized_transaction(NetworkDefinition::simulator());
        if abort {
            config = config.update_system_overrides(|o| o.set_abort_when_loan_repaid());
        }
        let proofs: BTreeSet<NonFungibleGlobalId> = BTreeSet::new();
        let executable = ManifestBuilder::new().lock_fee_from_faucet().build().into_executable_with_proofs(7, proofs, env.ledger.transaction_validator())?;
        let vm_modules = DefaultVmModules::default();
        let vm_init = VmInit::load(&env.db, &vm_modules);
        let system_init = SystemInit::load(&env.db, config, vm_init);
        let kernel_boot = KernelBoot::load(&env.db);
        let mut track = Track::new(&env.db);
        let r = <System<Vm<'_, DefaultWasmEngine, NoExtension>> as KernelTransactionExecutor>::init(&mut track, &executable, system_init, kernel_boot.always_visible_global_nodes());
        let (mut system, _frames) = match r {
            Ok(x) => x,
            Err(_) => return Err("init-rejected".to_string()),
        };
        if locked {
            // what `lock_fee` on a vault does: take the amount out of the vault (through the track) and
            // hand it to the fee reserve
            let key: SubstateKey = FungibleVaultField::Balance.into();
            let mut bal = track
                .read_substate(&env.faucet_vault, MAIN_BASE_PARTITION, &key)
                .ok_or("no faucet vault".to_string())?
                .as_typed::<FungibleVaultBalanceFieldSubstate>()
                .map_err(|_| "vault decode".to_string())?
                .into_payload()
                .into_unique_version();
            let taken = bal.take_by_amount(Decimal::from(100u32)).map_err(|_| "faucet empty".to_string())?;
            let updated = FungibleVaultBalanceFieldPayload::from_content_source(bal).into_unlocked_substate();
            track
                .set_substate(env.faucet_vault, MAIN_BASE_PARTITION, key, IndexedScryptoValue::from_typed(&updated), &mut |_| -> Result<(), ()> { Ok(()) })
                .map_err(|_| "set_substate".to_string())?;
            // the real lock_fee force-writes the debited vault so that it survives the revert of a failure
            track.force_write(&env.faucet_vault, &MAIN_BASE_PARTITION, &FungibleVaultField::Balance.into());
            system.modules.costing_mut_even_if_disabled().fee_reserve.lock_fee(env.faucet_vault, taken, false);
        }
        let receipt = catch(move || system.create_receipt(track, interp));
        Ok(match receipt {
            Err(_) => "host-panic".to_string(),
            Ok(rc) => match rc.result {
                TransactionResult::Commit(c) => match c.outcome {
                    TransactionOutcome::Success(_) => "commit-success".to_string(),
                    TransactionOutcome::Failure(_) => "commit-failure".to_string(),
                },
                TransactionResult::Reject(r) => match r.reason {
                    RejectionReason::SuccessButFeeLoanNotRepaid => "reject:success-but-fee-loan-not-repaid".to_string(),
                    RejectionReason::BootloadingError(_) => "reject:bootloading".to_string(),
                    RejectionReason::ErrorBeforeLoanAndDeferredCostsRepaid(_) => "reject:error-before-loan-repaid".to_string(),
                    other => format!("reject:other:{:?}", other).chars().take(60).collect(),
                },
                TransactionResult::Abort(_) => "abort".to_string(),
            },
        })
    }
}

impl Runner for ClassifyR {
    fn step(&mut self, line: &str) -> Answer {
        let t: Vec<&str> = line.split(' ').filter(|x| !x.is_empty()).collect();
        match t.as_slice() {
            ["abortion", e] => match mk_err(e) {
                Some(err) => {
                    let a = err.abortion().is_some();
                    let ans = if a { "some" } else { "none" };
                    // property: only a fee-reserve Abort inside costing-module / wasm errors is an abort
                    // (`VmError::abortion` exists for WASM fee-reserve aborts, but `RuntimeError::abortion` answers `None`
                    // for every `VmError`; that is the code's behaviour and the model transcribes it)
                    let expect = *e == "mod:costing:abort";
                    if a != expect {
                        return Answer::fail(ans, format!("abortion-class:{}", e), "an error outside FeeReserveError::Abort is treated as an abort request (or vice versa)");
                    }
                    Answer::ok(ans)
                }
                None => Answer::ok("bad-op"),
            },
            ["classify", i, fee, ab] => {
                let locked = match *fee {
                    "locked" => true,
                    "none" => false,
                    _ => return Answer::ok("bad-op"),
                };
                let abort = match *ab {
                    "0" => false,
                    "1" => true,
                    _ => return Answer::ok("bad-op"),
                };
                let interp: Result<Vec<InstructionOutput>, TransactionExecutionError> = match *i {
                    "ok" => Ok(vec![]),
                    "boot" => Err(TransactionExecutionError::BootloadingError(BootloadingError::ReferencedNodeDoesNotExist(NodeId([1u8; 30]).into()))),
                    e => match mk_err(e) {
                        Some(err) => Err(TransactionExecutionError::RuntimeError(err)),
                        None => return Answer::ok("bad-op"),
                    },
                };
                match self.classify(interp, locked, abort) {
                    Ok(ans) => {
                        if ans == "host-panic" && *i != "sys:panic" {
                            return Answer::fail(ans, format!("create-receipt-panic:{}:{}:{}", i, fee, ab), "create_receipt panicked instead of producing a receipt");
                        }
                        if *i == "vm:native:trap" && ans == "abort" {
                            return Answer::fail(ans, "trap-classified-as-abort", "a native trap was turned into an abort");
                        }
                        Answer::ok(ans)
                    }
                    Err(e) => Answer::fail(format!("err:{}", e), "classify-setup-failed", e),
                }
            }
            _ => Answer::ok("bad-op"),
        }
    }
}

// ============================================================================================ c11n

pub struct Native;

struct Gen<'a> {
    env: &'a Env,
    rng: &'a mut Rng,
    uses_reservation: bool,
    confuse: bool,
}

fn vk(v: &ManifestValue) -> ManifestValueKind {
    match v {
        Value::Bool { .. } => ValueKind::Bool,
        Value::I8 { .. } => ValueKind::I8,
        Value::I16 { .. } => ValueKind::I16,
        Value::I32 { .. } => ValueKind::I32,
        Value::I64 { .. } => ValueKind::I64,
        Value::I128 { .. } => ValueKind::I128,
        Value::U8 { .. } => ValueKind::U8,
        Value::U16 { .. } => ValueKind::U16,
        Value::U32 { .. } => ValueKind::U32,
        Value::U64 { .. } => ValueKind::U64,
        Value::U128 { .. } => ValueKind::U128,
        Value::String { .. } => ValueKind::String,
        Value::Enum { .. } => ValueKind::Enum,
        Value::Array { .. } => ValueKind::Array,
        Value::Tuple { .. } => ValueKind::Tuple,
        Value::Map { .. } => ValueKind::Map,
        Value::Custom { value } => ValueKind::Custom(match value {
            ManifestCustomValue::Address(_) => ManifestCustomValueKind::Address,
            ManifestCustomValue::Bucket(_) => ManifestCustomValueKind::Bucket,
            ManifestCustomValue::Proof(_) => ManifestCustomValueKind::Proof,
            ManifestCustomValue::Expression(_) => ManifestCustomValueKind::Expression,
            ManifestCustomValue::Blob(_) => ManifestCustomValueKind::Blob,
            ManifestCustomValue::Decimal(_) => ManifestCustomValueKind::Decimal,
            ManifestCustomValue::PreciseDecimal(_) => ManifestCustomValueKind::PreciseDecimal,
            ManifestCustomValue::NonFungibleLocalId(_) => ManifestCustomValueKind::NonFungibleLocalId,
            ManifestCustomValue::AddressReservation(_) => ManifestCustomValueKind::AddressReservation,
        }),
    }
}

fn mv<T: ManifestEncode>(v: &T) -> ManifestValue {
    manifest_decode::<ManifestValue>(&manifest_encode(v).unwrap()).unwrap()
}

impl<'a> Gen<'a> {
    fn decimal(&mut self) -> Decimal {
        match self.rng.below(12) {
            0 => Decimal::ZERO,
            1 => Decimal::ONE,
            2 => Decimal::MAX,
            3 => Decimal::MIN,
            4 => Decimal::from_attos(I192::from(1)),
            5 => Decimal::from_attos(I192::from(-1)),
            6 => -Decimal::ONE,
            7 => Decimal::from(100u32),
            8 => Decimal::MAX.checked_sub(Decimal::from_attos(I192::from(1))).unwrap(),
            9 => Decimal::from_attos(I192::from(10i128.pow(17))),
            _ => Decimal::from_attos(I192::from((self.rng.next() as i64 as i128) * 20)),
        }
    }
    fn nfid(&mut self) -> NonFungibleLocalId {
        match self.rng.below(8) {
            0 => NonFungibleLocalId::integer(0),
            1 => NonFungibleLocalId::integer(u64::MAX),
            2 => NonFungibleLocalId::string("a").unwrap(),
            3 => NonFungibleLocalId::bytes(vec![7u8; 64]).unwrap(),
            4 => NonFungibleLocalId::ruid([0xabu8; 32]),
            _ => NonFungibleLocalId::integer(1 + self.rng.below(4)),
        }
    }
    fn address_of(&mut self, pred: impl Fn(&GlobalAddress) -> bool) -> ManifestValue {
        let cands: Vec<GlobalAddress> = self.env.globals.iter().filter(|g| pred(g)).cloned().collect();
        let pick: GlobalAddress = if cands.is_empty() || self.rng.chance(1, 12) { *self.rng.pick(&self.env.globals) } else { *self.rng.pick(&cands) };
        mv(&pick)
    }
    fn bucket(&mut self) -> ManifestValue {
        mv(&ManifestBucket(self.rng.below(4) as u32))
    }
    fn any_scalar(&mut self) -> ManifestValue {
        match self.rng.below(14) {
            0 => mv(&true),
            1 => mv(&(self.rng.next() as u8)),
            2 => mv(&(self.rng.next() as u32)),
            3 => mv(&self.rng.next()),
            4 => mv(&(self.rng.next() as i64)),
            5 => mv(&"s".repeat(self.rng.below(4) as usize)),
            6 => {
                let d = self.decimal();
                mv(&d)
            }
            7 => {
                let i = self.nfid();
                mv(&i)
            }
            8 => self.bucket(),
            9 => mv(&ManifestProof(self.rng.below(2) as u32)),
            10 => self.address_of(|_| true),
            11 => mv(&ManifestExpression::EntireWorktop),
            12 => mv(&Vec::<u8>::new()),
            _ => mv(&()),
        }
    }
    fn confused(&mut self, depth: usize) -> ManifestValue {
        if depth > 2 {
            return self.any_scalar();
        }
        match self.rng.below(8) {
            0 => {
                let n = self.rng.below(4) as usize;
                ManifestValue::Tuple { fields: (0..n).map(|_| self.confused(depth + 1)).collect() }
            }
            1 => {
                let n = self.rng.below(3) as usize;
                ManifestValue::Enum { discriminator: self.rng.below(5) as u8, fields: (0..n).map(|_| self.confused(depth + 1)).collect() }
            }
            2 => {
                let n = self.rng.below(3) as usize;
                let d = self.decimal();
                ManifestValue::Array { element_value_kind: ManifestValueKind::Custom(ManifestCustomValueKind::Decimal), elements: (0..n).map(|_| mv(&d)).collect() }
            }
            _ => self.any_scalar(),
        }
    }
    fn value(&mut self, schema: &VersionedScryptoSchema, ty: LocalTypeId, depth: usize) -> ManifestValue {
        if self.confuse && self.rng.chance(1, 6) {
            return self.confused(depth);
        }
        let s = schema.v1();
        let kind = match s.resolve_type_kind(ty) {
            Some(k) => k.clone(),
            None => return self.any_scalar(),
        };
        let name: String = s.resolve_type_metadata(ty).and_then(|m| m.type_name.as_ref().map(|n| n.to_string())).unwrap_or_default();
        match kind {
            TypeKind::Any => self.confused(depth + 1),
            TypeKind::Bool => mv(&self.rng.chance(1, 2)),
            TypeKind::I8 => mv(&(*self.rng.pick(&[0i8, 1, -1, i8::MAX, i8::MIN]))),
            TypeKind::I16 => mv(&(*self.rng.pick(&[0i16, 1, -1, i16::MAX, i16::MIN]))),
            TypeKind::I32 => mv(&(*self.rng.pick(&[0i32, 1, -1, i32::MAX, i32::MIN]))),
            TypeKind::I64 => mv(&(*self.rng.pick(&[0i64, 1, -1, i64::MAX, i64::MIN, 60_000, 1_700_000_000]))),
            TypeKind::I128 => mv(&(*self.rng.pick(&[0i128, 1, -1, i128::MAX, i128::MIN]))),
            TypeKind::U8 => mv(&(*self.rng.pick(&[0u8, 1, 2, 18, 19, 255]))),
            TypeKind::U16 => mv(&(*self.rng.pick(&[0u16, 1, 100, u16::MAX]))),
            TypeKind::U32 => mv(&(*self.rng.pick(&[0u32, 1, 2, 100, 10_000, u32::MAX]))),
            TypeKind::U64 => mv(&(*self.rng.pick(&[0u64, 1, 2, 1000, u64::MAX, u64::MAX - 1]))),
            TypeKind::U128 => mv(&(*self.rng.pick(&[0u128, 1, u128::MAX]))),
            TypeKind::String => {
                let opts = ["", "a", "name", "https://x.y", "withdraw", "owner", "😀", "_self_"];
                mv(&self.rng.pick(&opts).to_string())
            }
            TypeKind::Array { element_type } => {
                if depth > 5 {
                    return mv(&Vec::<u8>::new());
                }
                let n = *self.rng.pick(&[0usize, 0, 1, 2, 3]);
                let elems: Vec<ManifestValue> = (0..n).map(|_| self.value(schema, element_type, depth + 1)).collect();
                let ek = match elems.first() {
                    Some(e) => vk(e),
                    None => self.kind_of(schema, element_type),
                };
                if elems.iter().any(|e| vk(e) != ek) {
                    return ManifestValue::Array { element_value_kind: ek, elements: vec![] };
                }
                ManifestValue::Array { element_value_kind: ek, elements: elems }
            }
            TypeKind::Tuple { field_types } => {
                if depth > 6 {
                    return ManifestValue::Tuple { fields: vec![] };
                }
                let mut fields: Vec<ManifestValue> = field_types.iter().map(|t| self.value(schema, *t, depth + 1)).collect();
                if self.confuse && self.rng.chance(1, 10) {
                    if self.rng.chance(1, 2) {
                        fields.pop();
                    } else {
                        let extra = self.any_scalar();
                        fields.push(extra);
                    }
                }
                ManifestValue::Tuple { fields }
            }
            TypeKind::Enum { variants } => {
                if variants.is_empty() || depth > 6 {
                    return ManifestValue::Enum { discriminator: 0, fields: vec![] };
                }
                let keys: Vec<u8> = variants.keys().cloned().collect();
                // prefer small variants deep down to terminate recursion
                let k = if depth > 3 { *keys.iter().min_by_key(|k| variants[*k].len()).unwrap() } else { *self.rng.pick(&keys) };
                let fields = variants[&k].iter().map(|t| self.value(schema, *t, depth + 1)).collect();
                let disc = if self.confuse && self.rng.chance(1, 15) { 200 } else { k };
                ManifestValue::Enum { discriminator: disc, fields }
            }
            TypeKind::Map { key_type, value_type } => {
                let n = *self.rng.pick(&[0usize, 0, 1, 2]);
                let kk = self.kind_of(schema, key_type);
                let vkind = self.kind_of(schema, value_type);
                let mut entries: Vec<(ManifestValue, ManifestValue)> = vec![];
                for _ in 0..n {
                    let k = self.value(schema, key_type, depth + 1);
                    let v = self.value(schema, value_type, depth + 1);
                    if vk(&k) == kk && vk(&v) == vkind && !entries.iter().any(|e| e.0 == k) {
                        entries.push((k, v));
                    }
                }
                ManifestValue::Map { key_value_kind: kk, value_value_kind: vkind, entries }
            }
            TypeKind::Custom(ScryptoCustomTypeKind::Decimal) => {
                let d = self.decimal();
                mv(&d)
            }
            TypeKind::Custom(ScryptoCustomTypeKind::PreciseDecimal) => {
                let p = match self.rng.below(5) {
                    0 => PreciseDecimal::ZERO,
                    1 => PreciseDecimal::MAX,
                    2 => PreciseDecimal::MIN,
                    3 => PreciseDecimal::ONE,
                    _ => PreciseDecimal::from(self.rng.below(1000) as u32),
                };
                mv(&p)
            }
            TypeKind::Custom(ScryptoCustomTypeKind::NonFungibleLocalId) => {
                let i = self.nfid();
                mv(&i)
            }
            TypeKind::Custom(ScryptoCustomTypeKind::Reference) => {
                let val = s.resolve_type_validation(ty).cloned();
                let env = self.env;
                match val {
                    Some(TypeValidation::Custom(ScryptoCustomTypeValidation::Reference(rv))) => match rv {
                        ReferenceValidation::IsGlobalPackage => self.address_of(|g| PackageAddress::try_from(g.as_node_id().0.as_slice()).is_ok()),
                        ReferenceValidation::IsGlobalResourceManager => self.address_of(|g| ResourceAddress::try_from(g.as_node_id().0.as_slice()).is_ok()),
                        ReferenceValidation::IsGlobalComponent => self.address_of(|g| ComponentAddress::try_from(g.as_node_id().0.as_slice()).is_ok()),
                        ReferenceValidation::IsGlobalTyped(_, bp) => {
                            let list = env.instances.get(&bp).cloned().unwrap_or_default();
                            self.address_of(move |g| list.contains(g))
                        }
                        ReferenceValidation::IsInternal | ReferenceValidation::IsInternalTyped(..) => {
                            let v = *self.rng.pick(&env.vaults);
                            mv(&v)
                        }
                        _ => self.address_of(|_| true),
                    },
                    _ => self.address_of(|_| true),
                }
            }
            TypeKind::Custom(ScryptoCustomTypeKind::Own) => {
                let val = s.resolve_type_validation(ty).cloned();
                match val {
                    Some(TypeValidation::Custom(ScryptoCustomTypeValidation::Own(ov))) => match ov {
                        OwnValidation::IsProof => mv(&ManifestProof(self.rng.below(2) as u32)),
                        OwnValidation::IsGlobalAddressReservation => {
                            self.uses_reservation = true;
                            mv(&ManifestAddressReservation(0))
                        }
                        OwnValidation::IsTypedObject(_, n) if n.contains("Proof") => mv(&ManifestProof(self.rng.below(2) as u32)),
                        _ => self.bucket(),
                    },
                    _ => {
                        if name.contains("Proof") {
                            mv(&ManifestProof(0))
                        } else {
                            self.bucket()
                        }
                    }
                }
            }
        }
    }
    fn kind_of(&mut self, schema: &VersionedScryptoSchema, ty: LocalTypeId) -> ManifestValueKind {
        let was = self.confuse;
        self.confuse = false;
        let saved = self.rng.clone();
        let v = self.value(schema, ty, 6);
        *self.rng = saved;
        self.confuse = was;
        vk(&v)
    }
}

impl Area for Native {
    fn gen(&self, rng: &mut Rng, n: usize, out: &mut dyn Write) {
        let env = Env::new();
        let nt = env.targets.len();
        for i in 0..n {
            // round-robin over the targets so that every function/method is hit, random beyond that
            let t = &env.targets[if i < 3 * nt { i % nt } else { rng.below(nt as u64) as usize }];
            let mode = rng.below(10);
            let mut g = Gen { env: &env, rng, uses_reservation: false, confuse: mode >= 7 };
            let args: ManifestValue = match (&t.input, mode) {
                (_, 9) => g.confused(0),
                (Some((schema, ty)), _) => g.value(schema, *ty, 0),
                (None, _) => g.confused(0),
            };
            let pre = if g.uses_reservation { 1 } else { 0 };
            let bytes = match manifest_encode(&args) {
                Ok(b) => b,
                Err(_) => manifest_encode(&()).unwrap(),
            };
            if !t.is_method {
                writeln!(out, "call f {} {} {} {} {}", hex(&t.package.as_node_id().0), t.blueprint, t.ident, pre, hex(&bytes)).unwrap();
                continue;
            }
            let module = match t.blueprint.as_str() {
                "Metadata" => 1,
                "ComponentRoyalty" => 2,
                "RoleAssignment" => 3,
                _ => 0,
            };
            if t.direct_access || t.blueprint.ends_with("Vault") && rng.chance(1, 2) {
                let v = rng.pick(&env.vaults);
                writeln!(out, "call v {} {} {} {}", hex(&v.as_node_id().0), t.ident, pre, hex(&bytes)).unwrap();
                continue;
            }
            let recv: GlobalAddress = if module != 0 {
                *rng.pick(&env.globals)
            } else {
                match env.instances.get(&t.blueprint) {
                    Some(l) if !l.is_empty() && !rng.chance(1, 25) => *rng.pick(l),
                    _ => *rng.pick(&env.globals), // no instance reachable from a manifest (or deliberate mismatch)
                }
            };
            writeln!(out, "call m {} {} {} {} {}", hex(&recv.as_node_id().0), module, t.ident, pre, hex(&bytes)).unwrap();
        }
    }
    fn runner(&self) -> Box<dyn Runner> {
        Box::new(NativeR { env: None, vm: DefaultVmModules::default(), nonce: 100 })
    }
    fn consts(&self) -> Vec<(String, String)> {
        consts_c11()
    }
}

struct NativeR {
    env: Option<Env>,
    vm: DefaultVmModules,
    nonce: u32,
}

fn err_class(e: &RuntimeError) -> String {
    let s = match e {
        RuntimeError::KernelError(k) => format!("kernel:{:?}", k),
        RuntimeError::VmError(v) => format!("vm:{:?}", v),
        RuntimeError::SystemError(k) => format!("system:{:?}", k),
        RuntimeError::SystemUpstreamError(k) => format!("upstream:{:?}", k),
        RuntimeError::SystemModuleError(k) => format!("module:{:?}", k),
        RuntimeError::ApplicationError(k) => format!("app:{:?}", k),
        RuntimeError::FinalizationCostingError(k) => format!("fin:{:?}", k),
    };
    // keep the two outermost constructor names only
    let mut out = String::new();
    let mut parens = 0;
    for ch in s.chars() {
        if ch == '(' || ch == '{' || ch == ' ' {
            parens += 1;
            if parens >= 2 {
                break;
            }
            out.push(':');
            continue;
        }
        out.push(ch);
    }
    out
}

impl Runner for NativeR {
    fn step(&mut self, line: &str) -> Answer {
        let t: Vec<&str> = line.split(' ').filter(|x| !x.is_empty()).collect();
        if self.env.is_none() {
            self.env = Some(Env::new());
        }
        let env = self.env.as_ref().unwrap();
        let node = |h: &str| -> Option<NodeId> {
            let b = unhex(h)?;
            if b.len() != 30 {
                return None;
            }
            Some(NodeId(b.try_into().unwrap()))
        };
        let (call, name, pre, args): (InstructionV1, String, u32, ManifestValue) = match t.as_slice() {
            ["call", "f", p, bp, f, pre, a] => {
                let (Some(n), Some(ab), Ok(pre)) = (node(p), unhex(a), pre.parse::<u32>()) else { return Answer::ok("bad-op") };
                let Ok(pa) = PackageAddress::try_from(n.0.as_slice()) else { return Answer::ok("bad-op") };
                let Ok(args) = manifest_decode::<ManifestValue>(&ab) else { return Answer::ok("bad-op") };
                (
                    InstructionV1::CallFunction(CallFunction { package_address: ManifestPackageAddress::Static(pa), blueprint_name: bp.to_string(), function_name: f.to_string(), args: args.clone() }),
                    format!("{}:{}", bp, f),
                    pre,
                    args,
                )
            }
            ["call", "m", addr, module, m, pre, a] => {
                let (Some(n), Some(ab), Ok(pre), Ok(module)) = (node(addr), unhex(a), pre.parse::<u32>(), module.parse::<u8>()) else { return Answer::ok("bad-op") };
                let Ok(ga) = GlobalAddress::try_from(n.0.as_slice()) else { return Answer::ok("bad-op") };
                let Ok(args) = manifest_decode::<ManifestValue>(&ab) else { return Answer::ok("bad-op") };
                let address = ManifestGlobalAddress::Static(ga);
                let bp = SystemDatabaseReader::new(&env.db).get_blueprint_id(&n, ModuleId::Main).map(|b| b.blueprint_name).unwrap_or_else(|_| "?".to_string());
                let ins = match module {
                    0 => InstructionV1::CallMethod(CallMethod { address, method_name: m.to_string(), args: args.clone() }),
                    1 => InstructionV1::CallMetadataMethod(CallMetadataMethod { address, method_name: m.to_string(), args: args.clone() }),
                    2 => InstructionV1::CallRoyaltyMethod(CallRoyaltyMethod { address, method_name: m.to_string(), args: args.clone() }),
                    3 => InstructionV1::CallRoleAssignmentMethod(CallRoleAssignmentMethod { address, method_name: m.to_string(), args: args.clone() }),
                    _ => return Answer::ok("bad-op"),
                };
                let bpn = match module {
                    1 => "Metadata".to_string(),
                    2 => "ComponentRoyalty".to_string(),
                    3 => "RoleAssignment".to_string(),
                    _ => bp,
                };
                (ins, format!("{}:{}", bpn, m), pre, args)
            }
            ["call", "v", addr, m, pre, a] => {
                let (Some(n), Some(ab), Ok(pre)) = (node(addr), unhex(a), pre.parse::<u32>()) else { return Answer::ok("bad-op") };
                let Ok(ia) = InternalAddress::try_from(n.0.as_slice()) else { return Answer::ok("bad-op") };
                let Ok(args) = manifest_decode::<ManifestValue>(&ab) else { return Answer::ok("bad-op") };
                (InstructionV1::CallDirectVaultMethod(CallDirectVaultMethod { address: ia, method_name: m.to_string(), args: args.clone() }), format!("Vault:{}", m), pre, args)
            }
            _ => return Answer::ok("bad-op"),
        };
        let _ = args;
        // preamble: fee, resources on the worktop, buckets 0..3, proofs 0..1, optional reservation 0
        let acc = env.account;
        let callm = |method: &str, args: ManifestValue| InstructionV1::CallMethod(CallMethod { address: ManifestGlobalAddress::Static(acc.into()), method_name: method.to_string(), args });
        let mut ins: Vec<InstructionV1> = vec![];
        ins.push(InstructionV1::CallMethod(CallMethod { address: ManifestGlobalAddress::Static(FAUCET.into()), method_name: "lock_fee".to_string(), args: manifest_args!(Decimal::from(5000u32)).into() }));
        ins.push(callm("withdraw", manifest_args!(XRD, Decimal::from(1000u32)).into()));
        ins.push(callm("withdraw", manifest_args!(env.res, Decimal::from(10u32)).into()));
        ins.push(callm("withdraw_non_fungibles", manifest_args!(env.nf, indexset![NonFungibleLocalId::integer(1), NonFungibleLocalId::integer(2)]).into()));
        ins.push(InstructionV1::TakeFromWorktop(TakeFromWorktop { resource_address: XRD, amount: Decimal::from(100u32) }));
        ins.push(InstructionV1::TakeFromWorktop(TakeFromWorktop { resource_address: env.res, amount: Decimal::from(5u32) }));
        ins.push(InstructionV1::TakeAllFromWorktop(TakeAllFromWorktop { resource_address: env.nf }));
        ins.push(InstructionV1::TakeFromWorktop(TakeFromWorktop { resource_address: XRD, amount: Decimal::from(1u32) }));
        ins.push(callm("create_proof_of_amount", manifest_args!(env.res, Decimal::ONE).into()));
        ins.push(InstructionV1::PopFromAuthZone(PopFromAuthZone));
        ins.push(callm("create_proof_of_amount", manifest_args!(XRD, Decimal::ONE).into()));
        ins.push(InstructionV1::PopFromAuthZone(PopFromAuthZone));
        if pre & 1 == 1 {
            ins.push(InstructionV1::AllocateGlobalAddress(AllocateGlobalAddress { package_address: ACCOUNT_PACKAGE, blueprint_name: "Account".to_string() }));
        }
        ins.push(call);
        ins.push(InstructionV1::DropAllProofs(DropAllProofs));
        ins.push(callm("deposit_batch", manifest_args!(ManifestExpression::EntireWorktop).into()));
        let manifest = TransactionManifestV1 { instructions: ins, blobs: Default::default(), object_names: Default::default() };
        self.nonce += 1;
        let proofs: BTreeSet<NonFungibleGlobalId> = [NonFungibleGlobalId::from_public_key(&env.pk)].into_iter().collect();
        let tx = TestTransaction::new_v1_from_nonce(manifest, self.nonce, proofs);
        let exe = match tx.into_executable(env.ledger.transaction_validator()) {
            Ok(e) => e,
            Err(_) => return Answer::ok("not-preparable"),
        };
        // twice: with the auth module (as a notarized transaction), and with auth disabled (as previews
        // with `disable_auth` run) so that the call reaches the native code whatever the badges are
        let cfg_auth = ExecutionConfig::for_notarized_transaction(NetworkDefinition::simulator());
        let cfg_noauth = ExecutionConfig::for_notarized_transaction(NetworkDefinition::simulator()).update_system_overrides(|mut o| {
            o.disable_auth = true;
            o
        });
        let mut answers: Vec<String> = vec![];
        for cfg in [cfg_auth, cfg_noauth] {
            let r = catch(|| execute_transaction(&env.db, &self.vm, &cfg, &exe));
            let a = Self::judge(r, &name);
            if a.fail.is_some() {
                return a;
            }
            answers.push(a.ans);
        }
        Answer::ok(answers.join(" | "))
    }
}

impl NativeR {
    fn judge(r: Result<TransactionReceipt, String>, name: &str) -> Answer {
        match r {
            Err(msg) => Answer::fail("host-panic", format!("native-panic:{}", name), format!("execute_transaction panicked: {}", msg.chars().take(300).collect::<String>())),
            Ok(receipt) => match &receipt.result {
                TransactionResult::Commit(c) => match &c.outcome {
                    TransactionOutcome::Success(_) => Answer::ok("commit-success"),
                    TransactionOutcome::Failure(e) => {
                        if let RuntimeError::VmError(VmError::Native(NativeRuntimeError::Trap { export_name, error, .. })) = e {
                            return Answer::fail("commit-failure:trap", format!("native-panic:{}", name), format!("native code panicked in export {}: {}", export_name, error.chars().take(300).collect::<String>()));
                        }
                        if e.abortion().is_some() {
                            return Answer::fail("commit-failure:abortion", "commit-failure-carries-abort", "a committed failure carries an abort request");
                        }
                        Answer::ok(format!("commit-failure:{}", err_class(e)))
                    }
                },
                TransactionResult::Reject(rj) => {
                    if let RejectionReason::ErrorBeforeLoanAndDeferredCostsRepaid(RuntimeError::VmError(VmError::Native(NativeRuntimeError::Trap { export_name, error, .. }))) = &rj.reason {
                        return Answer::fail("reject:trap", format!("native-panic:{}", name), format!("native code panicked in export {}: {}", export_name, error.chars().take(300).collect::<String>()));
                    }
                    Answer::ok("reject")
                }
                TransactionResult::Abort(_) => Answer::fail("abort", "abort-without-configuration", "abort receipt although abort_when_loan_repaid is off"),
            },
        }
    }
}

// ============================================================================================ consts

/// The native dispatch surface as the current tree's ledger has it: one row per declared function of
/// every native blueprint: (has an export entry, is a method, allows direct access, input schema is static).
fn consts_c11() -> Vec<(String, String)> {
    let env = Env::new();
    let mut rows: Vec<String> = vec![];
    let mut names: Vec<String> = vec![];
    for p in native_packages() {
        let defs = env.ledger.get_package_blueprint_definitions(&p);
        let mut keys: Vec<_> = defs.keys().cloned().collect();
        keys.sort_by(|a, b| a.blueprint.cmp(&b.blueprint));
        for k in keys {
            let d = &defs[&k];
            let mut idents: Vec<&String> = d.interface.functions.keys().collect();
            idents.sort();
            for ident in idents {
                let fs = &d.interface.functions[ident];
                let has_export = d.function_exports.contains_key(ident);
                let stat = matches!(fs.input, BlueprintPayloadDef::Static(_)) && matches!(fs.output, BlueprintPayloadDef::Static(_));
                rows.push(format!("({}, {}, {})", has_export, fs.receiver.is_some(), stat));
                names.push(format!("\"{}::{}\"", k.blueprint, ident));
            }
            // every export must belong to a declared function (no unvalidated entry point)
            for ex in d.function_exports.keys() {
                if !d.interface.functions.contains_key(ex) {
                    rows.push("(false, false, false)".to_string());
                    names.push(format!("\"{}::{} (export without schema)\"", k.blueprint, ex));
                }
            }
        }
    }
    vec![
        ("nativeFunctionNames".to_string(), format!("[{}]\traw\tList String", names.join(", "))),
        ("nativeFunctions".to_string(), format!("[{}]\traw\tList (Bool × Bool × Bool)", rows.join(", "))),
        ("NATIVE_FUNCTION_COUNT".to_string(), rows.len().to_string()),
    ]
}

fn main() {
    main_with(&[("c11a", &Classify), ("c11n", &Native)]);
}
