//! C26 — checked_powi / checked_sqrt / checked_cbrt / checked_nth_root of Decimal and PreciseDecimal.
//!
//! ops (stateless, one case per line; values are subunits: attos for `d`, 10^-36 units for `p`):
//!   powi  <d|p> <x> <exp:i64>   -> `val <subunits>` | `none` | `panic`
//!   sqrt  <d|p> <x>
//!   cbrt  <d|p> <x>
//!   nroot <d|p> <x> <n:u32>
//! The property oracle is exact integer arithmetic with num-bigint: roots are checked by the bracketing
//! `|r|^n ≤ |x|·10^(s(n-1)) < (|r|+1)^n` (multiplications only, no library root), powers against the
//! exact rational `x^e`.
use harness::util::*;
use num_bigint::BigInt;
use num_traits::{One, Signed, Zero};
use radix_common::math::*;
use std::io::Write;
use std::str::FromStr;

pub struct A;

fn bits_scale(t: &str) -> Option<(u32, u32)> {
    match t {
        "d" => Some((Decimal::BITS as u32, Decimal::SCALE)),
        "p" => Some((PreciseDecimal::BITS as u32, PreciseDecimal::SCALE)),
        _ => None,
    }
}
fn pow10(n: u64) -> BigInt {
    num_traits::pow(BigInt::from(10), n as usize)
}
fn bpow(b: &BigInt, n: u64) -> BigInt {
    num_traits::pow(b.clone(), n as usize)
}
fn min_of(bits: u32) -> BigInt {
    -(BigInt::one() << (bits as usize - 1))
}
fn max_of(bits: u32) -> BigInt {
    (BigInt::one() << (bits as usize - 1)) - 1
}
fn in_range(bits: u32, v: &BigInt) -> bool {
    *v >= min_of(bits) && *v <= max_of(bits)
}
fn dec_of(v: &BigInt) -> Option<Decimal> {
    I192::try_from(v.clone()).ok().map(Decimal::from_attos)
}
fn pdec_of(v: &BigInt) -> Option<PreciseDecimal> {
    I256::try_from(v.clone()).ok().map(PreciseDecimal::from_precise_subunits)
}
fn dec_sub(d: &Decimal) -> BigInt {
    BigInt::from_signed_bytes_le(&d.attos().to_le_bytes())
}
fn pdec_sub(d: &PreciseDecimal) -> BigInt {
    BigInt::from_signed_bytes_le(&d.precise_subunits().to_le_bytes())
}

fn int_strict(s: &str) -> Option<BigInt> {
    let (neg, digits) = match s.strip_prefix('-') {
        Some(r) => (true, r),
        None => (false, s),
    };
    if digits.is_empty() || !digits.bytes().all(|b| b.is_ascii_digit()) {
        return None;
    }
    if digits.len() > 1 && digits.starts_with('0') {
        return None;
    }
    let n = BigInt::from_str(digits).ok()?;
    if neg && n.is_zero() {
        return None;
    }
    Some(if neg { -n } else { n })
}

/// floor root by bisection with multiplications only (generator helper, not used by the oracle)
fn iroot(n: u64, x: &BigInt) -> BigInt {
    let mut lo = BigInt::zero();
    let mut hi = BigInt::one() << ((x.bits() as usize) / (n as usize) + 1);
    while &hi - &lo > BigInt::one() {
        let mid: BigInt = (&lo + &hi) >> 1;
        if bpow(&mid, n) <= *x { lo = mid } else { hi = mid }
    }
    lo
}

// ---------------------------------------------------------------------------------------------- generator

fn clampv(bits: u32, v: BigInt, rng: &mut Rng) -> BigInt {
    if in_range(bits, &v) { v } else { BigInt::from(rng.range(-5, 5)) }
}

fn gen_value(rng: &mut Rng, bits: u32, scale: u32) -> BigInt {
    let one = pow10(scale as u64);
    let v = match rng.below(14) {
        0 => min_of(bits) + rng.below(3),
        1 => max_of(bits) - rng.below(3),
        2 => BigInt::from(rng.range(-3, 3)),
        3 => {
            let k = rng.below(bits as u64 - 1) as usize;
            let v = (BigInt::one() << k) + rng.range(-2, 2);
            if rng.chance(1, 3) { -v } else { v }
        }
        4 => {
            let k = rng.below(if bits == 192 { 58 } else { 77 });
            let v = pow10(k) + rng.range(-2, 2);
            if rng.chance(1, 3) { -v } else { v }
        }
        5 => BigInt::from(rng.range(-20, 20)) * &one,
        6 => {
            // small rationals with short expansions: a / 2^i 5^j
            let a = BigInt::from(rng.range(-50, 50));
            let i = rng.below(7);
            let j = rng.below(7);
            a * &one / (BigInt::from(2u32).pow(i as u32) * BigInt::from(5u32).pow(j as u32))
        }
        7 => {
            // 1 ± ε, -1 ± ε
            let e = BigInt::from(rng.range(-1000, 1000)) * pow10(rng.below(scale as u64 / 2));
            let s = if rng.chance(1, 4) { -one.clone() } else { one.clone() };
            s + e
        }
        8 => {
            // tiny
            BigInt::from(rng.range(-1000, 1000))
        }
        9 => {
            let nbytes = 1 + rng.below(bits as u64 / 8) as usize;
            BigInt::from_signed_bytes_le(&rng.bytes(nbytes))
        }
        10 => {
            // around 2^(bits/2) .. the square overflow boundary of the wide type
            let k = (bits as i64 / 2 + rng.range(-8, 40)) as usize;
            let v = (BigInt::one() << k) + BigInt::from(rng.next() as i64);
            if rng.chance(1, 3) { -v } else { v }
        }
        _ => {
            let nbytes = 1 + rng.below(12) as usize;
            BigInt::from_signed_bytes_le(&rng.bytes(nbytes))
        }
    };
    clampv(bits, v, rng)
}

/// a value sitting on a root boundary: x·10^(s(n-1)) = r^n + δ for some r
fn gen_root_boundary(rng: &mut Rng, bits: u32, scale: u32, n: u64) -> BigInt {
    let sc = pow10(scale as u64 * (n - 1));
    // pick the root r (in subunits) first
    let r = match rng.below(4) {
        0 => BigInt::from(rng.below(1_000_000)),
        1 => pow10(rng.below(scale as u64 + 12)) * rng.below(100),
        2 => iroot(n, &(max_of(bits) * &sc)) - rng.below(3),
        _ => {
            let nb = 1 + rng.below(bits as u64 / 8 / n.max(1) + 4) as usize;
            BigInt::from_signed_bytes_le(&rng.bytes(nb)).abs()
        }
    };
    let c = bpow(&r, n);
    // smallest x with x*sc >= c  (and neighbours)
    let x: BigInt = (&c + &sc - 1) / &sc + rng.range(-1, 1);
    let x = if rng.chance(1, 4) { -x } else { x };
    clampv(bits, x, rng)
}

fn gen_exp(rng: &mut Rng) -> i64 {
    match rng.below(12) {
        0 => 0,
        1 => 1,
        2 => -1,
        3 => 2,
        4 => 3,
        5 => rng.range(-12, 12),
        6 => rng.range(-70, 70),
        7 => {
            let k = rng.below(9);
            let e = (1i64 << k) + rng.range(-1, 1);
            if rng.chance(1, 3) { -e } else { e }
        }
        8 => rng.range(-400, 400),
        9 => *rng.pick(&[i64::MIN, i64::MAX, i64::MIN + 1, 1 << 62, -(1 << 62), (1 << 62) + 1, 4294967296, -4294967297]),
        _ => rng.range(2, 9),
    }
}

impl Area for A {
    fn gen(&self, rng: &mut Rng, n: usize, out: &mut dyn Write) {
        for i in 0..n {
            let t = if rng.chance(1, 2) { "d" } else { "p" };
            let (bits, scale) = bits_scale(t).unwrap();
            match rng.below(20) {
                0..=6 => {
                    let x = gen_value(rng, bits, scale);
                    let e = gen_exp(rng);
                    writeln!(out, "powi {} {} {}", t, x, e).unwrap();
                }
                7..=8 => {
                    // exactly representable powers: (a·10^-k)^e with small a, k
                    let one = pow10(scale as u64);
                    let a = BigInt::from(rng.range(-30, 30));
                    let k = rng.below(6);
                    let x = a * &one / pow10(k);
                    let e = rng.range(0, if k == 0 { 40 } else { (scale as i64) / (k as i64) + 2 });
                    let e = if rng.chance(1, 6) { -e } else { e };
                    writeln!(out, "powi {} {} {}", t, clampv(bits, x, rng), e).unwrap();
                }
                9..=10 => {
                    let x = if rng.chance(1, 2) { gen_root_boundary(rng, bits, scale, 2) } else { gen_value(rng, bits, scale) };
                    writeln!(out, "sqrt {} {}", t, x).unwrap();
                }
                11..=12 => {
                    let x = if rng.chance(1, 2) { gen_root_boundary(rng, bits, scale, 3) } else { gen_value(rng, bits, scale) };
                    writeln!(out, "cbrt {} {}", t, x).unwrap();
                }
                13..=18 => {
                    let nn: u64 = match rng.below(8) {
                        0 => 0,
                        1 => 1,
                        2 => 2,
                        3 => 3,
                        4 => 2 + rng.below(8),
                        5 => 2 + rng.below(70),
                        6 => 2 + rng.below(300),
                        _ => 4 + rng.below(4),
                    };
                    let x = if nn >= 2 && rng.chance(1, 2) { gen_root_boundary(rng, bits, scale, nn) } else { gen_value(rng, bits, scale) };
                    writeln!(out, "nroot {} {} {}", t, x, nn).unwrap();
                }
                _ => match i % 6 {
                    0 => writeln!(out, "powi {} 1 9223372036854775808", t).unwrap(),
                    1 => writeln!(out, "sqrt {} {}", t, max_of(bits) + 1).unwrap(),
                    2 => writeln!(out, "nroot {} 5 -1", t).unwrap(),
                    3 => writeln!(out, "cbrt q 1").unwrap(),
                    4 => writeln!(out, "powi {} 1.5 2", t).unwrap(),
                    _ => writeln!(out, "root {} 1", t).unwrap(),
                },
            }
        }
    }

    fn runner(&self) -> Box<dyn Runner> {
        Box::new(R)
    }

    fn consts(&self) -> Vec<(String, String)> {
        vec![
            ("DEC_BITS".into(), Decimal::BITS.to_string()),
            ("DEC_SCALE".into(), Decimal::SCALE.to_string()),
            ("PDEC_BITS".into(), PreciseDecimal::BITS.to_string()),
            ("PDEC_SCALE".into(), PreciseDecimal::SCALE.to_string()),
        ]
    }
}

struct R;

/// Ok(Some(v)) value, Ok(None) = None, Err = panic
type Out = Result<Option<BigInt>, String>;

fn show(o: &Out) -> String {
    match o {
        Ok(Some(v)) => format!("val {}", v),
        Ok(None) => "none".to_string(),
        Err(_) => "panic".to_string(),
    }
}

fn run_unary(t: &str, x: &BigInt, f: &str, n: u32, e: i64) -> Out {
    if t == "d" {
        let d = dec_of(x).expect("in range");
        catch(|| {
            let r = match f {
                "sqrt" => d.checked_sqrt(),
                "cbrt" => d.checked_cbrt(),
                "nroot" => d.checked_nth_root(n),
                _ => d.checked_powi(e),
            };
            r.map(|v| dec_sub(&v))
        })
    } else {
        let d = pdec_of(x).expect("in range");
        catch(|| {
            let r = match f {
                "sqrt" => d.checked_sqrt(),
                "cbrt" => d.checked_cbrt(),
                "nroot" => d.checked_nth_root(n),
                _ => d.checked_powi(e),
            };
            r.map(|v| pdec_sub(&v))
        })
    }
}

/// root oracle: returns None when fine, Some((key, description)) on a violation
fn root_oracle(op: &str, t: &str, bits: u32, scale: u32, x: &BigInt, n: u64, out: &Out) -> Option<(String, String)> {
    let must_fail = n == 0 || (x.is_negative() && n % 2 == 0);
    match out {
        Err(m) => Some((format!("{}-panic:{}:n={}", op, t, n), format!("{} of {} subunits (n={}) panicked: {}", op, x, n, m))),
        Ok(None) => {
            if must_fail { None } else {
                Some((format!("{}-fails:{}:n={}", op, t, n), format!("{} of {} subunits (n={}) returned None although the root exists", op, x, n)))
            }
        }
        Ok(Some(r)) => {
            if must_fail {
                return Some((format!("{}-should-fail:{}:n={}", op, t, n), format!("{} of {} subunits (n={}) returned {} but must fail", op, x, n, r)));
            }
            if !in_range(bits, r) {
                return Some((format!("{}-out-of-range:{}", op, t), format!("result {} out of range", r)));
            }
            let c = x * pow10(scale as u64 * (n - 1));
            let sign_ok = r.is_zero() || (r.is_negative() == c.is_negative());
            let ra = r.abs();
            let ca = c.abs();
            let lower = bpow(&ra, n) <= ca;
            let upper = ca < bpow(&(&ra + 1), n);
            if sign_ok && lower && upper { None } else {
                Some((format!("{}-not-truncated-root:{}:n={}", op, t, n), format!("{} of {} subunits (n={}) = {}: sign_ok={} r^n<=c:{} c<(r+1)^n:{}", op, x, n, r, sign_ok, lower, upper)))
            }
        }
    }
}

const EXACT_LIMIT: u64 = 700;

fn powi_oracle(t: &str, bits: u32, scale: u32, x: &BigInt, e: i64, out: &Out) -> Option<(String, String)> {
    let one = pow10(scale as u64);
    if let Err(m) = out {
        return Some((format!("powi-panic:{}:e={}", t, e), format!("checked_powi({}, {}) panicked: {}", x, e, m)));
    }
    let res = out.as_ref().unwrap();
    if let Some(r) = res {
        if !in_range(bits, r) {
            return Some((format!("powi-out-of-range:{}", t), format!("result {} out of range", r)));
        }
    }
    let ea = e.unsigned_abs();
    // cheap exact cases valid for every exponent
    if e == 0 {
        return if res.as_ref() == Some(&one) { None } else { Some((format!("powi-zero-exp:{}", t), format!("x^0 = {:?}", res))) };
    }
    if (*x == one || *x == -&one) && e == i64::MIN {
        // exact value 1 (even exponent) is representable; the code cannot negate i64::MIN
        return if res.as_ref() == Some(&one) { None } else {
            Some((format!("powi-none-exp-is-i64-min:{}", t), format!("checked_powi({}, i64::MIN) = {:?} although the exact result 1 is representable", x, res)))
        };
    }
    if *x == one {
        return if res.as_ref() == Some(&one) { None } else { Some((format!("powi-of-one:{}", t), format!("1^{} = {:?}", e, res))) };
    }
    if x.is_zero() {
        let exp_ok = if e > 0 { res.as_ref() == Some(&BigInt::zero()) } else { res.is_none() };
        return if exp_ok { None } else { Some((format!("powi-of-zero:{}", t), format!("0^{} = {:?}", e, res))) };
    }
    if *x == -&one {
        let want = if ea % 2 == 0 { one.clone() } else { -&one };
        return if res.as_ref() == Some(&want) { None } else { Some((format!("powi-of-minus-one:{}", t), format!("(-1)^{} = {:?}", e, res))) };
    }
    if ea > EXACT_LIMIT {
        // only coarse facts: |x| < 1 and e > 0  ⇒  |result| ≤ |x|
        if let Some(r) = res {
            if e > 0 && x.abs() < one && r.abs() > x.abs() {
                return Some((format!("powi-exceeds-exact:{}:e={}", t, e), format!("|{}^{}| = {} exceeds |x|", x, e, r)));
            }
        }
        return None;
    }
    // exact x^e as a rational num/den in subunits: value·10^s
    //   e > 0:  x^e / 10^(s(e-1))          e < 0:  10^(s(|e|+1)) / x^|e|
    let xp = bpow(x, ea);
    let (num, den) = if e > 0 { (xp, pow10(scale as u64 * (ea - 1))) } else {
        let n = pow10(scale as u64 * (ea + 1));
        if xp.is_negative() { (-n, -xp) } else { (n, xp) }
    };
    // den > 0
    let representable = (&num % &den).is_zero();
    let exact_q = &num / &den; // truncated toward zero
    match res {
        Some(r) => {
            // |r| ≤ |exact|  ⇔  |r|·den ≤ |num| ; sign(r) ∈ {0, sign(exact)}
            let sign_ok = r.is_zero() || (r.is_negative() == num.is_negative());
            if !sign_ok || r.abs() * &den > num.abs() {
                return Some((format!("powi-exceeds-exact:{}:e={}", t, e), format!("checked_powi({}, {}) = {} exceeds the exact value {}/{} in magnitude or has the wrong sign", x, e, r, num, den)));
            }
            if representable && *r != exact_q {
                return Some((format!("powi-inexact-when-representable:{}:e={}", t, e), format!("checked_powi({}, {}) = {} but the exact result {} is representable", x, e, r, exact_q)));
            }
            None
        }
        None => {
            if representable && in_range(bits, &exact_q) {
                let key = if exact_q == min_of(bits) { format!("powi-none-exact-is-min:{}", t) } else { format!("powi-none-when-representable:{}:e={}", t, e) };
                return Some((key, format!("checked_powi({}, {}) = None but the exact result {} subunits is representable", x, e, exact_q)));
            }
            None
        }
    }
}

impl Runner for R {
    fn step(&mut self, line: &str) -> Answer {
        let w: Vec<&str> = line.split(' ').filter(|x| !x.is_empty()).collect();
        if w.len() < 3 {
            return Answer::ok("bad-op");
        }
        let (bits, scale) = match bits_scale(w[1]) {
            Some(x) => x,
            None => return Answer::ok("bad-op"),
        };
        let t = w[1];
        let x = match int_strict(w[2]) {
            Some(v) if in_range(bits, &v) => v,
            _ => return Answer::ok("bad-op"),
        };
        match (w[0], w.len()) {
            ("powi", 4) => {
                let e = match int_strict(w[3]).and_then(|e| i64::try_from(e).ok()) {
                    Some(e) => e,
                    None => return Answer::ok("bad-op"),
                };
                let out = run_unary(t, &x, "powi", 0, e);
                let ans = show(&out);
                match powi_oracle(t, bits, scale, &x, e, &out) {
                    None => Answer::ok(ans),
                    Some((k, d)) => Answer::fail(ans, k, d),
                }
            }
            ("sqrt", 3) | ("cbrt", 3) => {
                let n = if w[0] == "sqrt" { 2 } else { 3 };
                let out = run_unary(t, &x, w[0], 0, 0);
                let ans = show(&out);
                match root_oracle(w[0], t, bits, scale, &x, n, &out) {
                    None => Answer::ok(ans),
                    Some((k, d)) => Answer::fail(ans, k, d),
                }
            }
            ("nroot", 4) => {
                let n = match int_strict(w[3]).and_then(|e| u32::try_from(e).ok()) {
                    Some(n) => n,
                    None => return Answer::ok("bad-op"),
                };
                if n > 5000 {
                    // 10^(scale·(n-1)) is materialised by the code: degrees beyond this are out of scope
                    return Answer::ok("bad-op");
                }
                let out = run_unary(t, &x, "nroot", n, 0);
                let ans = show(&out);
                match root_oracle("nroot", t, bits, scale, &x, n as u64, &out) {
                    None => Answer::ok(ans),
                    Some((k, d)) => Answer::fail(ans, k, d),
                }
            }
            _ => Answer::ok("bad-op"),
        }
    }
}

fn main() {
    main_with(&[("c26", &A)]);
}
