//! C50 — objects are encapsulated by their blueprint.
//!
//!   area `c50`: engine level.  Two native test packages (same code, installed with
//!   `OverridePackageCode` / `publish_native_package` as radix-engine-tests/tests/system does) with the
//!   blueprints "A", "B" (outer, one field) and "I" (inner blueprint of "A").  Their single code entry
//!   interprets a byte-coded list of REAL system calls (`new_simple_object`, `drop_object`,
//!   `allocate_global_address`, `globalize`, `actor_open_field` + `field_write`, `call_method`,
//!   `call_function`, faucet `free`, `Bucket::create_proof_of_all`, `Proof::drop`) against the nodes the
//!   running frame holds in its registers (created by it or passed in as arguments: own objects, inner
//!   objects, objects of the other package, address reservations, buckets, proofs).  One line = one
//!   transaction on the `LedgerSimulator`; the answer is the result class of every system call in
//!   execution order (errors that leave the frame intact do not stop the script), compared with the
//!   Lean model `RadixModel/Model/Encapsulation.lean`.
//!   Property oracle (independent of the model): around every SUCCESSFUL create / drop / globalize /
//!   field-open the interpreter reads, through the real API, the actor's blueprint id and instance
//!   context and the target's blueprint id / outer object, and evaluates the property directly: a drop
//!   needs (proof blueprint dropped by the proof blueprint) or (outer object == actor's instance
//!   context) or (no outer object and same blueprint); a globalize needs the actor's package; a new
//!   object lands in the actor's package (inner: under the actor's instance context); a state handle
//!   only opens for a method actor (OUTER only if the receiver has an outer object).
use harness::util::*;
use radix_common::prelude::*;
use radix_engine::errors::*;
use radix_engine::kernel::kernel_api::{KernelNodeApi, KernelSubstateApi};
use radix_engine::system::system_callback::SystemLockData;
use radix_engine::vm::{OverridePackageCode, VmApi, VmInvoke};
use radix_engine_interface::api::*;
use radix_engine_interface::blueprints::package::*;
use radix_engine_interface::prelude::*;
use radix_blueprint_schema_init::*;
use radix_common::prelude::basic_well_known_types::ANY_TYPE;
use radix_native_sdk::modules::metadata::Metadata;
use radix_native_sdk::modules::role_assignment::RoleAssignment;
use radix_transactions::builder::ManifestBuilder;
use scrypto_test::prelude::*;
use std::cell::RefCell;
use std::io::Write;

const CODE_ID: u64 = 1024;
const NAMES: [&str; 4] = ["A", "B", "I", "Z"];

#[derive(Clone, Copy, PartialEq, Debug)]
enum Tag {
    Obj = 0,
    Resv = 1,
    Bucket = 2,
    Proof = 3,
}
fn tag_of(b: u8) -> Tag {
    match b {
        0 => Tag::Obj,
        1 => Tag::Resv,
        2 => Tag::Bucket,
        _ => Tag::Proof,
    }
}

#[derive(Default)]
struct Ctx {
    pkgs: Vec<PackageAddress>,
    fixed_globals: Vec<GlobalAddress>,
    new_globals: Vec<GlobalAddress>,
    trace: Vec<String>,
    violations: Vec<(String, String)>,
    aborted: bool,
}
thread_local! {
    static CTX: RefCell<Ctx> = RefCell::new(Ctx::default());
}
fn log(s: &str) {
    CTX.with(|c| c.borrow_mut().trace.push(s.to_string()));
}
fn violation(k: &str, d: String) {
    CTX.with(|c| c.borrow_mut().violations.push((k.to_string(), d)));
}

fn class(e: &RuntimeError) -> String {
    match e {
        RuntimeError::SystemError(s) => match s {
            SystemError::InvalidChildObjectCreation => "InvalidChildObjectCreation".into(),
            SystemError::BlueprintDoesNotExist(..) => "BlueprintDoesNotExist".into(),
            SystemError::InvalidDropAccess(..) => "InvalidDropAccess".into(),
            SystemError::NotAnObject => "NotAnObject".into(),
            SystemError::NotAnAddressReservation => "NotAnAddressReservation".into(),
            SystemError::InvalidGlobalizeAccess(..) => "InvalidGlobalizeAccess".into(),
            SystemError::CannotGlobalize(CannotGlobalizeError::InvalidBlueprintId) => "InvalidBlueprintId".into(),
            SystemError::GlobalizingTransientBlueprint => "GlobalizingTransientBlueprint".into(),
            SystemError::InvalidActorStateHandle => "InvalidActorStateHandle".into(),
            SystemError::OuterObjectDoesNotExist => "OuterObjectDoesNotExist".into(),
            other => format!("other:{:?}", other).chars().take(50).collect(),
        },
        other => format!("other:{:?}", other).chars().take(50).collect(),
    }
}

/// what the real API says about the running actor: (blueprint id, instance context)
fn actor_view<Y: SystemApi<RuntimeError>>(api: &mut Y) -> Result<(BlueprintId, Option<NodeId>, bool), RuntimeError> {
    let bp = api.actor_get_blueprint_id()?;
    let this = api.actor_get_node_id(ACTOR_REF_SELF).ok();
    let ctx = match this {
        Some(n) if n.is_global() => Some(n),
        Some(_) => api.actor_get_node_id(ACTOR_REF_OUTER).ok(),
        None => None,
    };
    Ok((bp, ctx, this.is_some()))
}

#[derive(Clone)]
struct Interp;

impl Interp {
    fn run<Y: SystemApi<RuntimeError> + KernelNodeApi + KernelSubstateApi<SystemLockData>>(
        script: &[u8],
        mut regs: Vec<Option<(NodeId, Tag)>>,
        api: &mut Y,
    ) -> Result<Vec<Option<(NodeId, Tag)>>, RuntimeError> {
        let pkgs = CTX.with(|c| c.borrow().pkgs.clone());
        let mut pc = 0usize;
        let get = |regs: &Vec<Option<(NodeId, Tag)>>, i: u8| -> Option<(NodeId, Tag)> { regs.get(i as usize).cloned().flatten() };
        macro_rules! arg {
            () => {{
                if pc >= script.len() {
                    log("refused");
                    return Err(RuntimeError::SystemError(SystemError::InvalidActorStateHandle));
                }
                let b = script[pc];
                pc += 1;
                b
            }};
        }
        while pc < script.len() {
            let op = arg!();
            match op {
                1 => {
                    let name = arg!();
                    let (abp, actx, _) = actor_view(api)?;
                    let r = api.new_simple_object(NAMES[(name as usize).min(3)], indexmap!(0u8 => FieldValue::new(())));
                    match r {
                        Ok(n) => {
                            let bp = api.get_blueprint_id(&n)?;
                            let outer = api.get_outer_object(&n).ok().map(|a| a.into_node_id());
                            if bp.package_address != abp.package_address {
                                violation("create-outside-package", format!("actor {:?} created an object of {:?}", abp, bp));
                            }
                            if outer.is_some() && outer != actx {
                                violation("create-foreign-inner", format!("actor {:?} ctx {:?} created inner object under {:?}", abp, actx, outer));
                            }
                            regs.push(Some((n, Tag::Obj)));
                            log("ok")
                        }
                        Err(e) => log(&class(&e)),
                    }
                }
                2 => {
                    let i = arg!();
                    match get(&regs, i) {
                        None => log("noreg"),
                        Some((n, _)) => {
                            let (abp, actx, _) = actor_view(api)?;
                            let tbp = api.get_blueprint_id(&n).ok();
                            let touter = api.get_outer_object(&n).ok().map(|a| a.into_node_id());
                            match api.drop_object(&n) {
                                Ok(_) => {
                                    let is_proof = tbp.as_ref().map(|b| b.package_address == RESOURCE_PACKAGE && (b.blueprint_name == FUNGIBLE_PROOF_BLUEPRINT || b.blueprint_name == NON_FUNGIBLE_PROOF_BLUEPRINT)).unwrap_or(false);
                                    let allowed = match (&tbp, is_proof, touter) {
                                        (Some(t), true, _) => *t == abp,
                                        (Some(_), false, Some(o)) => actx == Some(o),
                                        (Some(t), false, None) => *t == abp,
                                        (None, _, _) => false,
                                    };
                                    if !allowed {
                                        violation("foreign-drop", format!("actor {:?} ctx {:?} dropped {:?} outer {:?}", abp, actx, tbp, touter));
                                    }
                                    regs[i as usize] = None;
                                    log("ok")
                                }
                                Err(e) => log(&class(&e)),
                            }
                        }
                    }
                }
                3 => {
                    let p = arg!();
                    let name = arg!();
                    let pkg = pkgs[(p as usize) % pkgs.len()];
                    match api.allocate_global_address(BlueprintId::new(&pkg, NAMES[(name as usize).min(3)])) {
                        Ok((resv, _)) => {
                            regs.push(Some((resv.0 .0, Tag::Resv)));
                            log("ok")
                        }
                        Err(e) => {
                            log(&class(&e));
                            return Err(e);
                        }
                    }
                }
                4 => {
                    let i = arg!();
                    let j = arg!();
                    let node = get(&regs, i);
                    let res = if j == 255 { Some(None) } else { get(&regs, j).map(Some) };
                    match (node, res) {
                        (Some((n, _)), Some(res)) => {
                            if i == j {
                                log("refused");
                                continue;
                            }
                            let (abp, _, _) = actor_view(api)?;
                            let tbp = api.get_blueprint_id(&n).ok();
                            let metadata = Metadata::create(api)?;
                            let ra = RoleAssignment::create(OwnerRole::None, indexmap!(), api)?;
                            let r = api.globalize(
                                n,
                                indexmap!(AttachedModuleId::Metadata => metadata.0, AttachedModuleId::RoleAssignment => ra.0 .0),
                                res.map(|(r, _)| GlobalAddressReservation(Own(r))),
                            );
                            match r {
                                Ok(addr) => {
                                    let gbp = api.get_blueprint_id(addr.as_node_id()).ok();
                                    if gbp.as_ref().map(|b| b.package_address) != Some(abp.package_address) || gbp != tbp {
                                        violation("foreign-globalize", format!("actor {:?} globalized {:?} as {:?}", abp, tbp, gbp));
                                    }
                                    CTX.with(|c| c.borrow_mut().new_globals.push(addr));
                                    regs[i as usize] = None;
                                    if j != 255 {
                                        regs[j as usize] = None;
                                    }
                                    log("ok")
                                }
                                Err(e) => {
                                    log(&class(&e));
                                    return Err(e);
                                }
                            }
                        }
                        _ => log("noreg"),
                    }
                }
                5 => {
                    let handle = arg!();
                    let mode = arg!();
                    let flags = if mode == 1 { LockFlags::MUTABLE } else { LockFlags::read_only() };
                    match api.actor_open_field(handle as u32, 0u8, flags) {
                        Ok(h) => {
                            let (abp, _, is_method) = actor_view(api)?;
                            let has_outer = api.actor_get_node_id(ACTOR_REF_OUTER).is_ok();
                            if !is_method || (handle == 1 && !has_outer) || handle > 1 {
                                violation("state-handle-foreign", format!("actor {:?} opened state handle {}", abp, handle));
                            }
                            if mode == 1 {
                                api.field_write(h, scrypto_encode(&()).unwrap())?;
                            }
                            api.field_close(h)?;
                            log("ok")
                        }
                        Err(e) => log(&class(&e)),
                    }
                }
                6 | 7 => {
                    let a0 = arg!();
                    let a1 = arg!();
                    let n = arg!() as usize;
                    let mut args = vec![];
                    for _ in 0..n {
                        args.push(arg!());
                    }
                    let len = arg!() as usize;
                    let sub: Vec<u8> = script[pc.min(script.len())..(pc + len).min(script.len())].to_vec();
                    pc = (pc + len).min(script.len());
                    // target
                    let target: Option<NodeId> = if op == 6 {
                        if a0 == 0 {
                            match get(&regs, a1) {
                                Some((n, Tag::Obj)) => Some(n),
                                _ => None,
                            }
                        } else {
                            CTX.with(|c| {
                                let c = c.borrow();
                                let all: Vec<GlobalAddress> = c.fixed_globals.iter().chain(c.new_globals.iter()).cloned().collect();
                                all.get(a1 as usize).map(|a| a.into_node_id())
                            })
                        }
                    } else {
                        None
                    };
                    if op == 6 && target.is_none() {
                        log("noreg");
                        continue;
                    }
                    if op == 6 && a0 == 0 && args.contains(&a1) {
                        log("refused");
                        continue;
                    }
                    if op == 7 && !(a0 < 2 && a1 < 2) {
                        log("refused");
                        continue;
                    }
                    // take the arguments
                    let mut tmp = regs.clone();
                    let mut owns: Vec<Own> = vec![];
                    let mut tags: Vec<u8> = vec![];
                    let mut ok = true;
                    for a in &args {
                        match get(&tmp, *a) {
                            Some((n, t)) if t != Tag::Proof => {
                                owns.push(Own(n));
                                tags.push(t as u8);
                                tmp[*a as usize] = None;
                            }
                            _ => {
                                ok = false;
                                break;
                            }
                        }
                    }
                    if !ok {
                        log("noreg");
                        continue;
                    }
                    regs = tmp;
                    let refs: Vec<GlobalAddress> = CTX.with(|c| {
                        let c = c.borrow();
                        let mut v: Vec<GlobalAddress> = vec![GlobalAddress::from(FAUCET)];
                        v.extend(c.pkgs.iter().map(|p| GlobalAddress::from(*p)));
                        v.extend(c.fixed_globals.iter().cloned());
                        v.extend(c.new_globals.iter().cloned());
                        v
                    });
                    let input = scrypto_encode(&(sub, owns, tags, refs)).unwrap();
                    let out = if op == 6 {
                        api.call_method(&target.unwrap(), "exec", input)?
                    } else {
                        api.call_function(pkgs[a0 as usize], NAMES[a1 as usize], "run", input)?
                    };
                    // the callee hands back references to the components globalized so far, so that this
                    // frame may name them in later calls (kernel visibility is not part of the model)
                    let (owns, tags, _refs): (Vec<Own>, Vec<u8>, Vec<GlobalAddress>) = scrypto_decode(&out).unwrap();
                    for (o, t) in owns.into_iter().zip(tags) {
                        regs.push(Some((o.0, tag_of(t))));
                    }
                    log("ok")
                }
                8 => {
                    let out = api.call_method(FAUCET.as_node_id(), "free", scrypto_encode(&()).unwrap())?;
                    let b: Bucket = scrypto_decode(&out).unwrap();
                    regs.push(Some((b.0 .0, Tag::Bucket)));
                    log("ok")
                }
                9 => {
                    let i = arg!();
                    match get(&regs, i) {
                        Some((n, Tag::Bucket)) => {
                            let out = api.call_method(&n, BUCKET_CREATE_PROOF_OF_ALL_IDENT, scrypto_encode(&BucketCreateProofOfAllInput {}).unwrap())?;
                            let p: Proof = scrypto_decode(&out).unwrap();
                            regs.push(Some((p.0 .0, Tag::Proof)));
                            log("ok")
                        }
                        _ => log("noreg"),
                    }
                }
                11 => {
                    let i = arg!();
                    match get(&regs, i) {
                        Some((n, Tag::Proof)) => {
                            api.call_function(RESOURCE_PACKAGE, FUNGIBLE_PROOF_BLUEPRINT, PROOF_DROP_IDENT, scrypto_encode(&ProofDropInput { proof: Proof(Own(n)) }).unwrap())?;
                            regs[i as usize] = None;
                            log("ok")
                        }
                        _ => log("noreg"),
                    }
                }
                _ => {
                    log("refused");
                    return Err(RuntimeError::SystemError(SystemError::InvalidActorStateHandle));
                }
            }
        }
        Ok(regs)
    }
}

impl VmInvoke for Interp {
    fn invoke<Y: SystemApi<RuntimeError> + KernelNodeApi + KernelSubstateApi<SystemLockData>, V: VmApi>(
        &mut self,
        export_name: &str,
        input: &IndexedScryptoValue,
        api: &mut Y,
        _vm_api: &V,
    ) -> Result<IndexedScryptoValue, RuntimeError> {
        match export_name {
            "setup" => {
                // new + globalize one instance of the called blueprint (used once at start-up)
                let bp = api.actor_get_blueprint_id()?;
                let n = api.new_simple_object(&bp.blueprint_name, indexmap!(0u8 => FieldValue::new(())))?;
                let metadata = Metadata::create(api)?;
                let ra = RoleAssignment::create(OwnerRole::None, indexmap!(), api)?;
                let addr = api.globalize(n, indexmap!(AttachedModuleId::Metadata => metadata.0, AttachedModuleId::RoleAssignment => ra.0 .0), None)?;
                Ok(IndexedScryptoValue::from_typed(&addr))
            }
            _ => {
                let (script, owns, tags, _refs): (Vec<u8>, Vec<Own>, Vec<u8>, Vec<GlobalAddress>) = input.as_typed().unwrap();
                let regs: Vec<Option<(NodeId, Tag)>> = owns.into_iter().zip(tags).map(|(o, t)| Some((o.0, tag_of(t)))).collect();
                let regs = match Interp::run(&script, regs, api) {
                    Ok(r) => r,
                    Err(e) => {
                        CTX.with(|c| c.borrow_mut().aborted = true);
                        return Err(e);
                    }
                };
                // frame exit: proofs are dropped by their holder, everything else is handed back
                let mut owns = vec![];
                let mut tags = vec![];
                for (n, t) in regs.into_iter().flatten() {
                    if t == Tag::Proof {
                        api.call_function(RESOURCE_PACKAGE, FUNGIBLE_PROOF_BLUEPRINT, PROOF_DROP_IDENT, scrypto_encode(&ProofDropInput { proof: Proof(Own(n)) }).unwrap())?;
                    } else {
                        owns.push(Own(n));
                        tags.push(t as u8);
                    }
                }
                let refs: Vec<GlobalAddress> = CTX.with(|c| c.borrow().new_globals.clone());
                Ok(IndexedScryptoValue::from_typed(&(owns, tags, refs)))
            }
        }
    }
}

fn definition() -> PackageDefinition {
    let mut blueprints = index_map_new();
    for (name, inner, funcs) in [
        ("A", None, vec![("run", false), ("exec", true), ("setup", false)]),
        ("B", None, vec![("run", false), ("exec", true), ("setup", false)]),
        ("I", Some("A"), vec![("exec", true)]),
    ] {
        blueprints.insert(
            name.to_string(),
            BlueprintDefinitionInit {
                blueprint_type: match inner {
                    Some(o) => BlueprintType::Inner { outer_blueprint: o.to_string() },
                    None => BlueprintType::Outer,
                },
                schema: BlueprintSchemaInit {
                    state: BlueprintStateSchemaInit {
                        fields: vec![FieldSchema::static_field(LocalTypeId::WellKnown(ANY_TYPE))],
                        ..Default::default()
                    },
                    functions: BlueprintFunctionsSchemaInit {
                        functions: funcs
                            .into_iter()
                            .map(|(f, recv)| {
                                (
                                    f.to_string(),
                                    FunctionSchemaInit {
                                        receiver: if recv { Some(ReceiverInfo::normal_ref()) } else { None },
                                        input: TypeRef::Static(LocalTypeId::WellKnown(ANY_TYPE)),
                                        output: TypeRef::Static(LocalTypeId::WellKnown(ANY_TYPE)),
                                        export: f.to_string(),
                                    },
                                )
                            })
                            .collect(),
                    },
                    ..Default::default()
                },
                ..Default::default()
            },
        );
    }
    PackageDefinition { blueprints }
}

type Ledger = LedgerSimulator<OverridePackageCode<Interp>, InMemorySubstateDatabase>;

struct R {
    ledger: Ledger,
    pkgs: Vec<PackageAddress>,
    fixed: Vec<GlobalAddress>,
    account: ComponentAddress,
}

impl R {
    fn new() -> R {
        let mut ledger = LedgerSimulatorBuilder::new().with_custom_extension(OverridePackageCode::new(CODE_ID, Interp)).without_kernel_trace().build();
        let p0 = ledger.publish_native_package(CODE_ID, definition());
        let p1 = ledger.publish_native_package(CODE_ID, definition());
        let pkgs = vec![p0, p1];
        CTX.with(|c| {
            let mut c = c.borrow_mut();
            *c = Ctx::default();
            c.pkgs = pkgs.clone();
        });
        let mut fixed = vec![];
        for (p, b) in [(p0, "A"), (p1, "A"), (p0, "B")] {
            let receipt = ledger.execute_manifest(ManifestBuilder::new().lock_fee_from_faucet().call_function(p, b, "setup", manifest_args!()).build(), vec![]);
            let addr = receipt.expect_commit_success().new_component_addresses()[0];
            fixed.push(GlobalAddress::from(addr));
        }
        let (_, _, account) = ledger.new_allocated_account();
        CTX.with(|c| c.borrow_mut().fixed_globals = fixed.clone());
        R { ledger, pkgs, fixed, account }
    }
}

fn parse_line(line: &str) -> Option<(usize, usize, Vec<u8>)> {
    let t: Vec<&str> = line.split(' ').filter(|w| !w.is_empty()).collect();
    if t.len() < 3 || t[0] != "run" {
        return None;
    }
    let num = |s: &str| -> Option<u64> {
        if s.is_empty() || s.len() > 9 || !s.bytes().all(|b| b.is_ascii_digit()) {
            None
        } else {
            s.parse().ok()
        }
    };
    let p = num(t[1])?;
    let b = num(t[2])?;
    let mut script = vec![];
    for w in &t[3..] {
        let v = num(w)?;
        if v >= 256 {
            return None;
        }
        script.push(v as u8);
    }
    if p >= 2 || b >= 2 || script.len() > 200 {
        return None;
    }
    Some((p as usize, b as usize, script))
}

impl Runner for R {
    fn step(&mut self, line: &str) -> Answer {
        let (p, b, script) = match parse_line(line) {
            Some(x) => x,
            None => return Answer::ok("bad-op"),
        };
        CTX.with(|c| {
            let mut c = c.borrow_mut();
            c.trace.clear();
            c.violations.clear();
            c.new_globals.clear();
            c.aborted = false;
        });
        let _ = &self.fixed;
        let mut refs: Vec<GlobalAddress> = vec![GlobalAddress::from(FAUCET)];
        refs.extend(self.pkgs.iter().map(|p| GlobalAddress::from(*p)));
        refs.extend(self.fixed.iter().cloned());
        let manifest = ManifestBuilder::new()
            .lock_fee_from_faucet()
            .call_function(self.pkgs[p], NAMES[b], "run", manifest_args!(script, Vec::<ManifestBucket>::new(), Vec::<u8>::new(), refs))
            .try_deposit_entire_worktop_or_abort(self.account, None)
            .build();
        let receipt = self.ledger.execute_manifest(manifest, vec![]);
        let (trace, violations): (Vec<String>, Vec<(String, String)>) = CTX.with(|c| {
            let c = c.borrow();
            (c.trace.clone(), c.violations.clone())
        });
        // did the script abort the transaction?  (the transaction may also fail AFTER the script, e.g.
        // because objects are left over in the transaction processor's frame — irrelevant here)
        let _ = &receipt;
        let fatal = CTX.with(|c| c.borrow().aborted);
        let ans = format!("{} {}", if fatal { "abort" } else { "done" }, trace.join(","));
        if let Some((k, d)) = violations.first() {
            return Answer::fail(ans, k.clone(), d.clone());
        }
        Answer::ok(ans)
    }
}

// ------------------------------------------------------------------------------------------ generator

pub struct A;

/// generator-side shadow of a frame's registers: what kind of thing each register holds
#[derive(Clone, Copy, PartialEq)]
enum G {
    Empty,
    Obj,
    Resv,
    Bucket,
    Proof,
}

fn gen_script(rng: &mut Rng, depth: u32, regs: &mut Vec<G>, n_globals: &mut u32, budget: &mut i32, faucet_used: &mut bool) -> Vec<u8> {
    let mut s: Vec<u8> = vec![];
    let n_ops = 1 + rng.below(if depth == 0 { 9 } else { 5 });
    for _ in 0..n_ops {
        if *budget <= 0 {
            break;
        }
        *budget -= 1;
        let pick = |rng: &mut Rng, regs: &Vec<G>, want: &[G]| -> u8 {
            let c: Vec<u8> = regs.iter().enumerate().filter(|(_, g)| want.contains(g)).map(|(i, _)| i as u8).collect();
            if c.is_empty() || rng.chance(1, 12) {
                rng.below(regs.len() as u64 + 2) as u8
            } else {
                *rng.pick(&c)
            }
        };
        let has = |regs: &Vec<G>, want: &[G]| -> bool { regs.iter().any(|g| want.contains(g)) };
        let mut roll = rng.below(100);
        // steer away from ops that have nothing to work on (kept with a small probability)
        let starved = match roll {
            18..=33 => !has(regs, &[G::Obj, G::Bucket, G::Proof, G::Resv]),
            42..=51 => !has(regs, &[G::Obj]),
            91..=94 => !has(regs, &[G::Bucket]),
            95..=97 => !has(regs, &[G::Proof]),
            86..=90 => *faucet_used,
            _ => false,
        };
        if starved && !rng.chance(1, 10) {
            roll = *rng.pick(&[0u64, 0, 34, 52, 64, 86]);
            if roll == 86 && *faucet_used {
                roll = 0;
            }
        }
        match roll {
            0..=17 => {
                let name = *rng.pick(&[0u8, 0, 1, 1, 2, 2, 3]);
                s.extend([1, name]);
                // the generator does not know whether an inner object can be created here; assume yes
                // only for names 0/1 — a wrong guess merely shifts later register picks
                if name < 2 {
                    regs.push(G::Obj)
                }
            }
            18..=33 => {
                let i = pick(rng, regs, &[G::Obj, G::Obj, G::Bucket, G::Proof, G::Resv]);
                s.extend([2, i]);
            }
            34..=41 => {
                s.extend([3, rng.below(2) as u8, *rng.pick(&[0u8, 0, 1, 2, 3])]);
                regs.push(G::Resv);
            }
            42..=51 => {
                let i = pick(rng, regs, &[G::Obj]);
                let j = if rng.chance(1, 2) { 255 } else { pick(rng, regs, &[G::Resv]) };
                s.extend([4, i, j]);
                *n_globals += 1; // optimistic
            }
            52..=63 => {
                s.extend([5, *rng.pick(&[0u8, 0, 1, 1, 7]), rng.below(2) as u8]);
            }
            64..=85 if depth < 3 => {
                // call
                let is_method = rng.chance(2, 3);
                let (a0, a1) = if is_method {
                    if rng.chance(1, 2) {
                        (0u8, pick(rng, regs, &[G::Obj]))
                    } else {
                        (1u8, rng.below(*n_globals as u64 + 1) as u8)
                    }
                } else {
                    (rng.below(2) as u8, rng.below(2) as u8)
                };
                let mut args: Vec<u8> = vec![];
                let mut sub_regs: Vec<G> = vec![];
                for (i, g) in regs.clone().iter().enumerate() {
                    if *g != G::Empty && *g != G::Proof && !(is_method && a0 == 0 && i as u8 == a1) && rng.chance(1, 2) {
                        args.push(i as u8);
                        sub_regs.push(*g);
                        regs[i] = G::Empty;
                    }
                }
                if rng.chance(1, 25) {
                    args.push(rng.below(regs.len() as u64 + 1) as u8);
                }
                let sub = gen_script(rng, depth + 1, &mut sub_regs, n_globals, budget, faucet_used);
                if sub.len() > 100 {
                    continue;
                }
                s.extend([if is_method { 6 } else { 7 }, a0, a1, args.len() as u8]);
                s.extend(&args);
                s.push(sub.len() as u8);
                s.extend(&sub);
                for g in sub_regs {
                    if g != G::Empty && g != G::Proof {
                        regs.push(g)
                    }
                }
            }
            86..=90 => {
                s.push(8);
                if !*faucet_used {
                    regs.push(G::Bucket);
                }
                *faucet_used = true;
            }
            91..=94 => {
                let i = pick(rng, regs, &[G::Bucket]);
                s.extend([9, i]);
                if regs.get(i as usize) == Some(&G::Bucket) {
                    regs.push(G::Proof)
                }
            }
            95..=97 => {
                let i = pick(rng, regs, &[G::Proof]);
                s.extend([11, i]);
            }
            _ => {
                s.extend([1, rng.below(2) as u8]);
                regs.push(G::Obj);
            }
        }
    }
    s
}

impl Area for A {
    fn gen(&self, rng: &mut Rng, n: usize, out: &mut dyn Write) {
        for i in 0..n {
            if i % 40 == 39 {
                let l = *rng.pick(&["run", "run 0", "run 2 0 1 0", "run 0 3 1 0", "run 0 0 256", "run 0 0 1 x", "walk 0 0", "run 0 0 1", "run 0 0 6 1 0", "run 0 0 99"]);
                writeln!(out, "{}", l).unwrap();
                continue;
            }
            let mut regs = vec![];
            let mut n_globals = 3u32;
            let mut budget = 14i32;
            let mut faucet_used = false;
            let s = gen_script(rng, 0, &mut regs, &mut n_globals, &mut budget, &mut faucet_used);
            let s: Vec<String> = s.iter().take(200).map(|b| b.to_string()).collect();
            writeln!(out, "run {} {} {}", rng.below(2), rng.below(2), s.join(" ")).unwrap();
        }
    }
    fn runner(&self) -> Box<dyn Runner> {
        Box::new(R::new())
    }
}

fn main() {
    main_with(&[("c50", &A)]);
}
