//! C44 — consensus time and rounds only move forward.
//!
//! Engine-level: every `next` is a real round-update system transaction on the ledger simulator
//! (custom genesis per case: epoch-change condition, validator count, initial time, genesis epoch),
//! every `cmp` / `get` a real `compare_current_time` / `get_current_time` call through a manifest.
//! After every op the consensus-manager substates are read back from the substate database.
//!
//! Line protocol (stateful, `reset` starts a case):
//!   reset K MIN MAX TARGET T0 E0    genesis with K validators (1..3), EpochChangeCondition{MIN,MAX,TARGET},
//!                                   initial_time_ms T0, genesis epoch E0 (bootstrap + all protocol updates)
//!   next R TS LEADER FALLBACK GAPS  next_round(R, TS, {gaps (`-` or a,b,..), LEADER, FALLBACK 0/1}) with validator auth
//!   nextnoauth R TS                 the same call without the validator proof
//!   setepoch E                      state injection (not a transaction): overwrite the epoch field of the State substate —
//!                                   the only way to reach Epoch::next() == None (a genesis near u64::MAX panics in the
//!                                   transaction tracker's partition arithmetic long before)
//!   cmp INSTANT m|s eq|lt|lte|gt|gte
//!   get m|s
//! Answers: `ok <state>`, `err <Kind> <state>`, `true|false`, seconds, `no-state`, `bad-op`.
//! <state> = e=<epoch> r=<round> ms=<milli> min=<minute> eff=<effective start> act=<actual start> ld=<leader> st=<made/missed,..>
use harness::util::*;
use radix_common::prelude::*;
use radix_engine::blueprints::consensus_manager::*;
use radix_engine::errors::*;
use radix_engine::system::system_db_reader::SystemDatabaseReader;
use radix_engine::transaction::*;
use radix_engine::updates::*;
use radix_engine_interface::blueprints::consensus_manager::*;
use radix_engine_interface::prelude::*;
use radix_transactions::prelude::*;
use scrypto_test::prelude::*;
use std::collections::HashMap;
use std::io::Write;

pub struct A;

const I32_MAX_MS: i64 = 2147483647i64 * 60000; // first milli of the last representable minute
const I32_MIN_MS: i64 = -2147483648i64 * 60000;

/// (K, MIN, MAX, TARGET, T0, E0) — the pool of genesis configurations the generator draws from
/// (each distinct `reset` line costs one bootstrap in the runner, snapshots are cached).
const POOL: &[(u8, u64, u64, u64, i64, u64)] = &[
    (1, 1, 1, 0, 1, 1),                                   // ConsensusManagerConfig::test_default
    (1, 2, 5, 1000, 1, 1),                                // time or round driven
    (2, 3, 10, 60000, 0, 5),
    (3, 1, 1_000_000, 1000, 1, 1),                        // time driven only
    (1, 0, 0, 0, 0, 0),                                   // max_round_count = 0
    (1, 5, 3, 1000, 1000, 7),                             // min > max
    (1, 2, 6, 300000, -100000, 1),                        // negative initial time
    (1, 1, 4, 2000, I32_MAX_MS - 5000, 1),                // close to the i32 minute limit
    (1, 1, 3, 1000, 1, u64::MAX - (1u64 << 40)),          // large epoch numbers (not closer: the transaction tracker adds its partition span to the epoch)
    (2, 2, 8, u64::MAX, 1, 1),                            // target duration u64::MAX
    (1, 1, 100, 1500, I32_MIN_MS - 20000, 3),             // most negative representable minute
    (1, 500, 3000, 300000, 1_700_000_000_000, 1),         // mainnet_genesis condition
    (1, 1, 50, 999, 5, 1),                                // target below the 1000 ms threshold of the drift correction
];
/// genesis configurations that must fail
const BAD_POOL: &[(u8, u64, u64, u64, i64, u64)] = &[
    (1, 1, 1, 0, I32_MAX_MS + 60000, 1),
    (1, 1, 1, 0, I32_MIN_MS - 60000, 1),
];

/// generator-side predictor (only used to make most requests valid; never compared with anything)
struct Pred {
    min: u64,
    max: u64,
    target: u64,
    k: u8,
    round: u64,
    milli: i64,
    eff: i64,
}
impl Pred {
    fn accept(&mut self, r: u64, ts: i64) {
        let dur = if ts >= 0 && self.eff >= 0 && ts > self.eff { (ts - self.eff) as u64 } else { 0 };
        let change = if r >= self.max { true } else if r < self.min { false } else { dur >= self.target };
        self.milli = ts;
        if change {
            self.round = 0;
            let close = dur >= 1000
                && self.target >= 1000
                && 1_000_000_000_000_000_000i128 * (dur as i128 - self.target as i128) < 100_000_000_000_000_001i128 * self.target as i128;
            self.eff = if close { self.eff.saturating_add_unsigned(self.target) } else { ts };
        } else {
            self.round = r;
        }
    }
}

fn ts_choice(rng: &mut Rng, p: &Pred) -> i64 {
    let cur = p.milli;
    let add = |d: i64| cur.saturating_add(d);
    let mut c = rng.below(24);
    if (16..=19).contains(&c) && !rng.chance(1, 3) {
        c = 23; // absolute / extreme values less often: they mostly end the useful part of a case
    }
    match c {
        0 | 1 => cur,
        2 | 3 => add(1),
        4 => add(rng.range(2, 998)),
        5 => add(*rng.pick(&[999, 1000, 1001])),
        6 => add(*rng.pick(&[59_999, 60_000, 60_001])),
        7 => cur - cur % 60000 + 60000 - 1,     // last milli of the current minute (positive times)
        8 => cur - cur % 60000 + 60000,         // first milli of the next one
        9 | 10 => {
            // around the target duration, measured from the (approximate) effective start
            let t = p.target.min(i64::MAX as u64 / 2) as i64;
            let base = p.eff.saturating_add(t);
            let c = base.saturating_add(*rng.pick(&[-1, 0, 1]));
            if c >= cur { c } else { add(rng.range(0, 3000)) }
        }
        11 => {
            // around the +10% boundary of the drift correction
            let t = p.target.min(i64::MAX as u64 / 4) as i64;
            let base = p.eff.saturating_add(t + t / 10);
            let c = base.saturating_add(*rng.pick(&[-1, 0, 1, 2]));
            if c >= cur { c } else { add(rng.range(0, 3000)) }
        }
        12 => add(rng.range(1000, 200_000)),
        13 => add(rng.range(1, 5000)),
        14 => cur.saturating_sub(1),                       // smaller
        15 => cur.saturating_sub(rng.range(1, 100_000)),   // smaller
        16 => *rng.pick(&[I32_MAX_MS + 59_999, I32_MAX_MS + 60_000, I32_MAX_MS, I32_MAX_MS - 1]),
        17 => *rng.pick(&[i64::MAX, i64::MIN, i64::MAX - 1, 0, -1, 1]),
        18 => *rng.pick(&[I32_MIN_MS, I32_MIN_MS - 59_999, I32_MIN_MS - 60_000, I32_MIN_MS + 1]),
        19 => -(rng.range(0, 200_000)),
        20 => add(rng.range(0, 1i64 << 40)),
        _ => add(rng.range(0, 2500)),
    }
}

fn write_next(rng: &mut Rng, p: &mut Pred, out: &mut dyn Write) {
    let ts = ts_choice(rng, p);
    // round + gaps
    let (r, gaps): (u64, Vec<u8>) = match rng.below(20) {
        0..=10 => (p.round.saturating_add(1), vec![]),
        11..=13 => {
            let g = 1 + rng.below(4);
            (p.round.saturating_add(1 + g), (0..g).map(|_| rng.below(p.k as u64) as u8).collect())
        }
        14 => (p.round, vec![]),                                   // equal round
        15 => (p.round.saturating_sub(1 + rng.below(3)), vec![]),  // smaller round
        16 => {
            // gap list inconsistent with the progress
            let g = rng.below(4);
            (p.round.saturating_add(1 + g), (0..(g + 1 + rng.below(2))).map(|_| 0u8).collect())
        }
        17 => (*rng.pick(&[u64::MAX, u64::MAX - 1, 1u64 << 63, 0]), vec![]),
        18 => {
            // gap leader out of range
            let g = 1 + rng.below(3);
            (p.round.saturating_add(1 + g), (0..g).map(|_| if rng.chance(1, 2) { p.k } else { rng.below(256) as u8 }).collect())
        }
        _ => (1, vec![]), // valid right after an epoch change the predictor missed
    };
    let leader: u8 = match rng.below(36) {
        0 => p.k,
        1 => 255,
        2 => rng.below(256) as u8,
        _ => rng.below(p.k as u64) as u8,
    };
    let fb = if rng.chance(1, 5) { 1 } else { 0 };
    let gs = if gaps.is_empty() { "-".to_string() } else { gaps.iter().map(|g| g.to_string()).collect::<Vec<_>>().join(",") };
    writeln!(out, "next {} {} {} {} {}", r, ts, leader, fb, gs).unwrap();
    // predictor: would this be accepted?
    let prog_ok = r > p.round && gaps.len() as u64 + 1 == r - p.round;
    let idx_ok = leader < p.k && gaps.iter().all(|g| *g < p.k);
    let ts_ok = ts >= p.milli && (ts / 60000) >= i32::MIN as i64 && (ts / 60000) <= i32::MAX as i64;
    if prog_ok && idx_ok && ts_ok {
        p.accept(r, ts);
    }
}

fn write_clock_read(rng: &mut Rng, p: &Pred, out: &mut dyn Write) {
    let prec = if rng.chance(1, 2) { "m" } else { "s" };
    if rng.chance(1, 5) {
        writeln!(out, "get {}", prec).unwrap();
        return;
    }
    let secs = p.milli / 1000;
    let minute_start = (p.milli / 60000) * 60;
    let inst: i64 = match rng.below(14) {
        0 => secs,
        1 => secs + 1,
        2 => secs - 1,
        3 => minute_start,
        4 => minute_start + 59,
        5 => minute_start + 60,
        6 => minute_start - 1,
        7 => minute_start + rng.range(-120, 120),
        8 => *rng.pick(&[i64::MAX, i64::MIN, 0, -1, 1, -59, -60, -61, 59, 60]),
        9 => *rng.pick(&[i64::MAX / 1000, i64::MAX / 1000 + 1, i64::MIN / 1000, i64::MIN / 1000 - 1]),
        10 => 2147483647i64 * 60 + *rng.pick(&[-60, -1, 0, 59, 60, 61]),
        11 => -2147483648i64 * 60 + *rng.pick(&[-61, -60, -59, -1, 0, 1, 60]),
        12 => rng.next() as i64,
        _ => secs + rng.range(-4000, 4000),
    };
    let op = *rng.pick(&["eq", "lt", "lte", "gt", "gte"]);
    writeln!(out, "cmp {} {} {}", inst, prec, op).unwrap();
}

fn write_malformed(rng: &mut Rng, out: &mut dyn Write) {
    let l = match rng.below(12) {
        0 => "next 1 2 3".to_string(),
        1 => "next 18446744073709551616 5 0 0 -".to_string(),
        2 => "next 1 9223372036854775808 0 0 -".to_string(),
        3 => "next 1 -9223372036854775809 0 0 -".to_string(),
        4 => "next 1 5 256 0 -".to_string(),
        5 => "next 1 5 0 2 -".to_string(),
        6 => "next 2 5 0 0 0,,1".to_string(),
        7 => "cmp 5 h eq".to_string(),
        8 => "cmp 5 m ne".to_string(),
        9 => "get x".to_string(),
        10 => format!("frob {}", rng.below(100)),
        _ => "next x 5 0 0 -".to_string(),
    };
    writeln!(out, "{}", l).unwrap();
}

impl Area for A {
    fn gen(&self, rng: &mut Rng, n: usize, out: &mut dyn Write) {
        for i in 0..n {
            if i % 40 == 39 {
                // a genesis that must fail, followed by requests on the absent state
                let c = rng.pick(BAD_POOL);
                writeln!(out, "reset {} {} {} {} {} {}", c.0, c.1, c.2, c.3, c.4, c.5).unwrap();
                writeln!(out, "next 1 5 0 0 -").unwrap();
                writeln!(out, "get m").unwrap();
                continue;
            }
            let c = *rng.pick(POOL);
            writeln!(out, "reset {} {} {} {} {} {}", c.0, c.1, c.2, c.3, c.4, c.5).unwrap();
            let mut p = Pred { min: c.1, max: c.2, target: c.3, k: c.0, round: 0, milli: c.4, eff: c.4 };
            let len = 8 + rng.below(40);
            for _ in 0..len {
                match rng.below(20) {
                    0..=12 => write_next(rng, &mut p, out),
                    13..=17 => write_clock_read(rng, &p, out),
                    18 => {
                        if rng.chance(1, 3) {
                            writeln!(out, "setepoch {}", rng.pick(&[u64::MAX, u64::MAX - 1, u64::MAX - 2])).unwrap()
                        } else {
                            writeln!(out, "nextnoauth {} {}", p.round + 1, p.milli.saturating_add(1)).unwrap()
                        }
                    }
                    _ => write_malformed(rng, out),
                }
            }
        }
    }
    fn runner(&self) -> Box<dyn Runner> {
        Box::new(R { ledger: None, cache: HashMap::new(), have_state: false })
    }
    fn consts(&self) -> Vec<(String, String)> {
        let t = ConsensusManagerConfig::test_default().epoch_change_condition;
        let m = ConsensusManagerConfig::mainnet_genesis().epoch_change_condition;
        let mut v = vec![
            ("TEST_MIN_ROUND".to_string(), t.min_round_count.to_string()),
            ("TEST_MAX_ROUND".to_string(), t.max_round_count.to_string()),
            ("TEST_TARGET".to_string(), t.target_duration_millis.to_string()),
            ("MAINNET_MIN_ROUND".to_string(), m.min_round_count.to_string()),
            ("MAINNET_MAX_ROUND".to_string(), m.max_round_count.to_string()),
            ("MAINNET_TARGET".to_string(), m.target_duration_millis.to_string()),
        ];
        // private unit constants of consensus_manager.rs: read from the current source text
        let src = std::fs::read_to_string("/repo/radix-engine/src/blueprints/consensus_manager/consensus_manager.rs").unwrap_or_default();
        let re = regex::Regex::new(r"(?m)^const (MILLIS_IN_SECOND|SECONDS_IN_MINUTE|MILLIS_IN_MINUTE): i64 = ([^;]+);").unwrap();
        let mut vals: HashMap<String, i64> = HashMap::new();
        for name in ["MILLIS_IN_SECOND", "SECONDS_IN_MINUTE", "MILLIS_IN_MINUTE"] {
            let mut val: i64 = -1; // not found / not understood: makes the unit theorems fail
            for cap in re.captures_iter(&src) {
                if &cap[1] == name {
                    let expr = cap[2].trim().replace('_', "");
                    if let Ok(x) = expr.parse::<i64>() {
                        val = x;
                    } else {
                        let parts: Vec<&str> = cap[2].split('*').map(|s| s.trim()).collect();
                        let mut prod: Option<i64> = Some(1);
                        for q in parts {
                            let f = q.replace('_', "").parse::<i64>().ok().or_else(|| vals.get(q).copied());
                            prod = match (prod, f) {
                                (Some(a), Some(b)) => a.checked_mul(b),
                                _ => None,
                            };
                        }
                        val = prod.unwrap_or(-1);
                    }
                }
            }
            vals.insert(name.to_string(), val);
            v.push((name.to_string(), format!("{}\tint", val)));
        }
        v
    }
}

#[derive(Clone, PartialEq, Eq, Debug)]
struct CmState {
    epoch: u64,
    round: u64,
    milli: i64,
    minute: i32,
    eff: i64,
    act: i64,
    leader: Option<u8>,
    stats: Vec<(u64, u64)>,
}

impl CmState {
    fn show(&self) -> String {
        let ld = match self.leader {
            Some(l) => l.to_string(),
            None => "none".to_string(),
        };
        let st = if self.stats.is_empty() { "-".to_string() } else { self.stats.iter().map(|p| format!("{}/{}", p.0, p.1)).collect::<Vec<_>>().join(",") };
        format!("e={} r={} ms={} min={} eff={} act={} ld={} st={}", self.epoch, self.round, self.milli, self.minute, self.eff, self.act, ld, st)
    }
}

enum Gen {
    Ok(LedgerSimulatorSnapshot),
    Failed(String),
}

struct R {
    ledger: Option<DefaultLedgerSimulator>,
    cache: HashMap<String, Gen>,
    have_state: bool,
}

fn strict_u(s: &str) -> Option<u128> {
    if s.is_empty() || s.len() > 30 || !s.bytes().all(|b| b.is_ascii_digit()) {
        return None;
    }
    s.parse::<u128>().ok()
}
fn p_u64(s: &str) -> Option<u64> {
    strict_u(s).and_then(|x| u64::try_from(x).ok())
}
fn p_u8(s: &str) -> Option<u8> {
    strict_u(s).and_then(|x| u8::try_from(x).ok())
}
fn p_i64(s: &str) -> Option<i64> {
    if let Some(rest) = s.strip_prefix('-') {
        let m = strict_u(rest)? as i128;
        i64::try_from(-m).ok()
    } else {
        i64::try_from(strict_u(s)?).ok()
    }
}
fn p_gaps(s: &str) -> Option<Vec<u8>> {
    if s == "-" {
        return Some(vec![]);
    }
    s.split(',').map(p_u8).collect()
}
fn p_prec(s: &str) -> Option<TimePrecision> {
    match s {
        "m" => Some(TimePrecision::Minute),
        "s" => Some(TimePrecision::Second),
        _ => None,
    }
}
fn p_cmp(s: &str) -> Option<TimeComparisonOperator> {
    match s {
        "eq" => Some(TimeComparisonOperator::Eq),
        "lt" => Some(TimeComparisonOperator::Lt),
        "lte" => Some(TimeComparisonOperator::Lte),
        "gt" => Some(TimeComparisonOperator::Gt),
        "gte" => Some(TimeComparisonOperator::Gte),
        _ => None,
    }
}

fn err_name(e: &RuntimeError) -> String {
    match e {
        RuntimeError::ApplicationError(ApplicationError::ConsensusManagerError(c)) => match c {
            ConsensusManagerError::InvalidRoundUpdate { .. } => "InvalidRoundUpdate".into(),
            ConsensusManagerError::InvalidProposerTimestampUpdate { .. } => "InvalidProposerTimestampUpdate".into(),
            ConsensusManagerError::InconsistentGapRounds { .. } => "InconsistentGapRounds".into(),
            ConsensusManagerError::InvalidValidatorIndex { .. } => "InvalidValidatorIndex".into(),
            ConsensusManagerError::AlreadyStarted => "AlreadyStarted".into(),
            ConsensusManagerError::NotXrd => "NotXrd".into(),
            ConsensusManagerError::UnexpectedDecimalComputationError => "UnexpectedDecimalComputationError".into(),
            ConsensusManagerError::EpochMathOverflow => "EpochMathOverflow".into(),
            ConsensusManagerError::InvalidConsensusTime(_) => "InvalidConsensusTime".into(),
            ConsensusManagerError::ExceededValidatorCount { .. } => "ExceededValidatorCount".into(),
        },
        RuntimeError::SystemModuleError(SystemModuleError::AuthError(AuthError::Unauthorized(_))) => "Unauthorized".into(),
        other => {
            let s: String = format!("{:?}", other).chars().filter(|c| !c.is_whitespace()).take(60).collect();
            format!("Other:{}", s)
        }
    }
}

fn outcome(receipt: &TransactionReceipt) -> Result<(), String> {
    match &receipt.result {
        TransactionResult::Commit(c) => match &c.outcome {
            TransactionOutcome::Success(_) => Ok(()),
            TransactionOutcome::Failure(e) => Err(err_name(e)),
        },
        TransactionResult::Reject(r) => Err(format!("Reject:{:?}", r.reason).chars().filter(|c| !c.is_whitespace()).take(60).collect()),
        TransactionResult::Abort(_) => Err("Abort".into()),
    }
}

fn build_ledger(k: u8, min: u64, max: u64, target: u64, t0: i64, e0: u64) -> DefaultLedgerSimulator {
    let staker = ComponentAddress::preallocated_account_from_public_key(&Secp256k1PrivateKey::from_u64(77).unwrap().public_key());
    let config = ConsensusManagerConfig::test_default().with_epoch_change_condition(EpochChangeCondition {
        min_round_count: min,
        max_round_count: max,
        target_duration_millis: target,
    });
    let vals: Vec<(Secp256k1PublicKey, Decimal)> = (0..k).map(|i| (Secp256k1PrivateKey::from_u64(1000 + i as u64).unwrap().public_key(), Decimal::one())).collect();
    let mut genesis = BabylonSettings::validators_and_single_staker(vals, staker, Decimal::zero(), Epoch::of(e0), config);
    genesis.initial_time_ms = t0;
    genesis.initial_current_leader = Some(0);
    LedgerSimulatorBuilder::new()
        .without_kernel_trace()
        .with_custom_protocol(|builder| builder.configure_babylon(|_| genesis).from_bootstrap_to_latest())
        .build()
}

fn trunc_div(a: i64, b: i64) -> i128 {
    // independent of Rust's `/` on i64: sign-magnitude on i128
    let (x, y) = (a as i128, b as i128);
    let q = x.abs() / y.abs();
    if (x < 0) != (y < 0) { -q } else { q }
}

impl R {
    fn state(&mut self) -> CmState {
        let ledger = self.ledger.as_mut().unwrap();
        let s = ledger.get_consensus_manager_state();
        let reader = SystemDatabaseReader::new(ledger.substate_db());
        let milli = reader
            .read_typed_object_field::<ConsensusManagerProposerMilliTimestampFieldPayload>(CONSENSUS_MANAGER.as_node_id(), ModuleId::Main, ConsensusManagerField::ProposerMilliTimestamp.field_index())
            .unwrap()
            .fully_update_and_into_latest_version()
            .epoch_milli;
        let minute = reader
            .read_typed_object_field::<ConsensusManagerProposerMinuteTimestampFieldPayload>(CONSENSUS_MANAGER.as_node_id(), ModuleId::Main, ConsensusManagerField::ProposerMinuteTimestamp.field_index())
            .unwrap()
            .fully_update_and_into_latest_version()
            .epoch_minute;
        let stats = reader
            .read_typed_object_field::<ConsensusManagerCurrentProposalStatisticFieldPayload>(CONSENSUS_MANAGER.as_node_id(), ModuleId::Main, ConsensusManagerField::CurrentProposalStatistic.field_index())
            .unwrap()
            .fully_update_and_into_latest_version()
            .validator_statistics
            .iter()
            .map(|p| (p.made, p.missed))
            .collect();
        CmState { epoch: s.epoch.number(), round: s.round.number(), milli, minute, eff: s.effective_epoch_start_milli, act: s.actual_epoch_start_milli, leader: s.current_leader, stats }
    }

    /// invariants of any stored state (part of the property oracle)
    fn state_oracle(s: &CmState) -> Option<(String, String)> {
        if trunc_div(s.milli, 60000) != s.minute as i128 {
            return Some(("minute-incoherent".into(), format!("stored minute {} is not the truncated minute of the stored milli timestamp {}", s.minute, s.milli)));
        }
        None
    }

    fn reset(&mut self, line: &str, t: &[&str]) -> Answer {
        let (k, min, max, target, t0, e0) = match (p_u8(t[1]), p_u64(t[2]), p_u64(t[3]), p_u64(t[4]), p_i64(t[5]), p_u64(t[6])) {
            (Some(a), Some(b), Some(c), Some(d), Some(e), Some(f)) if a >= 1 && a <= 3 => (a, b, c, d, e, f),
            _ => return Answer::ok("bad-op"),
        };
        if !self.cache.contains_key(line) {
            let g = match catch(|| build_ledger(k, min, max, target, t0, e0)) {
                Ok(l) => Gen::Ok(l.create_snapshot()),
                Err(msg) => {
                    let kind = ["InvalidConsensusTime", "EpochMathOverflow"].iter().find(|k| msg.contains(**k)).map(|s| s.to_string()).unwrap_or_else(|| {
                        let s: String = msg.chars().filter(|c| !c.is_whitespace()).take(60).collect();
                        format!("GenesisPanic:{}", s)
                    });
                    Gen::Failed(kind)
                }
            };
            self.cache.insert(line.to_string(), g);
        }
        match self.cache.get(line).unwrap() {
            Gen::Failed(kind) => {
                self.have_state = false;
                Answer::ok(format!("err {}", kind))
            }
            Gen::Ok(snap) => {
                let snap = snap.clone();
                match self.ledger.as_mut() {
                    Some(l) => l.restore_snapshot(snap),
                    None => self.ledger = Some(LedgerSimulatorBuilder::new().without_kernel_trace().build_from_snapshot(snap)),
                }
                self.have_state = true;
                let s = self.state();
                let ans = format!("ok {}", s.show());
                // genesis oracle: epoch advanced by exactly one by `start`, round zero, clock = initial time
                if s.epoch != e0.wrapping_add(1) || s.round != 0 {
                    return Answer::fail(ans, "genesis-epoch-round", format!("after genesis at epoch {}: epoch {} round {}", e0, s.epoch, s.round));
                }
                if s.milli != t0 {
                    return Answer::fail(ans, "genesis-clock", format!("initial time {} stored as {}", t0, s.milli));
                }
                if let Some((k, d)) = Self::state_oracle(&s) {
                    return Answer::fail(ans, k, d);
                }
                Answer::ok(ans)
            }
        }
    }

    fn next(&mut self, r: u64, ts: i64, leader: u8, fb: bool, gaps: Vec<u8>, auth: bool) -> Answer {
        let before = self.state();
        let ledger = self.ledger.as_mut().unwrap();
        let manifest = ManifestBuilder::new_system_v1()
            .call_method(
                CONSENSUS_MANAGER,
                CONSENSUS_MANAGER_NEXT_ROUND_IDENT,
                ConsensusManagerNextRoundInput {
                    round: Round::of(r),
                    proposer_timestamp_ms: ts,
                    leader_proposal_history: LeaderProposalHistory { gap_round_leaders: gaps, current_leader: leader, is_fallback: fb },
                },
            )
            .build();
        let proofs = if auth { btreeset![system_execution(SystemExecution::Validator)] } else { btreeset![] };
        let receipt = match catch(|| ledger.execute_system_transaction(manifest, proofs)) {
            Ok(rc) => rc,
            Err(msg) => {
                let after = self.state();
                let ans = format!("err Panic {}", after.show());
                return Answer::fail(ans, "next-round-panic", format!("next_round({}, {}) panicked: {}", r, ts, msg));
            }
        };
        let res = outcome(&receipt);
        let after = self.state();
        let ans = match &res {
            Ok(()) => format!("ok {}", after.show()),
            Err(k) => format!("err {} {}", k, after.show()),
        };
        // ---- property oracle (on the implementation's stored state only)
        if after.milli < before.milli {
            return Answer::fail(ans, "milli-decreased", format!("proposer milli timestamp went from {} to {}", before.milli, after.milli));
        }
        if after.minute < before.minute {
            return Answer::fail(ans, "minute-decreased", format!("proposer minute timestamp went from {} to {}", before.minute, after.minute));
        }
        if let Some((k, d)) = Self::state_oracle(&after) {
            return Answer::fail(ans, k, d);
        }
        match &res {
            Ok(()) => {
                if !auth {
                    return Answer::fail(ans, "round-change-without-validator-auth", "next_round committed without the validator proof");
                }
                if after.milli != ts {
                    return Answer::fail(ans, "milli-not-recorded", format!("accepted timestamp {} but stored {}", ts, after.milli));
                }
                if r <= before.round {
                    return Answer::fail(ans, "stale-round-accepted", format!("round {} accepted while the current round is {}", r, before.round));
                }
                if after.epoch == before.epoch {
                    if after.round != r {
                        return Answer::fail(ans, "round-not-advanced", format!("round {} accepted, stored round {} (was {})", r, after.round, before.round));
                    }
                    if after.eff != before.eff || after.act != before.act {
                        return Answer::fail(ans, "epoch-start-changed-within-epoch", "epoch start times changed without an epoch change");
                    }
                } else if before.epoch.checked_add(1) == Some(after.epoch) {
                    if after.round != 0 {
                        return Answer::fail(ans, "epoch-change-round-nonzero", format!("epoch changed to {} but round is {}", after.epoch, after.round));
                    }
                } else {
                    return Answer::fail(ans, "epoch-jump", format!("epoch went from {} to {}", before.epoch, after.epoch));
                }
            }
            Err(_) => {
                if after != before {
                    return Answer::fail(ans, "failed-tx-changed-state", format!("failed next_round changed the state: {} -> {}", before.show(), after.show()));
                }
            }
        }
        Answer::ok(ans)
    }

    fn cmp(&mut self, inst: i64, prec: TimePrecision, op: TimeComparisonOperator, pk: &str) -> Answer {
        let st = self.state();
        let ledger = self.ledger.as_mut().unwrap();
        let manifest = ManifestBuilder::new_system_v1()
            .call_method(CONSENSUS_MANAGER, CONSENSUS_MANAGER_COMPARE_CURRENT_TIME_IDENT, ConsensusManagerCompareCurrentTimeInputV2 { instant: Instant::new(inst), precision: prec, operator: op })
            .build();
        let receipt = match catch(|| ledger.execute_system_transaction(manifest, btreeset![])) {
            Ok(rc) => rc,
            Err(msg) => return Answer::fail("panic", format!("compare-panic:{}", pk), msg),
        };
        if let Err(k) = outcome(&receipt) {
            return Answer::fail(format!("err {}", k), format!("compare-failed:{}", pk), format!("compare_current_time({}) failed: {}", inst, k));
        }
        let got: bool = receipt.expect_commit_success().output(0);
        // oracle: comparison against the recorded clock at the requested precision
        let (recorded, other): (i128, i128) = match prec {
            TimePrecision::Minute => {
                let m = trunc_div(inst, 60);
                (st.minute as i128, m.clamp(i32::MIN as i128, i32::MAX as i128))
            }
            TimePrecision::Second => (trunc_div(st.milli, 1000), inst as i128),
        };
        let exp = match op {
            TimeComparisonOperator::Eq => recorded == other,
            TimeComparisonOperator::Lt => recorded < other,
            TimeComparisonOperator::Lte => recorded <= other,
            TimeComparisonOperator::Gt => recorded > other,
            TimeComparisonOperator::Gte => recorded >= other,
        };
        let after = self.state();
        if after != st {
            return Answer::fail(got.to_string(), "clock-read-changed-state", "compare_current_time changed the consensus manager state");
        }
        if got != exp {
            return Answer::fail(got.to_string(), format!("compare-disagrees:{}", pk), format!("compare_current_time({}, {:?}, {:?}) = {} but the recorded clock (ms={}, min={}) says {}", inst, prec, op, got, st.milli, st.minute, exp));
        }
        Answer::ok(got.to_string())
    }

    fn get(&mut self, prec: TimePrecision, pk: &str) -> Answer {
        let st = self.state();
        let ledger = self.ledger.as_mut().unwrap();
        let manifest = ManifestBuilder::new_system_v1()
            .call_method(CONSENSUS_MANAGER, CONSENSUS_MANAGER_GET_CURRENT_TIME_IDENT, ConsensusManagerGetCurrentTimeInputV2 { precision: prec })
            .build();
        let receipt = match catch(|| ledger.execute_system_transaction(manifest, btreeset![])) {
            Ok(rc) => rc,
            Err(msg) => return Answer::fail("panic", format!("get-panic:{}", pk), msg),
        };
        if let Err(k) = outcome(&receipt) {
            return Answer::fail(format!("err {}", k), format!("get-failed:{}", pk), k);
        }
        let got: Instant = receipt.expect_commit_success().output(0);
        let exp: i128 = match prec {
            TimePrecision::Minute => st.minute as i128 * 60,
            TimePrecision::Second => trunc_div(st.milli, 1000),
        };
        let ans = got.seconds_since_unix_epoch.to_string();
        if got.seconds_since_unix_epoch as i128 != exp {
            return Answer::fail(ans, format!("get-disagrees:{}", pk), format!("get_current_time = {} but the recorded clock (ms={}, min={}) says {}", got.seconds_since_unix_epoch, st.milli, st.minute, exp));
        }
        Answer::ok(ans)
    }
}

impl Runner for R {
    fn step(&mut self, line: &str) -> Answer {
        let t: Vec<&str> = line.split(' ').filter(|s| !s.is_empty()).collect();
        if t.is_empty() {
            return Answer::ok("bad-op");
        }
        match (t[0], t.len()) {
            ("reset", 7) => {
                let canon = t.join(" ");
                self.reset(&canon, &t)
            }
            ("next", 6) => match (p_u64(t[1]), p_i64(t[2]), p_u8(t[3]), t[4], p_gaps(t[5])) {
                (Some(r), Some(ts), Some(ld), fb, Some(gaps)) if fb == "0" || fb == "1" => {
                    if !self.have_state {
                        return Answer::ok("no-state");
                    }
                    self.next(r, ts, ld, fb == "1", gaps, true)
                }
                _ => Answer::ok("bad-op"),
            },
            ("nextnoauth", 3) => match (p_u64(t[1]), p_i64(t[2])) {
                (Some(r), Some(ts)) => {
                    if !self.have_state {
                        return Answer::ok("no-state");
                    }
                    self.next(r, ts, 0, false, vec![], false)
                }
                _ => Answer::ok("bad-op"),
            },
            ("setepoch", 2) => match p_u64(t[1]) {
                Some(e) => {
                    if !self.have_state {
                        return Answer::ok("no-state");
                    }
                    self.ledger.as_mut().unwrap().set_current_epoch(Epoch::of(e));
                    let s = self.state();
                    Answer::ok(format!("ok {}", s.show()))
                }
                None => Answer::ok("bad-op"),
            },
            ("cmp", 4) => match (p_i64(t[1]), p_prec(t[2]), p_cmp(t[3])) {
                (Some(i), Some(p), Some(o)) => {
                    if !self.have_state {
                        return Answer::ok("no-state");
                    }
                    self.cmp(i, p, o, t[2])
                }
                _ => Answer::ok("bad-op"),
            },
            ("get", 2) => match p_prec(t[1]) {
                Some(p) => {
                    if !self.have_state {
                        return Answer::ok("no-state");
                    }
                    self.get(p, t[1])
                }
                None => Answer::ok("bad-op"),
            },
            _ => Answer::ok("bad-op"),
        }
    }
}

fn main() {
    main_with(&[("c44", &A)]);
}
