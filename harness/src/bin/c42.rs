//! C42 — validator staking, unstake/claim, emissions and validator-set selection, driven through
//! real transactions on the ledger simulator with a custom genesis.
//!
//! Line protocol (stateful; amounts are attos):
//!   genesis E MINREL MAXV UNSTAKE_EPOCHS ord=<perm> stake:fee:reg ...
//!       validators are listed in SPEC order; `ord` lists the spec indices in validator ADDRESS order;
//!       every later line names a validator by its LABEL = rank of its address (the sorted index of
//!       the consensus manager breaks sort-prefix ties by address).
//!   stake v x | unstake v u | unstakef v n d | claim v j (j-th outstanding claim NFT of v, creation order)
//!   register v | unregister v
//!   round l g,g,.. | epoch l g,g,..     next_round with leader index l and gap-round leaders (`-` = none);
//!                                        `epoch` advances the proposer timestamp so that the epoch changes
//! Answers: `ok <amount> T/S/P/L;..` (stake vault / unit supply / pending vault / locked owner units of every
//! validator in label order), `ok set=<label:stake;..> em=<label:emission;..> st=<...>` for `epoch`,
//! `err <kind>`, `skip` (request cannot be put to the validator), `bad-op`.
//! User transactions run with costing disabled, so the validator rewards vault stays empty (the reward
//! split is proved on the model and checked by the oracle-only `c42f` area with fees enabled).
use harness::util::*;
use num_bigint::BigInt;
use num_traits::{Signed, Zero};
use radix_common::prelude::*;
use radix_engine::blueprints::consensus_manager::*;
use radix_engine::errors::*;
use radix_engine::system::bootstrap::*;
use radix_engine::system::system_db_reader::SystemDatabaseReader;
use radix_engine::blueprints::resource::MintFungibleResourceEvent;
use radix_engine::transaction::*;
use radix_substate_store_interface::db_key_mapper::*;
use radix_engine::updates::*;
use radix_engine_interface::blueprints::consensus_manager::*;
use radix_engine_interface::prelude::*;
use radix_transactions::prelude::*;
use scrypto_test::prelude::*;
use std::collections::HashMap;
use std::io::Write;
use std::str::FromStr;

pub struct A {
    fees: bool,
}

fn dec(attos: &BigInt) -> Option<Decimal> {
    I192::from_str(&attos.to_string()).ok().map(Decimal::from_attos)
}
fn big(d: Decimal) -> BigInt {
    BigInt::from_str(&d.attos().to_string()).unwrap()
}
fn one() -> BigInt {
    BigInt::from(10u32).pow(18)
}
fn parse_big(s: &str) -> Option<BigInt> {
    if s.is_empty() || !s.chars().enumerate().all(|(i, c)| c.is_ascii_digit() || (i == 0 && c == '-' && s.len() > 1)) {
        return None;
    }
    BigInt::from_str(s).ok()
}

fn err_kind(e: &RuntimeError) -> String {
    let s = format!("{:?}", e);
    let mut idents: Vec<String> = vec![];
    let mut cur = String::new();
    let mut open = true;
    for ch in s.chars() {
        if ch.is_alphanumeric() || ch == '_' {
            cur.push(ch);
        } else {
            if !cur.is_empty() {
                if open && cur.chars().next().unwrap().is_uppercase() {
                    idents.push(cur.clone());
                }
                cur.clear();
            }
            if ch == '{' || ch == ',' {
                open = false;
            }
        }
        if idents.len() >= 4 {
            break;
        }
    }
    if !cur.is_empty() && open && idents.len() < 4 && cur.chars().next().unwrap().is_uppercase() {
        idents.push(cur);
    }
    let skip = if idents.first().map(|s| s == "ApplicationError").unwrap_or(false) { 1 } else { 0 };
    idents[skip..].join(":")
}

// ---------------------------------------------------------------------------------------- world

#[derive(Clone)]
struct Spec {
    stake: BigInt,
    fee: BigInt,
    reg: bool,
}

#[derive(Clone)]
struct World {
    snapshot: LedgerSimulatorSnapshot,
    /// validator addresses in label (= address) order, with the spec index
    vals: Vec<(ComponentAddress, usize)>,
    max_v: usize,
    emission: BigInt,
}

fn val_key(i: usize) -> Secp256k1PublicKey {
    Secp256k1PrivateKey::from_u64(1000 + i as u64).unwrap().public_key()
}
fn staker_key() -> Secp256k1PublicKey {
    Secp256k1PrivateKey::from_u64(77).unwrap().public_key()
}

fn build_world(e: &BigInt, minrel: &BigInt, max_v: u32, unstake: u64, specs: &[Spec]) -> (DefaultLedgerSimulator, World) {
    let staker = ComponentAddress::preallocated_account_from_public_key(&staker_key());
    let validators: Vec<GenesisValidator> = specs
        .iter()
        .enumerate()
        .map(|(i, s)| GenesisValidator {
            key: val_key(i),
            accept_delegated_stake: true,
            is_registered: s.reg,
            fee_factor: dec(&s.fee).unwrap(),
            metadata: vec![],
            owner: ComponentAddress::preallocated_account_from_public_key(&val_key(i)),
        })
        .collect();
    let allocations: Vec<(Secp256k1PublicKey, Vec<GenesisStakeAllocation>)> = specs
        .iter()
        .enumerate()
        .filter(|(_, s)| !s.stake.is_zero())
        .map(|(i, s)| (val_key(i), vec![GenesisStakeAllocation { account_index: 0, xrd_amount: dec(&s.stake).unwrap() }]))
        .collect();
    let config = ConsensusManagerConfig::test_default()
        .with_max_validators(max_v)
        .with_epoch_change_condition(EpochChangeCondition { min_round_count: 1, max_round_count: 1_000_000, target_duration_millis: 1000 })
        .with_num_unstake_epochs(unstake)
        .with_total_emission_xrd_per_epoch(dec(e).unwrap())
        .with_min_validator_reliability(dec(minrel).unwrap());
    let genesis = BabylonSettings {
        genesis_data_chunks: vec![
            GenesisDataChunk::Validators(validators),
            GenesisDataChunk::Stakes { accounts: vec![staker], allocations },
            GenesisDataChunk::ResourceBalances {
                accounts: vec![staker],
                allocations: vec![(XRD, vec![GenesisResourceAllocation { account_index: 0, amount: dec(&(BigInt::from(10u32).pow(18 + 12))).unwrap() }])],
            },
        ],
        genesis_epoch: Epoch::of(1),
        consensus_manager_config: config,
        initial_time_ms: 1,
        initial_current_leader: Some(0),
        faucet_supply: *DEFAULT_TESTING_FAUCET_SUPPLY,
    };
    let mut ledger = LedgerSimulatorBuilder::new()
        .without_kernel_trace()
        .with_custom_protocol(|builder| builder.configure_babylon(|_| genesis).from_bootstrap_to_latest())
        .build();
    // find the validators
    let mut by_key: HashMap<Vec<u8>, ComponentAddress> = HashMap::new();
    for c in ledger.find_all_components() {
        if c.as_node_id().entity_type() == Some(EntityType::GlobalValidator) {
            let sub = ledger.get_validator_info(c);
            by_key.insert(sub.key.0.to_vec(), c);
        }
    }
    let mut vals: Vec<(ComponentAddress, usize)> = (0..specs.len()).map(|i| (*by_key.get(&val_key(i).0.to_vec()).expect("validator"), i)).collect();
    // label order = order of the entries inside one sort-prefix bucket of the sorted index
    // (DB sort key = prefix ++ hash-prefixed scrypto-encoded address)
    let dbkey = |a: &ComponentAddress| SpreadPrefixKeyMapper::to_db_sort_key(&SubstateKey::Sorted(([0u8, 0u8], scrypto_encode(a).unwrap()))).0;
    vals.sort_by(|a, b| dbkey(&a.0).cmp(&dbkey(&b.0)));
    let snapshot = ledger.create_snapshot();
    (ledger, World { snapshot, vals, max_v: max_v as usize, emission: e.clone() })
}

struct Parsed {
    e: BigInt,
    minrel: BigInt,
    max_v: u32,
    unstake: u64,
    ord: Option<Vec<usize>>,
    specs: Vec<Spec>,
}

fn parse_genesis(t: &[&str]) -> Option<Parsed> {
    if t.len() < 7 {
        return None;
    }
    let e = parse_big(t[1])?;
    let minrel = parse_big(t[2])?;
    let max_v: u32 = t[3].parse().ok()?;
    let unstake: u64 = t[4].parse().ok()?;
    let ord = t[5].strip_prefix("ord=")?;
    let ord: Option<Vec<usize>> = if ord == "?" { None } else { Some(ord.split(',').map(|x| x.parse::<usize>().ok()).collect::<Option<Vec<_>>>()?) };
    let mut specs = vec![];
    for s in &t[6..] {
        let p: Vec<&str> = s.split(':').collect();
        if p.len() != 3 || (p[2] != "0" && p[2] != "1") {
            return None;
        }
        let stake = parse_big(p[0])?;
        let fee = parse_big(p[1])?;
        if stake.is_negative() || fee.is_negative() || fee > one() || stake > BigInt::from(10u32).pow(18 + 10) {
            return None;
        }
        specs.push(Spec { stake, fee, reg: p[2] == "1" });
    }
    if e.is_negative() || minrel.is_negative() || minrel > one() || max_v == 0 || max_v > 100 || specs.is_empty() || specs.len() > 8 || e > BigInt::from(10u32).pow(18 + 9) {
        return None;
    }
    Some(Parsed { e, minrel, max_v, unstake, ord, specs })
}

// ---------------------------------------------------------------------------------------- runner

struct R {
    fees: bool,
    ledger: Option<DefaultLedgerSimulator>,
    worlds: HashMap<String, World>,
    world: Option<World>,
    /// outstanding claim NFT ids per label, creation order
    claims: Vec<Vec<NonFungibleLocalId>>,
}

#[derive(Clone, PartialEq)]
struct VState {
    t: BigInt,
    s: BigInt,
    p: BigInt,
    l: BigInt,
    reg: bool,
}

impl R {
    fn new(fees: bool) -> R {
        R { fees, ledger: None, worlds: HashMap::new(), world: None, claims: vec![] }
    }
    fn staker(&self) -> ComponentAddress {
        ComponentAddress::preallocated_account_from_public_key(&staker_key())
    }
    fn exec(&mut self, manifest: TransactionManifestV1, proofs: Vec<NonFungibleGlobalId>) -> TransactionReceipt {
        let fees = self.fees;
        let ledger = self.ledger.as_mut().unwrap();
        if fees {
            ledger.execute_manifest(manifest, proofs)
        } else {
            let config = ExecutionConfig::for_test_transaction().update_system_overrides(|mut o| {
                o.disable_costing = true;
                o
            });
            ledger.execute_manifest_with_execution_config(manifest, proofs, config)
        }
    }
    fn outcome(receipt: &TransactionReceipt) -> Result<(), String> {
        match &receipt.result {
            TransactionResult::Commit(c) => match &c.outcome {
                TransactionOutcome::Success(_) => Ok(()),
                TransactionOutcome::Failure(e) => Err(err_kind(e)),
            },
            TransactionResult::Reject(r) => Err(format!("REJECT:{:?}", r.reason).chars().take(80).collect()),
            TransactionResult::Abort(_) => Err("ABORT".into()),
        }
    }
    fn vstate(&mut self, label: usize) -> VState {
        let addr = self.world.as_ref().unwrap().vals[label].0;
        let ledger = self.ledger.as_mut().unwrap();
        let sub = ledger.get_validator_info(addr);
        VState {
            t: big(ledger.inspect_vault_balance(sub.stake_xrd_vault_id.0).unwrap()),
            s: big(ledger.get_fungible_resource_total_supply(sub.stake_unit_resource)),
            p: big(ledger.inspect_vault_balance(sub.pending_xrd_withdraw_vault_id.0).unwrap()),
            l: big(ledger.inspect_vault_balance(sub.locked_owner_stake_unit_vault_id.0).unwrap()),
            reg: sub.is_registered,
        }
    }
    fn all_states(&mut self) -> Vec<VState> {
        let n = self.world.as_ref().unwrap().vals.len();
        (0..n).map(|i| self.vstate(i)).collect()
    }
    fn fmt_states(st: &[VState]) -> String {
        st.iter().map(|v| format!("{}/{}/{}/{}", v.t, v.s, v.p, v.l)).collect::<Vec<_>>().join(";")
    }
    fn held_units(&mut self, label: usize) -> BigInt {
        let addr = self.world.as_ref().unwrap().vals[label].0;
        let staker = self.staker();
        let ledger = self.ledger.as_mut().unwrap();
        let sub = ledger.get_validator_info(addr);
        big(ledger.get_component_balance(staker, sub.stake_unit_resource))
    }
    fn claim_ids(&mut self, label: usize) -> Vec<NonFungibleLocalId> {
        let addr = self.world.as_ref().unwrap().vals[label].0;
        let staker = self.staker();
        let ledger = self.ledger.as_mut().unwrap();
        let sub = ledger.get_validator_info(addr);
        let mut out = vec![];
        for v in ledger.get_component_vaults(staker, sub.claim_nft) {
            if let Some((_, ids)) = ledger.inspect_non_fungible_vault(v) {
                out.extend(ids);
            }
        }
        out
    }
    fn rewards_vault(&mut self) -> BigInt {
        let ledger = self.ledger.as_mut().unwrap();
        let vault = {
            let reader = SystemDatabaseReader::new(ledger.substate_db());
            let sub = reader
                .read_typed_object_field::<ConsensusManagerValidatorRewardsFieldPayload>(CONSENSUS_MANAGER.as_node_id(), ModuleId::Main, ConsensusManagerField::ValidatorRewards.field_index())
                .unwrap()
                .fully_update_and_into_latest_version();
            sub.rewards_vault.0
        };
        big(ledger.inspect_vault_balance(vault.0).unwrap())
    }
    fn redemption_value(&mut self, label: usize, u: &BigInt) -> Option<BigInt> {
        let addr = self.world.as_ref().unwrap().vals[label].0;
        let m = ManifestBuilder::new()
            .lock_fee_from_faucet()
            .call_method(addr, VALIDATOR_GET_REDEMPTION_VALUE_IDENT, ValidatorGetRedemptionValueInput { amount_of_stake_units: dec(u)? })
            .build();
        let r = self.exec(m, vec![]);
        if Self::outcome(&r).is_err() {
            return None;
        }
        Some(big(r.expect_commit_success().output::<Decimal>(1)))
    }

    fn do_unstake(&mut self, v: usize, u: BigInt) -> Answer {
        let held = self.held_units(v);
        if !u.is_positive() || u > held {
            return Answer::ok("skip");
        }
        let addr = self.world.as_ref().unwrap().vals[v].0;
        let staker = self.staker();
        let before = self.vstate(v);
        let ids_before = self.claim_ids(v);
        let unit_res = self.ledger.as_mut().unwrap().get_validator_info(addr).stake_unit_resource;
        let m = ManifestBuilder::new()
            .lock_fee_from_faucet()
            .withdraw_from_account(staker, unit_res, dec(&u).unwrap())
            .take_all_from_worktop(unit_res, "b")
            .with_name_lookup(|b, l| b.call_method(addr, VALIDATOR_UNSTAKE_IDENT, ValidatorUnstakeManifestInput { stake_unit_bucket: l.bucket("b") }))
            .try_deposit_entire_worktop_or_abort(staker, None)
            .build();
        let r = self.exec(m, vec![NonFungibleGlobalId::from_public_key(&staker_key())]);
        if let Err(k) = Self::outcome(&r) {
            return Answer::ok(format!("err {}", k));
        }
        let after = self.vstate(v);
        let ids_after = self.claim_ids(v);
        let new_ids: Vec<_> = ids_after.into_iter().filter(|i| !ids_before.contains(i)).collect();
        if new_ids.len() != 1 {
            return Answer::fail("desync", "harness-desync", "unstake did not produce exactly one claim NFT");
        }
        self.claims[v].push(new_ids[0].clone());
        let y = &after.p - &before.p;
        let st = self.all_states();
        let ans = format!("ok {} {}", y, Self::fmt_states(&st));
        // oracle: claim amount is at most the proportional share, moved from the stake vault to the pending vault
        if &before.t - &after.t != y || &before.s - &after.s != u || y.is_negative() || after.t.is_negative() {
            return Answer::fail(ans, "unstake-accounting", "stake vault / pending vault / unit supply do not move consistently");
        }
        if &y * &before.s > &u * &before.t {
            return Answer::fail(ans, "unstake-above-share", format!("claim {} for {} of {} units of {} XRD", y, u, before.s, before.t));
        }
        Answer::ok(ans)
    }

    fn do_round(&mut self, leader: u8, gaps: Vec<u8>, epoch_change: bool) -> Answer {
        let world = self.world.clone().unwrap();
        let before_states = self.all_states();
        let rewards_vault_before = self.rewards_vault();
        let ledger = self.ledger.as_mut().unwrap();
        let cur_round = ledger.get_consensus_manager_state().round.number();
        let ts = ledger.get_current_proposer_timestamp_ms() + if epoch_change { 100_000 } else { 0 };
        let round = Round::of(cur_round + 1 + gaps.len() as u64);
        let receipt = ledger.execute_system_transaction(
            ManifestBuilder::new_system_v1()
                .call_method(
                    CONSENSUS_MANAGER,
                    CONSENSUS_MANAGER_NEXT_ROUND_IDENT,
                    ConsensusManagerNextRoundInput {
                        round,
                        proposer_timestamp_ms: ts,
                        leader_proposal_history: LeaderProposalHistory { gap_round_leaders: gaps, current_leader: leader, is_fallback: false },
                    },
                )
                .build(),
            btreeset![system_execution(SystemExecution::Validator)],
        );
        if let Err(k) = Self::outcome(&receipt) {
            return Answer::ok(format!("err {}", k));
        }
        if !epoch_change {
            return Answer::ok("ok");
        }
        let cr = receipt.expect_commit_success();
        let Some(ev) = cr.next_epoch() else { return Answer::fail("desync", "harness-desync", "no epoch change happened") };
        let label_of = |a: &ComponentAddress| world.vals.iter().position(|x| &x.0 == a);
        let set: Vec<(usize, BigInt)> = ev.validator_set.validators_by_stake_desc.iter().map(|(a, v)| (label_of(a).unwrap_or(999), big(v.stake))).collect();
        // emissions per validator from the events (emitter = the validator component)
        let mut ems: Vec<(usize, BigInt)> = vec![];
        let mut rewards_total = BigInt::zero();
        let mut xrd_minted = BigInt::zero();
        for (id, data) in cr.application_events.iter() {
            let emitter = match &id.0 {
                Emitter::Method(node, _) => ComponentAddress::try_from(node.0.as_slice()).ok(),
                _ => None,
            };
            if self.ledger.as_ref().unwrap().is_event_name_equal::<ValidatorEmissionAppliedEvent>(id) {
                let e: ValidatorEmissionAppliedEvent = scrypto_decode(data).unwrap();
                let l = emitter.as_ref().and_then(|a| label_of(a)).unwrap_or(999);
                ems.push((l, big(e.stake_pool_added_xrd) + big(e.validator_fee_xrd)));
            }
            if let Emitter::Method(node, _) = &id.0 {
                if node == XRD.as_node_id() && self.ledger.as_ref().unwrap().is_event_name_equal::<MintFungibleResourceEvent>(id) {
                    let e: MintFungibleResourceEvent = scrypto_decode(data).unwrap();
                    xrd_minted += big(e.amount);
                }
            }
            if self.ledger.as_ref().unwrap().is_event_name_equal::<ValidatorRewardAppliedEvent>(id) {
                let e: ValidatorRewardAppliedEvent = scrypto_decode(data).unwrap();
                rewards_total += big(e.amount);
            }
        }
        let st = self.all_states();
        let fmt_pairs = |v: &Vec<(usize, BigInt)>| if v.is_empty() { "-".to_string() } else { v.iter().map(|(l, x)| format!("{}:{}", l, x)).collect::<Vec<_>>().join(";") };
        let ans = if self.fees {
            format!("ok set={} em={} rw={}/{} st={}", fmt_pairs(&set), fmt_pairs(&ems), rewards_total, rewards_vault_before, Self::fmt_states(&st))
        } else {
            format!("ok set={} em={} st={}", fmt_pairs(&set), fmt_pairs(&ems), Self::fmt_states(&st))
        };
        // ---- oracle
        let minted: BigInt = ems.iter().map(|x| x.1.clone()).sum();
        if minted > world.emission {
            return Answer::fail(ans, "emission-above-config", format!("minted {} > configured {}", minted, world.emission));
        }
        if xrd_minted != minted || xrd_minted > world.emission {
            return Answer::fail(ans, "emission-supply-mismatch", format!("{} XRD minted at the epoch change but emissions sum to {} (configured {})", xrd_minted, minted, world.emission));
        }
        let vault_delta: BigInt = st.iter().zip(before_states.iter()).map(|(a, b)| &a.t - &b.t).sum();
        if vault_delta != &minted + &rewards_total {
            return Answer::fail(ans, "emission-not-conserved", format!("stake vaults grew by {} but emissions+rewards are {}", vault_delta, &minted + &rewards_total));
        }
        let rewards_vault_after = self.rewards_vault();
        if rewards_total > rewards_vault_before || &rewards_vault_before - &rewards_vault_after != rewards_total {
            return Answer::fail(ans, "rewards-above-vault", format!("rewards {} distributed from a vault of {} (after: {})", rewards_total, rewards_vault_before, rewards_vault_after));
        }
        if set.len() > world.max_v {
            return Answer::fail(ans, "set-too-large", format!("{} validators selected, max {}", set.len(), world.max_v));
        }
        for (i, (l, stake)) in set.iter().enumerate() {
            if *l >= st.len() {
                return Answer::fail(ans, "set-unknown-validator", "unknown validator in the active set");
            }
            if !st[*l].reg || !st[*l].t.is_positive() || &st[*l].t != stake {
                return Answer::fail(ans, "set-member-invalid", format!("label {}: registered={} stake vault {} recorded stake {}", l, st[*l].reg, st[*l].t, stake));
            }
            if i > 0 && set[i - 1].1 < *stake {
                return Answer::fail(ans, "set-not-sorted", "active set is not ordered by stake descending");
            }
        }
        // every registered validator with positive stake that was left out has at most the smallest selected stake,
        // unless the set is full... (only when nothing was cut off by the index scan: fewer than max+max/10+10 candidates)
        let cands: Vec<usize> = (0..st.len()).filter(|i| st[*i].reg && st[*i].t.is_positive()).collect();
        if cands.len() <= world.max_v + world.max_v / 10 + 10 {
            let expect = cands.len().min(world.max_v);
            if set.len() != expect {
                return Answer::fail(ans, "set-size", format!("{} candidates, max {}, selected {}", cands.len(), world.max_v, set.len()));
            }
            if let Some(min_sel) = set.last().map(|x| x.1.clone()) {
                for c in cands {
                    if !set.iter().any(|x| x.0 == c) && st[c].t > min_sel {
                        return Answer::fail(ans, "set-skips-higher-stake", format!("label {} with stake {} left out, smallest selected {}", c, st[c].t, min_sel));
                    }
                }
            }
        }
        Answer::ok(ans)
    }
}

impl Runner for R {
    fn step(&mut self, line: &str) -> Answer {
        let t: Vec<&str> = line.split(' ').filter(|x| !x.is_empty()).collect();
        if t.is_empty() {
            return Answer::ok("bad-op");
        }
        if t[0] == "reset" && t.len() == 1 {
            self.world = None;
            return Answer::ok("ok");
        }
        if t[0] == "genesis" {
            if self.world.is_some() {
                return Answer::ok("bad-op");
            }
            let Some(p) = parse_genesis(&t) else { return Answer::ok("bad-op") };
            let key = t[1..5].join(" ") + " " + &t[6..].join(" ");
            if !self.worlds.contains_key(&key) {
                let (ledger, w) = build_world(&p.e, &p.minrel, p.max_v, p.unstake, &p.specs);
                if self.ledger.is_none() {
                    self.ledger = Some(ledger);
                }
                self.worlds.insert(key.clone(), w);
            }
            let w = self.worlds.get(&key).unwrap().clone();
            self.ledger.as_mut().unwrap().restore_snapshot(w.snapshot.clone());
            let true_ord: Vec<usize> = w.vals.iter().map(|x| x.1).collect();
            self.claims = vec![vec![]; w.vals.len()];
            self.world = Some(w);
            let ord_s = true_ord.iter().map(|x| x.to_string()).collect::<Vec<_>>().join(",");
            if p.ord.as_ref() != Some(&true_ord) {
                // the generator / corpus must state the address order; tell it
                self.world = None;
                return Answer::ok(format!("desync ord={}", ord_s));
            }
            // initial active set
            let ledger = self.ledger.as_mut().unwrap();
            let reader = ledger.substate_db();
            let _ = reader;
            let set = current_set(self);
            return Answer::ok(format!("ok set={}", set));
        }
        let Some(world) = self.world.clone() else { return Answer::ok("bad-op") };
        let n = world.vals.len();
        let label = |s: &str| -> Option<usize> { s.parse::<usize>().ok().filter(|_| s.chars().all(|c| c.is_ascii_digit())) };
        match (t[0], t.len()) {
            ("stake", 3) => {
                let (Some(v), Some(x)) = (label(t[1]), parse_big(t[2])) else { return Answer::ok("bad-op") };
                if v >= n {
                    return Answer::ok("bad-op");
                }
                if !x.is_positive() || x > (BigInt::from(1u32) << 90usize) {
                    return Answer::ok("skip");
                }
                let addr = world.vals[v].0;
                let staker = self.staker();
                let before = self.vstate(v);
                let m = ManifestBuilder::new()
                    .lock_fee_from_faucet()
                    .withdraw_from_account(staker, XRD, dec(&x).unwrap())
                    .take_all_from_worktop(XRD, "b")
                    .with_name_lookup(|b, l| b.call_method(addr, VALIDATOR_STAKE_IDENT, ValidatorStakeManifestInput { stake: l.bucket("b") }))
                    .try_deposit_entire_worktop_or_abort(staker, None)
                    .build();
                let r = self.exec(m, vec![NonFungibleGlobalId::from_public_key(&staker_key())]);
                if let Err(k) = Self::outcome(&r) {
                    return Answer::ok(format!("err {}", k));
                }
                let after = self.vstate(v);
                let u = &after.s - &before.s;
                let st = self.all_states();
                let ans = format!("ok {} {}", u, Self::fmt_states(&st));
                if &after.t - &before.t != x || u.is_negative() {
                    return Answer::fail(ans, "stake-accounting", "stake vault did not grow by the staked amount");
                }
                // units in proportion: u / S <= x / T
                if before.t.is_positive() && &u * &before.t > &x * &before.s {
                    return Answer::fail(ans, "stake-units-above-proportion", format!("{} units for {} XRD at {} units / {} XRD", u, x, before.s, before.t));
                }
                // stake then immediately unstake never gains
                if u.is_positive() {
                    if let Some(y) = self.redemption_value(v, &u) {
                        if y > x {
                            return Answer::fail(ans, "stake-unstake-gains", format!("staked {} got {} units redeemable for {}", x, u, y));
                        }
                    }
                }
                Answer::ok(ans)
            }
            ("unstake", 3) => {
                let (Some(v), Some(u)) = (label(t[1]), parse_big(t[2])) else { return Answer::ok("bad-op") };
                if v >= n {
                    return Answer::ok("bad-op");
                }
                self.do_unstake(v, u)
            }
            ("unstakef", 4) => {
                let (Some(v), Some(a), Some(b)) = (label(t[1]), label(t[2]), label(t[3])) else { return Answer::ok("bad-op") };
                if v >= n || b == 0 || a > b {
                    return Answer::ok("bad-op");
                }
                let held = self.held_units(v);
                let u = held * BigInt::from(a) / BigInt::from(b);
                self.do_unstake(v, u)
            }
            ("claim", 3) => {
                let (Some(v), Some(j)) = (label(t[1]), label(t[2])) else { return Answer::ok("bad-op") };
                if v >= n {
                    return Answer::ok("bad-op");
                }
                if j >= self.claims[v].len() {
                    return Answer::ok("skip");
                }
                let id = self.claims[v][j].clone();
                let addr = world.vals[v].0;
                let staker = self.staker();
                let before = self.vstate(v);
                let xrd_before = big(self.ledger.as_mut().unwrap().get_component_balance(staker, XRD));
                let sub = self.ledger.as_mut().unwrap().get_validator_info(addr);
                let data: UnstakeData = self.ledger.as_mut().unwrap().get_non_fungible_data(sub.claim_nft, id.clone());
                let m = ManifestBuilder::new()
                    .lock_fee_from_faucet()
                    .withdraw_non_fungibles_from_account(staker, sub.claim_nft, [id])
                    .take_all_from_worktop(sub.claim_nft, "b")
                    .with_name_lookup(|b, l| b.call_method(addr, VALIDATOR_CLAIM_XRD_IDENT, ValidatorClaimXrdManifestInput { bucket: l.bucket("b") }))
                    .try_deposit_entire_worktop_or_abort(staker, None)
                    .build();
                let r = self.exec(m, vec![NonFungibleGlobalId::from_public_key(&staker_key())]);
                if let Err(k) = Self::outcome(&r) {
                    return Answer::ok(format!("err {}", k));
                }
                self.claims[v].remove(j);
                let after = self.vstate(v);
                let y = &before.p - &after.p;
                let st = self.all_states();
                let ans = format!("ok {} {}", y, Self::fmt_states(&st));
                let xrd_after = big(self.ledger.as_mut().unwrap().get_component_balance(staker, XRD));
                if y != big(data.claim_amount) || (!self.fees && &xrd_after - &xrd_before != y) || after.p.is_negative() {
                    return Answer::fail(ans, "claim-amount", format!("claim NFT says {} but {} left the pending vault", big(data.claim_amount), y));
                }
                Answer::ok(ans)
            }
            ("register", 2) | ("unregister", 2) => {
                let Some(v) = label(t[1]) else { return Answer::ok("bad-op") };
                if v >= n {
                    return Answer::ok("bad-op");
                }
                let (addr, spec) = world.vals[v];
                let owner = ComponentAddress::preallocated_account_from_public_key(&val_key(spec));
                let m = ManifestBuilder::new()
                    .lock_fee_from_faucet()
                    .create_proof_from_account_of_non_fungibles(owner, VALIDATOR_OWNER_BADGE, [NonFungibleLocalId::bytes(addr.as_node_id().0).unwrap()])
                    .call_method(addr, if t[0] == "register" { VALIDATOR_REGISTER_IDENT } else { VALIDATOR_UNREGISTER_IDENT }, manifest_args!())
                    .build();
                let r = self.exec(m, vec![NonFungibleGlobalId::from_public_key(&val_key(spec))]);
                match Self::outcome(&r) {
                    Err(k) => Answer::ok(format!("err {}", k)),
                    Ok(()) => Answer::ok("ok"),
                }
            }
            ("round", 3) | ("epoch", 3) => {
                let Some(l) = label(t[1]).filter(|x| *x < 256) else { return Answer::ok("bad-op") };
                let gaps: Option<Vec<u8>> = if t[2] == "-" { Some(vec![]) } else { t[2].split(',').filter(|x| !x.is_empty()).map(|x| label(x).filter(|y| *y < 256).map(|y| y as u8)).collect() };
                let Some(gaps) = gaps else { return Answer::ok("bad-op") };
                self.do_round(l as u8, gaps, t[0] == "epoch")
            }
            _ => Answer::ok("bad-op"),
        }
    }
}

fn current_set(r: &mut R) -> String {
    let world = r.world.clone().unwrap();
    let ledger = r.ledger.as_mut().unwrap();
    let reader = SystemDatabaseReader::new(ledger.substate_db());
    let sub = reader
        .read_typed_object_field::<ConsensusManagerCurrentValidatorSetFieldPayload>(CONSENSUS_MANAGER.as_node_id(), ModuleId::Main, ConsensusManagerField::CurrentValidatorSet.field_index())
        .unwrap()
        .fully_update_and_into_latest_version();
    let v: Vec<String> = sub
        .validator_set
        .validators_by_stake_desc
        .iter()
        .map(|(a, v)| format!("{}:{}", world.vals.iter().position(|x| &x.0 == a).unwrap_or(999), big(v.stake)))
        .collect();
    if v.is_empty() {
        "-".into()
    } else {
        v.join(";")
    }
}

// ---------------------------------------------------------------------------------------- gen

const XRD1: u128 = 1_000_000_000_000_000_000;

fn menu() -> Vec<String> {
    // E MINREL MAXV UNSTAKE specs...
    vec![
        format!("10000000000000000000 0 10 1 {}:{}:1", 1000 * XRD1, XRD1),
        format!("10000000000000000000 200000000000000000 3 1 {}:0:1 {}:{}:1 {}:{}:1", 500 * XRD1, 500 * XRD1, XRD1 / 2, 250 * XRD1, XRD1 / 10),
        format!("2853881278538812785388 1000000000000000000 2 0 {}:0:1 {}:{}:1 {}:0:1 {}:0:0", 100_000 * XRD1, 100_001 * XRD1, XRD1 / 50, 99_999 * XRD1, 777 * XRD1),
        format!("7 900000000000000000 4 2 {}:{}:1 {}:0:1 0:0:1 3:0:1 {}:{}:1", XRD1, XRD1 / 3, 2 * XRD1, 200_000 * XRD1 + 1, XRD1 / 7),
        format!("1000000000000000000000 500000000000000000 1 1 {}:0:1 {}:{}:1", 123_456_789 * XRD1 + 987_654_321, 123_456_789 * XRD1 + 987_654_321, XRD1 / 4),
        format!("33333333333333333333 0 5 3 {}:0:1 {}:0:1 {}:0:1 {}:0:1 {}:0:1 {}:0:1", 10 * XRD1, 10 * XRD1, 10 * XRD1, 30 * XRD1, 20 * XRD1, 10 * XRD1),
    ]
}

impl Area for A {
    fn gen(&self, rng: &mut Rng, n: usize, out: &mut dyn Write) {
        // the address order of every genesis in the menu is found by building it (deterministic)
        let mut probe = R::new(false);
        let mut lines: Vec<(String, usize)> = vec![];
        for m in menu() {
            let l = format!("genesis {} ord=? {}", m.splitn(5, ' ').take(4).collect::<Vec<_>>().join(" "), m.splitn(5, ' ').nth(4).unwrap());
            probe.step("reset");
            let a = probe.step(&l);
            let ord = a.ans.strip_prefix("desync ord=").expect("probe").to_string();
            let nvals = ord.split(',').count();
            lines.push((l.replace("ord=?", &format!("ord={}", ord)), nvals));
        }
        for case in 0..n {
            writeln!(out, "reset").unwrap();
            let (g, nv) = rng.pick(&lines).clone();
            writeln!(out, "{}", g).unwrap();
            let nv = nv as u64;
            if case % 29 == 3 {
                writeln!(out, "{}", rng.pick(&["stake", "stake 0 x", "unstake 99 1", "claim 0", "epoch 0", "round a -", "genesis 1 1 1 1 ord=0 1:0:1", "frob", "unstakef 0 3 2"])).unwrap();
            }
            let len = 3 + rng.below(14);
            let mut set_size = nv.min(4); // rough idea of the active set size for leader indices
            for _ in 0..len {
                match rng.below(16) {
                    0..=3 => {
                        let x: u128 = match rng.below(7) {
                            0 => 1,
                            1 => 1 + rng.below(1000) as u128,
                            2 => XRD1 * (1 + rng.below(100) as u128),
                            3 => XRD1 * 100_000 * (1 + rng.below(3) as u128),
                            4 => rng.next() as u128,
                            5 => (rng.next() as u128) * (rng.next() as u128 >> 20),
                            _ => XRD1 * (1 + rng.below(1_000_000) as u128) / 7,
                        };
                        writeln!(out, "stake {} {}", rng.below(nv), x).unwrap();
                    }
                    4..=6 => {
                        let d = *rng.pick(&[1u64, 1, 2, 3, 10, 1000, 1_000_000_007]);
                        let a = match rng.below(4) {
                            0 => d,
                            1 => 1,
                            _ => 1 + rng.below(d),
                        };
                        writeln!(out, "unstakef {} {} {}", rng.below(nv), a.min(d), d).unwrap();
                    }
                    7 => writeln!(out, "unstake {} {}", rng.below(nv), 1 + rng.below(1_000_000)).unwrap(),
                    8 | 9 => writeln!(out, "claim {} {}", rng.below(nv), rng.below(3)).unwrap(),
                    10 => writeln!(out, "{} {}", if rng.chance(1, 2) { "register" } else { "unregister" }, rng.below(nv)).unwrap(),
                    11 | 12 => {
                        let gaps: Vec<String> = (0..rng.below(4)).map(|_| rng.below(set_size.max(1)).to_string()).collect();
                        writeln!(out, "round {} {}", rng.below(set_size.max(1)), if gaps.is_empty() { "-".to_string() } else { gaps.join(",") }).unwrap();
                    }
                    _ => {
                        let bad = rng.chance(1, 30);
                        let gaps: Vec<String> = (0..rng.below(5)).map(|_| (if bad { 9 } else { rng.below(set_size.max(1)) }).to_string()).collect();
                        writeln!(out, "epoch {} {}", rng.below(set_size.max(1)), if gaps.is_empty() { "-".to_string() } else { gaps.join(",") }).unwrap();
                        set_size = 1 + rng.below(nv.min(5));
                    }
                }
            }
        }
    }
    fn runner(&self) -> Box<dyn Runner> {
        Box::new(R::new(self.fees))
    }
    fn consts(&self) -> Vec<(String, String)> {
        vec![]
    }
}

fn main() {
    main_with(&[("c42", &A { fees: false }), ("c42f", &A { fees: true })]);
}
