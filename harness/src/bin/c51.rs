//! C51 — locked state stays locked forever.
//!   area `c51`: engine level. A native test blueprint `LockCells` (custom native VM extension, as in
//!   radix-engine-tests/tests/system/system_errors.rs) is published on the `LedgerSimulator`; each
//!   `reset` instantiates it as a global component with three fields and a key-value collection
//!   (chosen initial values / lock flags), a metadata module (initial entries, some locked), a
//!   component-royalty module (initial amounts, some locked) and a role-assignment module (owner role
//!   None / Fixed / Updatable).  Every other line is ONE real transaction:
//!     * `script …`  the component's `run` method interprets a list of raw system-API calls
//!       (actor_open_field / actor_open_key_value_entry with or without MUTABLE, field_read / write /
//!       lock / close, key_value_entry_get / set / remove / lock / close) — the real `system.rs` code;
//!     * `md|roy|own|role …`  the native module methods via manifest instructions, with the owner badge
//!       presented, not presented, or with the auth module disabled.
//!   After the commit the raw substates (value + lock status) are read from the substate database and
//!   compared with the Lean model (`RadixModel/Model/LockCells.lean`); the property oracle keeps, per
//!   cell, the value it had when it was first seen locked and flags any later difference.
//!   `consts` regenerates `Generated/C51.lean` from the sources: the SystemApi trait surface
//!   (radix-engine-interface/src/api/*.rs), per-function source facts of radix-engine/src/system/system.rs
//!   (who writes substates, who checks the lock status, who constructs unlocked substates) and the
//!   API-call scripts of the native module functions (object_modules/{metadata,royalty,role_assignment}/package.rs).
use harness::util::*;
use radix_blueprint_schema_init::*;
use radix_common::prelude::*;
use sbor::basic_well_known_types::ANY_TYPE;
use radix_engine::errors::*;
use radix_engine::kernel::kernel_api::{KernelNodeApi, KernelSubstateApi};
use radix_engine::object_modules::metadata::*;
use radix_engine::object_modules::role_assignment::*;
use radix_engine::object_modules::royalty::*;
use radix_engine::system::system_callback::SystemLockData;
use radix_engine::system::system_db_reader::*;
use radix_engine::system::system_substates::*;
use radix_engine::transaction::*;
use radix_engine::vm::{OverridePackageCode, VmApi, VmInvoke};
use radix_engine_interface::api::{AttachedModuleId, FieldValue, GenericArgs, KVEntry, LockFlags, ModuleId, SystemApi, ACTOR_STATE_SELF};
use radix_engine_interface::blueprints::package::*;
use radix_engine_interface::prelude::*;
use radix_native_sdk::modules::metadata::Metadata;
use radix_native_sdk::modules::role_assignment::RoleAssignment;
use radix_native_sdk::modules::royalty::ComponentRoyalty;
use radix_substate_store_interface::interface::*;
use radix_transactions::prelude::*;
use scrypto_test::prelude::*;
use std::collections::BTreeMap;
use std::io::Write;
use std::sync::Mutex;

pub struct A;

const BLUEPRINT: &str = "LockCells";
const CODE_ID: u64 = 1051;
const NF: u64 = 3; // fields of the test blueprint
const NK: u64 = 4; // keys used in collections / modules

// ------------------------------------------------------------------------------------------ translator

/// index = API call code of the Lean model (`callSteps`); 50.. = calls that touch no existing lockable cell
const API: [(&str, u64); 60] = [
    ("actor_open_field:MUTABLE", 0),
    ("actor_open_field:read_only", 1),
    ("actor_open_key_value_entry:MUTABLE", 2),
    ("actor_open_key_value_entry:read_only", 3),
    ("field_read", 4),
    ("field_write", 5),
    ("field_lock", 6),
    ("field_close", 7),
    ("key_value_entry_get", 8),
    ("key_value_entry_set", 9),
    ("key_value_entry_remove", 10),
    ("key_value_entry_lock", 11),
    ("key_value_entry_close", 12),
    ("actor_remove_key_value_entry", 13),
    ("key_value_store_open_entry:MUTABLE", 14),
    ("key_value_store_open_entry:read_only", 15),
    ("key_value_store_remove_entry", 16),
    // no access to an existing lockable cell
    ("actor_get_blueprint_id", 50),
    ("actor_get_node_id", 51),
    ("actor_is_feature_enabled", 52),
    ("actor_emit_event", 53),
    ("actor_index_insert", 54),
    ("actor_index_remove", 55),
    ("actor_index_scan_keys", 56),
    ("actor_index_drain", 57),
    ("actor_sorted_index_insert", 58),
    ("actor_sorted_index_remove", 59),
    ("actor_sorted_index_scan", 60),
    ("call_function", 61),
    ("resolve_blueprint_type", 62),
    ("start_lock_fee", 63),
    ("lock_fee", 64),
    ("consume_cost_units", 65),
    ("execution_cost_unit_limit", 66),
    ("execution_cost_unit_price", 67),
    ("finalization_cost_unit_limit", 68),
    ("finalization_cost_unit_price", 69),
    ("usd_price", 70),
    ("max_per_function_royalty_in_xrd", 71),
    ("tip_percentage_truncated", 72),
    ("fee_balance", 73),
    ("update_instruction_index", 74),
    ("key_value_store_new", 75),
    ("new_simple_object", 76),
    ("new_object", 77),
    ("drop_object", 78),
    ("get_blueprint_id", 79),
    ("get_outer_object", 80),
    ("allocate_global_address", 81),
    ("allocate_virtual_global_address", 82),
    ("get_reservation_address", 83),
    ("globalize", 84),
    ("globalize_with_address_and_create_inner_object_and_emit_event", 85),
    ("call_method", 86),
    ("call_direct_access_method", 87),
    ("call_module_method", 88),
    ("bech32_encode_address", 89),
    ("get_transaction_hash", 90),
    ("generate_ruid", 91),
    ("emit_log", 92),
];
// further harmless calls seen inside native module code (kernel-level READ-ONLY access, panic)
const EXTRA: [(&str, u64); 6] = [("system_module_api", 98), ("panic", 93), ("kernel_open_substate:read_only", 94), ("kernel_open_substate_with_default:read_only", 95), ("kernel_read_substate", 96), ("kernel_close_substate", 97)];

fn api_code(name: &str) -> u64 {
    let n = name.strip_suffix("_typed").unwrap_or(name);
    API.iter().chain(EXTRA.iter()).find(|x| x.0 == n).map(|x| x.1).unwrap_or(999)
}

/// the functions of the native module packages, (file, fn name) -> export code of the Lean table
const NATIVE_FNS: [(&str, &str, u64); 22] = [
    ("metadata", "set", 0),
    ("metadata", "lock", 1),
    ("metadata", "remove", 2),
    ("metadata", "get", 3),
    ("metadata", "create", 4),
    ("metadata", "create_with_data", 5),
    ("metadata", "invoke_export", 6),
    ("royalty", "set_royalty", 10),
    ("royalty", "lock_royalty", 11),
    ("royalty", "claim_royalties", 12),
    ("royalty", "create", 13),
    ("royalty", "charge_component_royalty", 14),
    ("royalty", "invoke_export", 15),
    ("royalty", "verify_royalty_amounts", 16),
    ("role_assignment", "set_owner_role", 20),
    ("role_assignment", "lock_owner_role", 21),
    ("role_assignment", "set_role", 22),
    ("role_assignment", "get_role", 23),
    ("role_assignment", "create", 24),
    ("role_assignment", "get_owner_role", 25),
    ("role_assignment", "invoke_export", 26),
    ("role_assignment", "resolve_update_owner_role_method_permission", 27),
];

fn strip_comments(src: &str) -> String {
    let re_block = regex::Regex::new(r"(?s)/\*.*?\*/").unwrap();
    let re_line = regex::Regex::new(r"//[^\n]*").unwrap();
    let s = re_block.replace_all(src, "").to_string();
    re_line.replace_all(&s, "").to_string()
}

/// all `fn name … { body }` of a source text (brace matching from the first `{` after the name)
fn functions(src: &str) -> Vec<(String, String)> {
    let re = regex::Regex::new(r"\bfn\s+([A-Za-z_][A-Za-z0-9_]*)").unwrap();
    let b = src.as_bytes();
    let mut out = vec![];
    for m in re.captures_iter(src) {
        let name = m[1].to_string();
        let start = m.get(0).unwrap().end();
        // a trait method declaration ends with `;` before any `{`
        let mut i = start;
        let mut open = None;
        let mut paren = 0i32;
        while i < b.len() {
            match b[i] {
                b'(' => paren += 1,
                b')' => paren -= 1,
                b';' if paren == 0 => break,
                b'{' if paren == 0 => {
                    open = Some(i);
                    break;
                }
                _ => {}
            }
            i += 1;
        }
        let Some(o) = open else { continue };
        let mut depth = 0i32;
        let mut j = o;
        while j < b.len() {
            match b[j] {
                b'{' => depth += 1,
                b'}' => {
                    depth -= 1;
                    if depth == 0 {
                        break;
                    }
                }
                _ => {}
            }
            j += 1;
        }
        out.push((name, src[o..=j.min(b.len() - 1)].to_string()));
    }
    out
}

fn repo() -> String {
    std::env::var("VERIF_REPO").unwrap_or_else(|_| "/repo".to_string())
}

/// methods of every `pub trait System…Api` in radix-engine-interface/src/api
fn api_surface() -> Vec<String> {
    let dir = format!("{}/radix-engine-interface/src/api", repo());
    let mut files: Vec<_> = match std::fs::read_dir(&dir) {
        Ok(d) => d.filter_map(|e| e.ok()).map(|e| e.path()).filter(|p| p.extension().map(|x| x == "rs").unwrap_or(false)).collect(),
        Err(_) => return vec!["<unreadable>".into()],
    };
    files.sort();
    let re_trait = regex::Regex::new(r"pub\s+trait\s+(System[A-Za-z]*Api)\b[^{]*\{").unwrap();
    let re_fn = regex::Regex::new(r"\bfn\s+([a-z_][a-z0-9_]*)").unwrap();
    let mut out = vec![];
    for f in files {
        let src = strip_comments(&std::fs::read_to_string(&f).unwrap_or_default());
        for m in re_trait.find_iter(&src) {
            // body of the trait
            let o = m.end() - 1;
            let b = src.as_bytes();
            let (mut depth, mut j) = (0i32, o);
            while j < b.len() {
                match b[j] {
                    b'{' => depth += 1,
                    b'}' => {
                        depth -= 1;
                        if depth == 0 {
                            break;
                        }
                    }
                    _ => {}
                }
                j += 1;
            }
            let body = &src[o..j.min(b.len())];
            // only depth-1 `fn`s: typed convenience wrappers with default bodies are included too
            for c in re_fn.captures_iter(body) {
                let n = c[1].to_string();
                if !out.contains(&n) {
                    out.push(n);
                }
            }
        }
    }
    out
}

/// source facts of one function body of system.rs, as a bit mask
fn facts(body: &str) -> u64 {
    let has = |s: &str| body.contains(s);
    let mut m = 0;
    if has("kernel_write_substate") {
        m |= 1; // writes a substate through a handle
    }
    if has("kernel_open_substate") {
        m |= 2; // opens a substate
    }
    if has("LockStatus::Locked") || has(".is_locked()") {
        m |= 4; // inspects the lock status
    }
    if has("FieldLockData::Write") || has("KVStoreWrite") || has("KVCollectionWrite") || has("is_kv_entry_with_write") {
        m |= 8; // demands / creates a write handle
    }
    if has("new_unlocked_field") || has("unlocked_entry(") || has("KeyValueEntrySubstate::<()>::default()") {
        m |= 16; // constructs an UNLOCKED substate
    }
    if has(".lock()") {
        m |= 32; // sets the lock status
    }
    if has("SystemError::FieldLocked") || has("SystemError::KeyValueEntryLocked") {
        m |= 64; // raises the locked error
    }
    if has("kernel_set_substate") || has("kernel_remove_substate") || has("kernel_drain_substates") {
        m |= 128; // handle-less writes (index partitions)
    }
    if (has("self.actor_open_key_value_entry(") || has("self.key_value_store_open_entry(")) && has("LockFlags::MUTABLE") && has("key_value_entry_remove_and_close_substate") {
        m |= 256; // remove = checked MUTABLE open + remove-and-close helper
    }
    m
}

/// names of system.rs functions the Lean side knows (code = index); an unknown function gets 999
const SYS_FNS: [&str; 27] = [
    "field_write",
    "field_lock",
    "key_value_entry_set",
    "key_value_entry_remove",
    "key_value_entry_lock",
    "key_value_entry_remove_and_close_substate",
    "actor_open_field",
    "actor_open_key_value_entry",
    "key_value_store_open_entry",
    "actor_index_insert",
    "actor_index_remove",
    "actor_index_drain",
    "actor_sorted_index_insert",
    "actor_sorted_index_remove",
    "actor_index_scan_keys",
    "actor_sorted_index_scan",
    "new_object_internal",
    "globalize_with_address_internal",
    "key_value_store_new",
    "get_actor_field_info",
    "actor_remove_key_value_entry",
    "key_value_store_remove_entry",
    // `impl KernelSubstateApi for SystemService`: pass-through to the kernel, not part of SystemApi
    "kernel_write_substate",
    "kernel_set_substate",
    "kernel_remove_substate",
    "kernel_drain_substates",
    // read-only open of a package's blueprint definition entry (default = empty unlocked entry)
    "load_blueprint_definition",
];

fn sys_facts() -> Vec<(String, u64, u64)> {
    let src = strip_comments(&std::fs::read_to_string(format!("{}/radix-engine/src/system/system.rs", repo())).unwrap_or_default());
    let mut out = vec![];
    for (name, body) in functions(&src) {
        let m = facts(&body);
        // only functions that write, raise the locked error, construct unlocked substates or set the lock
        if m & (1 | 16 | 32 | 64 | 128 | 256) != 0 {
            let code = SYS_FNS.iter().position(|n| *n == name).map(|i| i as u64).unwrap_or(999);
            out.push((name, code, m));
        }
    }
    out
}

/// API-call script of every function of the three native module packages that talks to `api`
fn native_rows() -> Vec<(String, u64, Vec<u64>, Vec<String>)> {
    let re_call = regex::Regex::new(r"(?s)\bapi\s*\.\s*([a-z_][a-z0-9_]*)").unwrap();
    let mut out = vec![];
    for module in ["metadata", "royalty", "role_assignment"] {
        let src = strip_comments(&std::fs::read_to_string(format!("{}/radix-engine/src/object_modules/{}/package.rs", repo(), module)).unwrap_or_default());
        for (name, body) in functions(&src) {
            let mut calls = vec![];
            let mut names = vec![];
            for c in re_call.captures_iter(&body) {
                let mut n = c[1].to_string();
                if n == "api" {
                    continue;
                }
                let base = n.strip_suffix("_typed").unwrap_or(&n).to_string();
                if ["actor_open_field", "actor_open_key_value_entry", "key_value_store_open_entry", "kernel_open_substate", "kernel_open_substate_with_default"].contains(&base.as_str()) {
                    // the LockFlags argument of this call
                    let rest = &body[c.get(0).unwrap().end()..];
                    let end = rest.find(")?").unwrap_or(rest.len().min(600));
                    let args = &rest[..end];
                    let flag = if args.contains("LockFlags::MUTABLE") {
                        "MUTABLE"
                    } else if args.contains("read_only()") {
                        "read_only"
                    } else {
                        "unknown-flags"
                    };
                    n = format!("{}:{}", base, flag);
                }
                calls.push(api_code(&n));
                names.push(n);
            }
            if calls.is_empty() {
                continue;
            }
            let code = NATIVE_FNS.iter().find(|x| x.0 == module && x.1 == name).map(|x| x.2).unwrap_or(900);
            out.push((format!("{}.{}", module, name), code, calls, names));
        }
    }
    out
}

fn lean_str_list(xs: &[String]) -> String {
    format!("[{}]", xs.iter().map(|s| format!("{:?}", s)).collect::<Vec<_>>().join(", "))
}

// ------------------------------------------------------------------------------------------ native test blueprint

static TRACE: Mutex<Vec<String>> = Mutex::new(Vec::new());

#[derive(ScryptoSbor, ManifestSbor, Clone, Debug)]
struct NewInput {
    owner_kind: u8, // 0 None, 1 Fixed, 2 Updatable
    owner_rule: u8, // 0 AllowAll, 1 DenyAll, 2 require(badge)
    badge: ResourceAddress,
    fields: Vec<(u64, bool)>,
    kv: Vec<(u64, Option<u64>, bool)>,
    md: Vec<(u64, Option<u64>, bool)>,
    roy: Vec<(u64, u64, bool)>,
}

#[derive(ScryptoSbor, ManifestSbor, Clone, Debug)]
struct RunInput {
    steps: Vec<(u8, u64, u64)>,
}

fn rule_of(code: u8, badge: ResourceAddress) -> AccessRule {
    match code {
        0 => AccessRule::AllowAll,
        1 => AccessRule::DenyAll,
        _ => rule!(require(badge)),
    }
}

fn sys_err(e: &RuntimeError) -> String {
    match e {
        RuntimeError::SystemError(SystemError::FieldLocked(..)) => "fieldLocked".into(),
        RuntimeError::SystemError(SystemError::KeyValueEntryLocked) => "entryLocked".into(),
        RuntimeError::SystemError(SystemError::NotAFieldHandle) => "notAFieldHandle".into(),
        RuntimeError::SystemError(SystemError::NotAFieldWriteHandle) => "notAFieldWriteHandle".into(),
        RuntimeError::SystemError(SystemError::NotAKeyValueEntryHandle) => "notAKvHandle".into(),
        RuntimeError::SystemError(SystemError::NotAKeyValueEntryWriteHandle) => "notAKvWriteHandle".into(),
        RuntimeError::SystemModuleError(SystemModuleError::AuthError(AuthError::Unauthorized(_))) => "unauthorized".into(),
        RuntimeError::KernelError(KernelError::CallFrameError(CallFrameError::OpenSubstateError(OpenSubstateError::SubstateLocked(..)))) => "substateLocked".into(),
        RuntimeError::KernelError(KernelError::CallFrameError(CallFrameError::ReadSubstateError(_)))
        | RuntimeError::KernelError(KernelError::CallFrameError(CallFrameError::WriteSubstateError(_)))
        | RuntimeError::KernelError(KernelError::CallFrameError(CallFrameError::CloseSubstateError(_)))
        | RuntimeError::KernelError(KernelError::SubstateHandleDoesNotExist(_)) => "noHandle".into(),
        other => format!("other:{}", format!("{:?}", other).chars().filter(|c| c.is_ascii_alphanumeric()).take(60).collect::<String>()),
    }
}

#[derive(Clone)]
struct TestInvoke;
impl VmInvoke for TestInvoke {
    fn invoke<Y: SystemApi<RuntimeError> + KernelNodeApi + KernelSubstateApi<SystemLockData>, V: VmApi>(
        &mut self,
        export_name: &str,
        input: &IndexedScryptoValue,
        api: &mut Y,
        _vm_api: &V,
    ) -> Result<IndexedScryptoValue, RuntimeError> {
        match export_name {
            "new" => {
                let inp: NewInput = input.as_typed().map_err(|e| RuntimeError::ApplicationError(ApplicationError::InputDecodeError(e)))?;
                let mut md = MetadataInit::default();
                for (k, v, l) in &inp.md {
                    md.data.insert(format!("k{}", k), KeyValueStoreInitEntry { value: v.map(MetadataValue::U64), lock: *l });
                }
                let metadata = Metadata::create_with_data(md, api)?;
                let mut cfg = ComponentRoyaltyConfig::default();
                for (m, v, l) in &inp.roy {
                    cfg.royalty_amounts.insert(format!("m{}", m), (RoyaltyAmount::Xrd(Decimal::from(*v)), *l));
                }
                let royalty = ComponentRoyalty::create(cfg, api)?;
                let owner = match inp.owner_kind {
                    0 => OwnerRole::None,
                    1 => OwnerRole::Fixed(rule_of(inp.owner_rule, inp.badge)),
                    _ => OwnerRole::Updatable(rule_of(inp.owner_rule, inp.badge)),
                };
                let ra = RoleAssignment::create(owner, indexmap!(), api)?;
                let mut fields = index_map_new();
                for (i, (v, l)) in inp.fields.iter().enumerate() {
                    fields.insert(i as u8, FieldValue { value: scrypto_encode(v).unwrap(), locked: *l });
                }
                let mut kv = index_map_new();
                for (k, v, l) in &inp.kv {
                    kv.insert(scrypto_encode(k).unwrap(), KVEntry { value: v.map(|v| scrypto_encode(&v).unwrap()), locked: *l });
                }
                let node = api.new_object(BLUEPRINT, vec![], GenericArgs::default(), fields, indexmap!(0u8 => kv))?;
                let addr = api.globalize(
                    node,
                    indexmap!(AttachedModuleId::Metadata => metadata.0, AttachedModuleId::Royalty => royalty.0, AttachedModuleId::RoleAssignment => ra.0 .0),
                    None,
                )?;
                Ok(IndexedScryptoValue::from_typed(&addr))
            }
            "run" => {
                let inp: RunInput = input.as_typed().map_err(|e| RuntimeError::ApplicationError(ApplicationError::InputDecodeError(e)))?;
                let mut handles: Vec<u32> = vec![];
                let mut closed: Vec<bool> = vec![];
                TRACE.lock().unwrap().clear();
                let show = |v: Option<u64>| match v {
                    Some(v) => format!("v{}", v),
                    None => "vnone".to_string(),
                };
                for (op, a, b) in inp.steps {
                    let hv = handles.clone();
                    let h = move |i: u64| hv.get(i as usize).copied().unwrap_or(u32::MAX);
                    let r: Result<String, RuntimeError> = (|| {
                        Ok(match op {
                            0 => {
                                let x = api.actor_open_field(ACTOR_STATE_SELF, a as u8, if b == 1 { LockFlags::MUTABLE } else { LockFlags::read_only() })?;
                                handles.push(x);
                                closed.push(false);
                                "-".to_string()
                            }
                            1 => {
                                let x = api.actor_open_key_value_entry(ACTOR_STATE_SELF, 0u8, &scrypto_encode(&a).unwrap(), if b == 1 { LockFlags::MUTABLE } else { LockFlags::read_only() })?;
                                handles.push(x);
                                closed.push(false);
                                "-".to_string()
                            }
                            2 => {
                                let d = api.field_read(h(a))?;
                                show(Some(scrypto_decode::<u64>(&d).unwrap_or(u64::MAX)))
                            }
                            3 => {
                                api.field_write(h(a), scrypto_encode(&b).unwrap())?;
                                "-".to_string()
                            }
                            4 => {
                                api.field_lock(h(a))?;
                                "-".to_string()
                            }
                            5 => {
                                api.field_close(h(a))?;
                                if let Some(c) = closed.get_mut(a as usize) {
                                    *c = true;
                                }
                                "-".to_string()
                            }
                            6 => {
                                let d = api.key_value_entry_get(h(a))?;
                                show(scrypto_decode::<Option<u64>>(&d).unwrap_or(Some(u64::MAX)))
                            }
                            7 => {
                                api.key_value_entry_set(h(a), scrypto_encode(&b).unwrap())?;
                                "-".to_string()
                            }
                            8 => {
                                let d = api.key_value_entry_remove(h(a))?;
                                show(scrypto_decode::<Option<u64>>(&d).unwrap_or(Some(u64::MAX)))
                            }
                            9 => {
                                api.key_value_entry_lock(h(a))?;
                                "-".to_string()
                            }
                            _ => {
                                api.key_value_entry_close(h(a))?;
                                if let Some(c) = closed.get_mut(a as usize) {
                                    *c = true;
                                }
                                "-".to_string()
                            }
                        })
                    })();
                    match r {
                        Ok(s) => TRACE.lock().unwrap().push(s),
                        Err(e) => {
                            TRACE.lock().unwrap().push(format!("err:{}", sys_err(&e)));
                            return Err(e);
                        }
                    }
                }
                // the frame ends: close what is still open
                for (i, x) in handles.iter().enumerate() {
                    if !closed[i] {
                        let _ = api.kernel_close_substate(*x);
                    }
                }
                Ok(IndexedScryptoValue::from_typed(&()))
            }
            _ => Ok(IndexedScryptoValue::from_typed(&())),
        }
    }
}

fn package_definition() -> PackageDefinition {
    let any = || TypeRef::Static(LocalTypeId::WellKnown(ANY_TYPE));
    let f = |name: &str, recv: bool| {
        (
            name.to_string(),
            FunctionSchemaInit { receiver: if recv { Some(ReceiverInfo::normal_ref_mut()) } else { None }, input: any(), output: any(), export: name.to_string() },
        )
    };
    let mut blueprints = index_map_new();
    blueprints.insert(
        BLUEPRINT.to_string(),
        BlueprintDefinitionInit {
            schema: BlueprintSchemaInit {
                state: BlueprintStateSchemaInit {
                    fields: (0..NF).map(|_| FieldSchema::static_field(LocalTypeId::WellKnown(ANY_TYPE))).collect(),
                    collections: vec![BlueprintCollectionSchema::KeyValueStore(BlueprintKeyValueSchema { key: any(), value: any(), allow_ownership: false })],
                },
                functions: BlueprintFunctionsSchemaInit { functions: [f("new", false), f("run", true)].into_iter().collect() },
                ..Default::default()
            },
            ..Default::default()
        },
    );
    PackageDefinition { blueprints }
}

// ------------------------------------------------------------------------------------------ protocol

#[derive(Clone, Copy, PartialEq, Eq, PartialOrd, Ord, Debug)]
enum Addr {
    F(u64),
    K(u64),
    M(u64),
    Y(u64),
    O,
    R(u64),
}

fn show_addr(a: &Addr) -> String {
    match a {
        Addr::F(i) => format!("f{}", i),
        Addr::K(i) => format!("k{}", i),
        Addr::M(i) => format!("m{}", i),
        Addr::Y(i) => format!("y{}", i),
        Addr::O => "o".into(),
        Addr::R(i) => format!("r{}", i),
    }
}

fn parse_nat(s: &str) -> Option<u64> {
    if s.is_empty() || s.len() > 9 || !s.chars().all(|c| c.is_ascii_digit()) {
        return None;
    }
    s.parse().ok()
}

fn parse_addr(s: &str) -> Option<Addr> {
    if s == "o" {
        return Some(Addr::O);
    }
    let n = parse_nat(s.get(1..)?)?;
    match s.chars().next()? {
        'f' if n < NF => Some(Addr::F(n)),
        'k' => Some(Addr::K(n)),
        'm' => Some(Addr::M(n)),
        'y' => Some(Addr::Y(n)),
        'r' => Some(Addr::R(n)),
        _ => None,
    }
}

/// `k=v/L;k=-/U` or `-`
fn parse_init(s: &str, need_value: bool) -> Option<Vec<(u64, Option<u64>, bool)>> {
    if s == "-" {
        return Some(vec![]);
    }
    let mut out: Vec<(u64, Option<u64>, bool)> = vec![];
    for e in s.split(';') {
        let (kv, l) = e.split_once('/')?;
        let (k, v) = kv.split_once('=')?;
        let k = parse_nat(k)?;
        let v = if v == "-" { None } else { Some(parse_nat(v)?) };
        let l = match l {
            "L" => true,
            "U" => false,
            _ => return None,
        };
        if (need_value && v.is_none()) || out.iter().any(|x| x.0 == k) {
            return None;
        }
        out.push((k, v, l));
    }
    Some(out)
}

/// steps: `of<i><m|r>` `ok<k><m|r>` `fr<h>` `fw<h>=<v>` `fl<h>` `fc<h>` `kg<h>` `ks<h>=<v>` `kr<h>` `kl<h>` `kc<h>`
fn parse_steps(s: &str) -> Option<Vec<(u8, u64, u64)>> {
    let mut out = vec![];
    let mut opened = 0u64;
    for st in s.split(',') {
        if st.len() < 3 {
            return None;
        }
        let (op, rest) = st.split_at(2);
        let step = match op {
            "of" | "ok" => {
                let (n, m) = rest.split_at(rest.len() - 1);
                let n = parse_nat(n)?;
                let m = match m {
                    "m" => 1,
                    "r" => 0,
                    _ => return None,
                };
                if op == "of" && n >= NF {
                    return None;
                }
                opened += 1;
                (if op == "of" { 0 } else { 1 }, n, m)
            }
            "fw" | "ks" => {
                let (h, v) = rest.split_once('=')?;
                (if op == "fw" { 3 } else { 7 }, parse_nat(h)?, parse_nat(v)?)
            }
            "fr" => (2, parse_nat(rest)?, 0),
            "fl" => (4, parse_nat(rest)?, 0),
            "fc" => (5, parse_nat(rest)?, 0),
            "kg" => (6, parse_nat(rest)?, 0),
            "kr" => (8, parse_nat(rest)?, 0),
            "kl" => (9, parse_nat(rest)?, 0),
            "kc" => (10, parse_nat(rest)?, 0),
            _ => return None,
        };
        if step.0 >= 2 && step.1 >= opened {
            return None; // handle slot that no earlier step can have opened
        }
        out.push(step);
    }
    Some(out)
}

// ------------------------------------------------------------------------------------------ generator

fn gen_init(rng: &mut Rng, need_value: bool) -> String {
    let mut v = vec![];
    for k in 0..NK {
        if rng.chance(1, 2) {
            let val = if need_value || rng.chance(3, 4) { (1 + rng.below(50)).to_string() } else { "-".to_string() };
            v.push(format!("{}={}/{}", k, val, if rng.chance(1, 3) { "L" } else { "U" }));
        }
    }
    if v.is_empty() {
        "-".into()
    } else {
        v.join(";")
    }
}

fn gen_script(rng: &mut Rng) -> String {
    let mut steps: Vec<String> = vec![];
    let mut kinds: Vec<bool> = vec![]; // true = field handle
    let n = 1 + rng.below(7);
    for _ in 0..n {
        let c = rng.below(100);
        if kinds.is_empty() || c < 30 {
            let field = rng.chance(1, 2);
            let m = if rng.chance(3, 4) { "m" } else { "r" };
            if field {
                steps.push(format!("of{}{}", rng.below(NF), m));
            } else {
                steps.push(format!("ok{}{}", rng.below(NK), m));
            }
            kinds.push(field);
            continue;
        }
        let h = if rng.chance(4, 5) { kinds.len() - 1 } else { rng.below(kinds.len() as u64) as usize };
        // mostly the right kind of call for the handle
        let as_field = if rng.chance(14, 15) { kinds[h] } else { !kinds[h] };
        let v = 1 + rng.below(90);
        let s = if as_field {
            match rng.below(10) {
                0 | 1 => format!("fr{}", h),
                2..=5 => format!("fw{}={}", h, v),
                6 | 7 => format!("fl{}", h),
                _ => format!("fc{}", h),
            }
        } else {
            match rng.below(12) {
                0 | 1 => format!("kg{}", h),
                2..=5 => format!("ks{}={}", h, v),
                6 | 7 => format!("kr{}", h),
                8 | 9 => format!("kl{}", h),
                _ => format!("kc{}", h),
            }
        };
        steps.push(s);
    }
    steps.join(",")
}

impl Area for A {
    fn gen(&self, rng: &mut Rng, n: usize, out: &mut dyn Write) {
        for _ in 0..n {
            let owner = match rng.below(10) {
                0 => "N".to_string(),
                1 | 2 => format!("F{}", rng.pick(&["A", "D", "B", "B"])),
                _ => format!("U{}", rng.pick(&["A", "D", "B", "B", "B", "B"])),
            };
            let fields: String = (0..NF).map(|_| if rng.chance(1, 4) { 'L' } else { 'U' }).collect();
            writeln!(out, "reset {} {} {} {} {}", owner, fields, gen_init(rng, false), gen_init(rng, false), gen_init(rng, true)).unwrap();
            let len = 6 + rng.below(24);
            for _ in 0..len {
                let b = match rng.below(10) {
                    0 | 1 => 0,
                    2 | 3 | 4 => 2,
                    _ => 1,
                };
                let k = rng.below(NK);
                let v = 1 + rng.below(90);
                match rng.below(100) {
                    0..=2 => {
                        match rng.below(6) {
                            0 => writeln!(out, "script fw0=1").unwrap(),
                            1 => writeln!(out, "script of9m").unwrap(),
                            2 => writeln!(out, "md set 1").unwrap(),
                            3 => writeln!(out, "own set Q 1").unwrap(),
                            4 => writeln!(out, "get z1").unwrap(),
                            _ => writeln!(out, "roy lock 1 7").unwrap(),
                        };
                    }
                    3..=40 => writeln!(out, "script {}", gen_script(rng)).unwrap(),
                    41..=52 => writeln!(out, "md set {} {} {}", k, v, b).unwrap(),
                    53..=58 => writeln!(out, "md lock {} {}", k, b).unwrap(),
                    59..=63 => writeln!(out, "md remove {} {}", k, b).unwrap(),
                    64..=72 => writeln!(out, "roy set {} {} {}", k, v, b).unwrap(),
                    73..=77 => writeln!(out, "roy lock {} {}", k, b).unwrap(),
                    78..=79 => writeln!(out, "roy claim {}", b).unwrap(),
                    80..=87 => writeln!(out, "own set {} {}", rng.pick(&["A", "D", "B", "B"]), b).unwrap(),
                    88..=91 => writeln!(out, "own lock {}", b).unwrap(),
                    92..=94 => writeln!(out, "role set {} {} {}", k, rng.pick(&["A", "D", "B"]), b).unwrap(),
                    _ => {
                        let a = match rng.below(6) {
                            0 => format!("f{}", rng.below(NF)),
                            1 => format!("k{}", k),
                            2 => format!("m{}", k),
                            3 => format!("y{}", k),
                            4 => format!("r{}", k),
                            _ => "o".to_string(),
                        };
                        writeln!(out, "get {}", a).unwrap();
                    }
                }
            }
        }
    }
    fn runner(&self) -> Box<dyn Runner> {
        Box::new(R::new())
    }
    fn consts(&self) -> Vec<(String, String)> {
        let surface = api_surface();
        let codes: Vec<String> = surface
            .iter()
            .map(|n| {
                // the flag-carrying open calls are listed by their MUTABLE variant
                let c = api_code(n);
                if c == 999 { api_code(&format!("{}:MUTABLE", n)) } else { c }.to_string()
            })
            .collect();
        let sys = sys_facts();
        let nat = native_rows();
        vec![
            ("apiSurfaceNames".into(), format!("{}\traw\tList String", lean_str_list(&surface))),
            ("apiSurface".into(), format!("[{}]\traw\tList Nat", codes.join(", "))),
            ("sysFactNames".into(), format!("{}\traw\tList String", lean_str_list(&sys.iter().map(|x| x.0.clone()).collect::<Vec<_>>()))),
            ("sysFacts".into(), format!("[{}]\traw\tList (Nat × Nat)", sys.iter().map(|x| format!("({}, {})", x.1, x.2)).collect::<Vec<_>>().join(", "))),
            (
                "nativeRowNames".into(),
                format!("{}\traw\tList String", lean_str_list(&nat.iter().map(|x| format!("{} = {}", x.0, x.3.join(" ; "))).collect::<Vec<_>>())),
            ),
            (
                "nativeRows".into(),
                format!(
                    "[{}]\traw\tList (Nat × List Nat)",
                    nat.iter().map(|x| format!("({}, [{}])", x.1, x.2.iter().map(|c| c.to_string()).collect::<Vec<_>>().join(", "))).collect::<Vec<_>>().join(", ")
                ),
            ),
        ]
    }
}

// ------------------------------------------------------------------------------------------ runner

type Ledger = LedgerSimulator<OverridePackageCode<TestInvoke>, InMemorySubstateDatabase>;

struct R {
    ledger: Ledger,
    snapshot: LedgerSimulatorSnapshot,
    pk: Secp256k1PublicKey,
    account: ComponentAddress,
    badge: ResourceAddress,
    package: PackageAddress,
    comp: Option<ComponentAddress>,
    /// oracle: cell -> the content it had when it was first observed locked
    frozen: BTreeMap<Addr, String>,
    seen: Vec<Addr>,
}

impl R {
    fn new() -> R {
        let mut ledger = LedgerSimulatorBuilder::new().without_receipt_substate_check().with_custom_extension(OverridePackageCode::new(CODE_ID, TestInvoke)).build();
        let (pk, _, account) = ledger.new_account(false);
        let badge = ledger.create_fungible_resource(10.into(), 0, account);
        let package = ledger.publish_native_package(CODE_ID, package_definition());
        let snapshot = ledger.create_snapshot();
        R { ledger, snapshot, pk, account, badge, package, comp: None, frozen: BTreeMap::new(), seen: vec![] }
    }

    fn rule_code(&self, r: &AccessRule) -> u64 {
        if *r == AccessRule::AllowAll {
            0
        } else if *r == AccessRule::DenyAll {
            1
        } else if *r == rule!(require(self.badge)) {
            2
        } else {
            9
        }
    }

    /// raw substate of a cell: `<value|none>/<L|U>`; `none/U` when the substate does not exist
    fn cell(&self, a: &Addr) -> String {
        let comp = self.comp.unwrap();
        let node = comp.as_node_id();
        let db = self.ledger.substate_db();
        let reader = SystemDatabaseReader::new(db);
        let lk = |l: bool| if l { "L" } else { "U" };
        let sv = |v: Option<u64>| v.map(|x| x.to_string()).unwrap_or_else(|| "none".into());
        match a {
            Addr::F(i) => {
                let s: Option<FieldSubstate<ScryptoValue>> = db.get_substate(node, MAIN_BASE_PARTITION, SubstateKey::Field(*i as u8));
                match s {
                    Some(f) => {
                        let l = matches!(f.lock_status(), LockStatus::Locked);
                        let v = match f.into_payload() {
                            ScryptoValue::U64 { value } => Some(value),
                            _ => Some(u64::MAX),
                        };
                        format!("{}/{}", sv(v), lk(l))
                    }
                    None => "absent".into(),
                }
            }
            Addr::K(k) => {
                let p = reader.get_partition_of_collection(node, ModuleId::Main, 0).unwrap();
                let s: Option<KeyValueEntrySubstate<ScryptoValue>> = db.get_substate(node, p, SubstateKey::Map(scrypto_encode(k).unwrap()));
                match s {
                    Some(e) => {
                        let l = e.is_locked();
                        let v = e.into_value().map(|v| match v {
                            ScryptoValue::U64 { value } => value,
                            _ => u64::MAX,
                        });
                        format!("{}/{}", sv(v), lk(l))
                    }
                    None => "none/U".into(),
                }
            }
            Addr::M(k) => {
                let p = reader.get_partition_of_collection(node, ModuleId::Metadata, 0).unwrap();
                let s: Option<KeyValueEntrySubstate<MetadataEntryEntryPayload>> = db.get_substate(node, p, SubstateKey::Map(scrypto_encode(&format!("k{}", k)).unwrap()));
                match s {
                    Some(e) => {
                        let l = e.is_locked();
                        let v = e.into_value().map(|v| match v.fully_update_and_into_latest_version() {
                            MetadataValue::U64(x) => x,
                            _ => u64::MAX,
                        });
                        format!("{}/{}", sv(v), lk(l))
                    }
                    None => "none/U".into(),
                }
            }
            Addr::Y(m) => {
                let p = reader.get_partition_of_collection(node, ModuleId::Royalty, 0).unwrap();
                let s: Option<KeyValueEntrySubstate<ComponentRoyaltyMethodAmountEntryPayload>> = db.get_substate(node, p, SubstateKey::Map(scrypto_encode(&format!("m{}", m)).unwrap()));
                match s {
                    Some(e) => {
                        let l = e.is_locked();
                        let v = e.into_value().map(|v| match v.fully_update_and_into_latest_version() {
                            RoyaltyAmount::Xrd(d) => d.to_string().parse::<u64>().unwrap_or(u64::MAX),
                            _ => u64::MAX,
                        });
                        format!("{}/{}", sv(v), lk(l))
                    }
                    None => "none/U".into(),
                }
            }
            Addr::O => {
                let s: Option<FieldSubstate<RoleAssignmentOwnerFieldPayload>> = db.get_substate(node, ROLE_ASSIGNMENT_BASE_PARTITION, SubstateKey::Field(0u8));
                match s {
                    Some(f) => {
                        let l = matches!(f.lock_status(), LockStatus::Locked);
                        let e = f.into_payload().fully_update_and_into_latest_version().owner_role_entry;
                        let up = match e.updater {
                            OwnerRoleUpdater::None => 0,
                            OwnerRoleUpdater::Owner => 1,
                            OwnerRoleUpdater::Object => 7,
                        };
                        format!("{}/{}", self.rule_code(&e.rule) * 2 + up, lk(l))
                    }
                    None => "absent".into(),
                }
            }
            Addr::R(k) => {
                let p = reader.get_partition_of_collection(node, ModuleId::RoleAssignment, 0).unwrap();
                let key = ModuleRoleKey::new(ModuleId::Main, RoleKey::new(format!("r{}", k)));
                let s: Option<KeyValueEntrySubstate<RoleAssignmentAccessRuleEntryPayload>> = db.get_substate(node, p, SubstateKey::Map(scrypto_encode(&key).unwrap()));
                match s {
                    Some(e) => {
                        let l = e.is_locked();
                        let v = e.into_value().map(|v| self.rule_code(&v.fully_update_and_into_latest_version()));
                        format!("{}/{}", sv(v), lk(l))
                    }
                    None => "none/U".into(),
                }
            }
        }
    }

    fn note(&mut self, a: Addr) {
        if !self.seen.contains(&a) {
            self.seen.push(a);
        }
    }

    /// property oracle: every cell that was once observed locked still has exactly that content
    fn judge(&mut self, what: &str) -> Option<(String, String)> {
        let mut fail = None;
        for a in self.seen.clone() {
            let c = self.cell(&a);
            if let Some(old) = self.frozen.get(&a) {
                if *old != c && fail.is_none() {
                    let kind = match a {
                        Addr::F(_) => "field",
                        Addr::K(_) => "kv-entry",
                        Addr::M(_) => "metadata",
                        Addr::Y(_) => "royalty",
                        Addr::O => "owner-role",
                        Addr::R(_) => "role",
                    };
                    fail = Some((format!("locked-cell-changed:{}:{}", kind, what), format!("{} was locked as {} and is now {}", show_addr(&a), old, c)));
                }
            } else if c.ends_with("/L") {
                self.frozen.insert(a, c);
            }
        }
        fail
    }

    fn outcome(receipt: &TransactionReceipt) -> String {
        match &receipt.result {
            TransactionResult::Commit(c) => match &c.outcome {
                TransactionOutcome::Success(_) => "ok".into(),
                TransactionOutcome::Failure(e) => format!("err:{}", sys_err(e)),
            },
            TransactionResult::Reject(r) => format!("rejected:{}", format!("{:?}", r.reason).chars().filter(|c| c.is_ascii_alphanumeric()).take(40).collect::<String>()),
            TransactionResult::Abort(_) => "aborted".into(),
        }
    }

    fn exec(&mut self, b: ManifestBuilder, badge: u64) -> TransactionReceipt {
        let manifest = b.build();
        if badge == 2 {
            let cfg = ExecutionConfig::for_test_transaction().update_system_overrides(|mut o| {
                o.disable_auth = true;
                o
            });
            self.ledger.execute_manifest_with_execution_config(manifest, [NonFungibleGlobalId::from_public_key(&self.pk)], cfg)
        } else {
            self.ledger.execute_manifest(manifest, [NonFungibleGlobalId::from_public_key(&self.pk)])
        }
    }

    fn start(&self, badge: u64) -> ManifestBuilder {
        let b = ManifestBuilder::new().lock_fee_from_faucet();
        if badge == 1 {
            b.create_proof_from_account_of_amount(self.account, self.badge, 1)
        } else {
            b
        }
    }

    fn reset(&mut self, t: &[&str]) -> Answer {
        if t.len() != 6 {
            return Answer::ok("bad-op");
        }
        let oc: Vec<char> = t[1].chars().collect();
        let (kind, rule) = match oc.as_slice() {
            ['N'] => (0u8, 1u8),
            [k @ ('F' | 'U'), r @ ('A' | 'D' | 'B')] => (if *k == 'F' { 1 } else { 2 }, match r { 'A' => 0, 'D' => 1, _ => 2 }),
            _ => return Answer::ok("bad-op"),
        };
        let fl: Vec<char> = t[2].chars().collect();
        if fl.len() != NF as usize || !fl.iter().all(|c| *c == 'L' || *c == 'U') {
            return Answer::ok("bad-op");
        }
        let (kv, md, roy) = match (parse_init(t[3], false), parse_init(t[4], false), parse_init(t[5], true)) {
            (Some(a), Some(b), Some(c)) => (a, b, c),
            _ => return Answer::ok("bad-op"),
        };
        self.ledger.restore_snapshot(self.snapshot.clone());
        self.comp = None;
        self.frozen.clear();
        self.seen.clear();
        let input = NewInput {
            owner_kind: kind,
            owner_rule: rule,
            badge: self.badge,
            fields: fl.iter().enumerate().map(|(i, c)| (100 + i as u64, *c == 'L')).collect(),
            kv: kv.clone(),
            md: md.clone(),
            roy: roy.iter().map(|x| (x.0, x.1.unwrap(), x.2)).collect(),
        };
        let b = ManifestBuilder::new().lock_fee_from_faucet().call_function(self.package, BLUEPRINT, "new", &input);
        let receipt = self.exec(b, 0);
        let out = Self::outcome(&receipt);
        if out != "ok" {
            return Answer::ok(out);
        }
        self.comp = Some(receipt.expect_commit(true).new_component_addresses()[0]);
        let mut addrs: Vec<Addr> = (0..NF).map(Addr::F).collect();
        addrs.extend(kv.iter().map(|x| Addr::K(x.0)));
        addrs.extend(md.iter().map(|x| Addr::M(x.0)));
        addrs.extend(roy.iter().map(|x| Addr::Y(x.0)));
        addrs.push(Addr::O);
        let mut ans = "ok".to_string();
        for a in &addrs {
            self.note(*a);
            ans += &format!(" {}={}", show_addr(a), self.cell(a));
        }
        let _ = self.judge("create");
        Answer::ok(ans)
    }

    fn finish(&mut self, head: String, addrs: &[Addr], what: &str) -> Answer {
        let mut ans = head;
        for a in addrs {
            self.note(*a);
            ans += &format!(" {}={}", show_addr(a), self.cell(a));
        }
        match self.judge(what) {
            None => Answer::ok(ans),
            Some((k, d)) => Answer::fail(ans, k, d),
        }
    }
}

impl Runner for R {
    fn step(&mut self, line: &str) -> Answer {
        let t: Vec<&str> = line.split(' ').filter(|s| !s.is_empty()).collect();
        if t.is_empty() {
            return Answer::ok("bad-op");
        }
        if t[0] == "reset" {
            return self.reset(&t);
        }
        let comp = match self.comp {
            Some(c) => c,
            None => return Answer::ok("bad-op"),
        };
        let badge_of = |s: &str| match s {
            "0" => Some(0u64),
            "1" => Some(1),
            "2" => Some(2),
            _ => None,
        };
        let rule_char = |s: &str| match s {
            "A" => Some(0u8),
            "D" => Some(1),
            "B" => Some(2),
            _ => None,
        };
        match t.as_slice() {
            ["script", s] => {
                let steps = match parse_steps(s) {
                    Some(x) => x,
                    None => return Answer::ok("bad-op"),
                };
                let mut addrs: Vec<Addr> = vec![];
                for st in &steps {
                    let a = match st.0 {
                        0 => Addr::F(st.1),
                        1 => Addr::K(st.1),
                        _ => continue,
                    };
                    if !addrs.contains(&a) {
                        addrs.push(a);
                    }
                }
                TRACE.lock().unwrap().clear();
                let b = self.start(0).call_method(comp, "run", &RunInput { steps });
                let receipt = self.exec(b, 0);
                let out = Self::outcome(&receipt);
                let trace = TRACE.lock().unwrap().join(",");
                self.finish(format!("{} [{}]", if out == "ok" { "ok" } else { "fail" }, trace), &addrs, "script")
            }
            ["get", a] => match parse_addr(a) {
                Some(a) => self.finish("ok".into(), &[a], "get"),
                None => Answer::ok("bad-op"),
            },
            ["md", "set", k, v, b] => match (parse_nat(k), parse_nat(v), badge_of(b)) {
                (Some(k), Some(v), Some(bd)) => {
                    let b = self.start(bd).set_metadata(comp, format!("k{}", k), MetadataValue::U64(v));
                    let r = self.exec(b, bd);
                    self.finish(Self::outcome(&r), &[Addr::M(k)], "metadata.set")
                }
                _ => Answer::ok("bad-op"),
            },
            ["md", "lock", k, b] => match (parse_nat(k), badge_of(b)) {
                (Some(k), Some(bd)) => {
                    let b = self.start(bd).lock_metadata(comp, format!("k{}", k));
                    let r = self.exec(b, bd);
                    self.finish(Self::outcome(&r), &[Addr::M(k)], "metadata.lock")
                }
                _ => Answer::ok("bad-op"),
            },
            ["md", "remove", k, b] => match (parse_nat(k), badge_of(b)) {
                (Some(k), Some(bd)) => {
                    let b = self.start(bd).call_metadata_method(comp, METADATA_REMOVE_IDENT, MetadataRemoveInput { key: format!("k{}", k) });
                    let r = self.exec(b, bd);
                    self.finish(Self::outcome(&r), &[Addr::M(k)], "metadata.remove")
                }
                _ => Answer::ok("bad-op"),
            },
            ["roy", "set", m, v, b] => match (parse_nat(m), parse_nat(v), badge_of(b)) {
                (Some(m), Some(v), Some(bd)) if v >= 1 && v <= 100 => {
                    let b = self.start(bd).set_component_royalty(comp, format!("m{}", m), RoyaltyAmount::Xrd(Decimal::from(v)));
                    let r = self.exec(b, bd);
                    self.finish(Self::outcome(&r), &[Addr::Y(m)], "royalty.set")
                }
                _ => Answer::ok("bad-op"),
            },
            ["roy", "lock", m, b] => match (parse_nat(m), badge_of(b)) {
                (Some(m), Some(bd)) => {
                    let b = self.start(bd).lock_component_royalty(comp, format!("m{}", m));
                    let r = self.exec(b, bd);
                    self.finish(Self::outcome(&r), &[Addr::Y(m)], "royalty.lock")
                }
                _ => Answer::ok("bad-op"),
            },
            ["roy", "claim", b] => match badge_of(b) {
                Some(bd) => {
                    let b = self.start(bd).claim_component_royalties(comp).deposit_entire_worktop(self.account);
                    let r = self.exec(b, bd);
                    self.finish(Self::outcome(&r), &[], "royalty.claim")
                }
                _ => Answer::ok("bad-op"),
            },
            ["own", "set", r, b] => match (rule_char(r), badge_of(b)) {
                (Some(rc), Some(bd)) => {
                    let b = self.start(bd).set_owner_role(comp, rule_of(rc, self.badge));
                    let r = self.exec(b, bd);
                    self.finish(Self::outcome(&r), &[Addr::O], "role_assignment.set_owner")
                }
                _ => Answer::ok("bad-op"),
            },
            ["own", "lock", b] => match badge_of(b) {
                Some(bd) => {
                    let b = self.start(bd).lock_owner_role(comp);
                    let r = self.exec(b, bd);
                    self.finish(Self::outcome(&r), &[Addr::O], "role_assignment.lock_owner")
                }
                _ => Answer::ok("bad-op"),
            },
            ["role", "set", k, r, b] => match (parse_nat(k), rule_char(r), badge_of(b)) {
                (Some(k), Some(rc), Some(bd)) => {
                    let b = self.start(bd).set_role(comp, ModuleId::Main, RoleKey::new(format!("r{}", k)), rule_of(rc, self.badge));
                    let r = self.exec(b, bd);
                    self.finish(Self::outcome(&r), &[Addr::R(k)], "role_assignment.set")
                }
                _ => Answer::ok("bad-op"),
            },
            _ => Answer::ok("bad-op"),
        }
    }
}

fn main() {
    main_with(&[("c51", &A)]);
}
