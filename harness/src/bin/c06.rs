//! C06 — fees: op streams on the real `SystemLoanFeeReserve` (area `c06`) and receipt-level fee
//! accounting on the ledger simulator (area `c06e`, see `c06e` module below).
use harness::util::*;
use num_bigint::BigInt;
use num_traits::{Signed, Zero};
use radix_common::prelude::*;
use radix_engine::system::system_modules::costing::*;
use radix_engine::transaction::CostingParameters;
use radix_engine_interface::blueprints::resource::LiquidFungibleResource;
use radix_engine_interface::prelude::*;
use radix_transactions::model::TipSpecifier;
use radix_transactions::prelude::TransactionCostingParameters;
use std::io::Write;
use std::str::FromStr;

pub struct A;

fn dec(s: &str) -> Option<Decimal> {
    // attos, decimal digits with optional leading '-'
    let digits = s.strip_prefix('-').unwrap_or(s);
    if digits.is_empty() || !digits.bytes().all(|b| b.is_ascii_digit()) || digits.len() > 60 {
        return None;
    }
    I192::from_str(s).ok().map(Decimal::from_attos)
}
fn att(d: Decimal) -> String {
    d.attos().to_string()
}
fn big(d: Decimal) -> BigInt {
    BigInt::from_str(&d.attos().to_string()).unwrap()
}

const ONE: u128 = 1_000_000_000_000_000_000;

/// prices: mostly "protocol-like" (multiples of 10^4 attos, so that price × tip has ≤ 18 decimals
/// for every basis-point tip), sometimes arbitrary attos.
fn gen_price(rng: &mut Rng, exact: bool, scale: u128) -> u128 {
    let base = match rng.below(6) {
        0 => 0,
        1 => 50_000_000_000, // 0.00000005
        2 => 1 + rng.below(1000) as u128,
        3 => scale / 1000 * (1 + rng.below(5000) as u128),
        _ => (rng.below(1 << 40) as u128) * (1 + rng.below(1 << 20) as u128) % (scale * 10 + 1),
    };
    if exact {
        base / 10_000 * 10_000
    } else {
        base
    }
}

impl Area for A {
    fn gen(&self, rng: &mut Rng, n: usize, out: &mut dyn Write) {
        for case in 0..n {
            // 1 case in 12 uses arbitrary-atto prices (outside the exactness side condition)
            let exact = case % 12 != 11;
            let protocol = rng.chance(1, 4);
            let (ep, fp, usd, sp, ap) = if protocol {
                (50_000_000_000u128, 50_000_000_000u128, 16_666_666_666_666_666_666u128, 95_367_430_000_000u128, 95_367_430_000_000u128)
            } else {
                (gen_price(rng, exact, ONE / 1000), gen_price(rng, exact, ONE / 1000), gen_price(rng, exact, 20 * ONE), gen_price(rng, exact, ONE / 100), gen_price(rng, exact, ONE / 100))
            };
            let loan = *rng.pick(&[0u64, 1, 10, 100, 1000, 4_000_000]);
            let el = if rng.chance(1, 4) { 100_000_000 } else { rng.below(3000) };
            let fl = if rng.chance(1, 4) { 50_000_000 } else { rng.below(3000) };
            let (tk, tv) = match rng.below(4) {
                0 => ('n', 0u64),
                1 => ('p', *rng.pick(&[0u64, 1, 5, 50, 100, 65535]).min(&(rng.below(65536) | 1).max(1))),
                2 => ('b', rng.below(10001)),
                _ => ('b', *rng.pick(&[1u64, 7, 33, 9999, 10000, 4294967295])),
            };
            let free = if rng.chance(1, 3) { (rng.below(1 << 30) as u128) * (rng.below(1 << 20) as u128 + 1) } else { 0 };
            let abort = if rng.chance(1, 15) { 1 } else { 0 };
            let neg = case % 211 == 210; // `new` assertion
            writeln!(out, "reset {}{} {} {} {} {} {} {} {} {} {} {} {}", if neg { "-" } else { "" }, ep, el, loan, fp, fl, usd, sp, ap, tk, tv, free, abort).unwrap();
            let junk = case % 101 == 100;
            // deferred costs first (only allowed before the transaction properly begins)
            if rng.chance(1, 3) {
                for _ in 0..rng.below(4) {
                    match rng.below(3) {
                        0 => writeln!(out, "dexec {}", if rng.chance(1, 20) { 4294967295 } else { rng.below(200) }).unwrap(),
                        1 => writeln!(out, "dfin {}", if rng.chance(1, 20) { 4294967295 } else { rng.below(200) }).unwrap(),
                        _ => writeln!(out, "dstorage {} {}", if rng.chance(1, 2) { "s" } else { "a" }, if rng.chance(1, 30) { u64::MAX - rng.below(2) } else { rng.below(500) }).unwrap(),
                    }
                }
            }
            // a rough budget so that locks are of the order of what is consumed
            let unit_cost = (ep.max(fp).max(1)) as u128 * (1 + match tk { 'p' => tv as u128 / 100, 'b' => tv as u128 / 10000, _ => 0 });
            let len = 2 + rng.below(40);
            for _ in 0..len {
                if junk && rng.chance(1, 3) {
                    let j = ["exec -1", "exec 4294967296", "lock 1 x 0", "royalty q 1 1", "storage z 1", "finalize 1 2 3", "lock 1 1 2", "exec", "repay now", "dstorage s 18446744073709551616"];
                    writeln!(out, "{}", rng.pick(&j)).unwrap();
                    continue;
                }
                match rng.below(24) {
                    0..=5 => {
                        let cu = match rng.below(8) {
                            0 => 0,
                            1 => loan,
                            2 => loan.saturating_sub(1),
                            3 => el,
                            4 => 4294967295,
                            _ => rng.below(400),
                        };
                        writeln!(out, "exec {}", cu).unwrap();
                    }
                    6..=7 => writeln!(out, "fin {}", if rng.chance(1, 8) { fl } else { rng.below(300) }).unwrap(),
                    8..=9 => writeln!(out, "storage {} {}", if rng.chance(1, 2) { "s" } else { "a" }, if rng.chance(1, 40) { u64::MAX } else { rng.below(2000) }).unwrap(),
                    10..=11 => {
                        let k = *rng.pick(&['f', 'x', 'x', 'u', 'u']);
                        let a: i128 = match rng.below(10) {
                            0 => 0,
                            1 => -(rng.below(100) as i128) - 1,
                            _ => (rng.below(1 << 30) as i128) * (rng.below(1 << 12) as i128 + 1),
                        };
                        writeln!(out, "royalty {} {} {}", k, a, rng.below(3)).unwrap();
                    }
                    12..=17 => {
                        // lock: around the cost of a few hundred units, sometimes exactly the shortfall scale, sometimes huge
                        let a: String = match rng.below(10) {
                            0 => "0".to_string(),
                            1 => "3138550867693340381917894711603833208051177722232017256447".to_string(), // Decimal::MAX
                            2 => (unit_cost * (loan as u128 + rng.below(50) as u128)).to_string(),
                            3 => (rng.below(1000) as u128).to_string(),
                            _ => (unit_cost * (rng.below(3000) as u128) + rng.below(1 << 20) as u128).to_string(),
                        };
                        writeln!(out, "lock {} {} {}", rng.below(4), a, if rng.chance(1, 4) { 1 } else { 0 }).unwrap();
                    }
                    18..=19 => writeln!(out, "repay").unwrap(),
                    20 => writeln!(out, "revert").unwrap(),
                    _ => writeln!(out, "finalize 100 0 25 25").unwrap(),
                }
            }
            if rng.chance(3, 4) {
                writeln!(out, "repay").unwrap();
            }
            // real share percentages most of the time, arbitrary ones otherwise
            if rng.chance(3, 4) {
                writeln!(out, "finalize 100 0 25 25").unwrap();
            } else {
                let a = rng.below(101);
                let c = rng.below(101);
                writeln!(out, "finalize {} {} {} {}", a, rng.below(101 - a), c, rng.below(101 - c)).unwrap();
            }
        }
    }

    fn runner(&self) -> Box<dyn Runner> {
        Box::new(R { r: None, inexact: false, exec_limit: 0, fin_limit: 0, free: Decimal::ZERO, nonneg_locks: true })
    }

    fn consts(&self) -> Vec<(String, String)> {
        let c = CostingParameters::babylon_genesis();
        let l = CostingParameters::latest();
        assert_eq!(c, l);
        let mut v: Vec<(String, String)> = vec![];
        let mut int = |k: &str, x: String| v.push((k.to_string(), format!("{}\tint", x)));
        int("EXECUTION_COST_UNIT_PRICE", att(c.execution_cost_unit_price));
        int("FINALIZATION_COST_UNIT_PRICE", att(c.finalization_cost_unit_price));
        int("USD_PRICE", att(c.usd_price));
        int("STATE_STORAGE_PRICE", att(c.state_storage_price));
        int("ARCHIVE_STORAGE_PRICE", att(c.archive_storage_price));
        int("DECIMAL_ONE", att(Decimal::ONE));
        int("DECIMAL_MAX", att(Decimal::MAX));
        int("DECIMAL_MIN", att(Decimal::MIN));
        int("PROPORTION_OF_1_PERCENT", att(TipSpecifier::Percentage(1).proportion()));
        int("PROPORTION_OF_1_BASIS_POINT", att(TipSpecifier::BasisPoints(1).proportion()));
        int("MULTIPLIER_OF_NO_TIP", att(TipSpecifier::None.fee_multiplier()));
        let mut nat = |k: &str, x: u64| v.push((k.to_string(), x.to_string()));
        nat("EXECUTION_COST_UNIT_LIMIT", c.execution_cost_unit_limit as u64);
        nat("EXECUTION_COST_UNIT_LOAN", c.execution_cost_unit_loan as u64);
        nat("FINALIZATION_COST_UNIT_LIMIT", c.finalization_cost_unit_limit as u64);
        nat("TIPS_PROPOSER_SHARE_PERCENTAGE", TIPS_PROPOSER_SHARE_PERCENTAGE as u64);
        nat("TIPS_VALIDATOR_SET_SHARE_PERCENTAGE", TIPS_VALIDATOR_SET_SHARE_PERCENTAGE as u64);
        nat("NETWORK_FEES_PROPOSER_SHARE_PERCENTAGE", NETWORK_FEES_PROPOSER_SHARE_PERCENTAGE as u64);
        nat("NETWORK_FEES_VALIDATOR_SET_SHARE_PERCENTAGE", NETWORK_FEES_VALIDATOR_SET_SHARE_PERCENTAGE as u64);
        nat("MAX_TIP_PERCENTAGE", u16::MAX as u64);
        nat("MAX_TIP_BASIS_POINTS", u32::MAX as u64);
        v
    }
}

struct R {
    r: Option<SystemLoanFeeReserve>,
    inexact: bool,
    exec_limit: u32,
    fin_limit: u32,
    free: Decimal,
    nonneg_locks: bool,
}

fn pu32(s: &str) -> Option<u32> {
    if s.is_empty() || !s.bytes().all(|b| b.is_ascii_digit()) {
        return None;
    }
    s.parse::<u32>().ok()
}
fn pusize(s: &str) -> Option<usize> {
    if s.is_empty() || !s.bytes().all(|b| b.is_ascii_digit()) {
        return None;
    }
    s.parse::<u64>().ok().map(|x| x as usize)
}
fn pu8(s: &str) -> Option<u8> {
    pu32(s).and_then(|x| u8::try_from(x).ok())
}
fn pb(s: &str) -> Option<bool> {
    match s {
        "1" => Some(true),
        "0" => Some(false),
        _ => None,
    }
}
fn vault(i: u8) -> NodeId {
    let mut b = [0u8; NodeId::LENGTH];
    b[0] = EntityType::InternalFungibleVault as u8;
    b[1] = i;
    NodeId(b)
}
fn vault_idx(n: &NodeId) -> u8 {
    n.0[1]
}

fn show_err(e: &FeeReserveError) -> String {
    match e {
        FeeReserveError::InsufficientBalance { required, remaining } => format!("err insufficient {} {}", att(*required), att(*remaining)),
        FeeReserveError::Overflow => "err overflow".to_string(),
        FeeReserveError::LimitExceeded { limit, committed, new } => format!("err limit {} {} {}", limit, committed, new),
        FeeReserveError::LoanRepaymentFailed { xrd_owed } => format!("err loan {}", att(*xrd_owed)),
        FeeReserveError::Abort(_) => "err abort".to_string(),
    }
}

impl R {
    /// run a mutating method under `catch`; a panic kills the reserve (answers `dead` until reset)
    fn mutate(&mut self, f: impl FnOnce(&mut SystemLoanFeeReserve) -> Result<(), FeeReserveError>) -> Answer {
        let Some(r) = self.r.as_mut() else { return Answer::ok("dead") };
        match catch(|| f(r)) {
            Err(_) => {
                self.r = None;
                Answer::ok("panic")
            }
            Ok(res) => {
                let r = self.r.as_ref().unwrap();
                let ans = format!("{} {} {}", match &res { Ok(()) => "ok".to_string(), Err(e) => show_err(e) }, att(r.fee_balance()), r.fully_repaid());
                // oracle: the running balance never goes negative (a negative balance would mean cost was taken that nobody pays)
                if self.nonneg_locks && r.fee_balance().is_negative() {
                    return Answer::fail(ans, "c06-negative-fee-balance", "fee balance negative");
                }
                Answer::ok(ans)
            }
        }
    }
}

impl Runner for R {
    fn step(&mut self, line: &str) -> Answer {
        let t: Vec<&str> = line.split(' ').filter(|s| !s.is_empty()).collect();
        if t.is_empty() {
            return Answer::ok("bad-op");
        }
        match (t[0], t.len()) {
            ("reset", 13) => {
                let (Some(ep), Some(el), Some(eo), Some(fp), Some(fl), Some(usd), Some(sp), Some(ap)) = (dec(t[1]), pu32(t[2]), pu32(t[3]), dec(t[4]), pu32(t[5]), dec(t[6]), dec(t[7]), dec(t[8])) else { return Answer::ok("bad-op") };
                let tip = match (t[9], t[10]) {
                    ("n", "0") => TipSpecifier::None,
                    ("p", v) => match pu32(v).and_then(|x| u16::try_from(x).ok()) {
                        Some(p) => TipSpecifier::Percentage(p),
                        None => return Answer::ok("bad-op"),
                    },
                    ("b", v) => match pu32(v) {
                        Some(b) => TipSpecifier::BasisPoints(b),
                        None => return Answer::ok("bad-op"),
                    },
                    _ => return Answer::ok("bad-op"),
                };
                let (Some(free), Some(ab)) = (dec(t[11]), pb(t[12])) else { return Answer::ok("bad-op") };
                let cp = CostingParameters {
                    execution_cost_unit_price: ep,
                    execution_cost_unit_limit: el,
                    execution_cost_unit_loan: eo,
                    finalization_cost_unit_price: fp,
                    finalization_cost_unit_limit: fl,
                    usd_price: usd,
                    state_storage_price: sp,
                    archive_storage_price: ap,
                };
                let ten4 = BigInt::from(10_000);
                self.inexact = !(big(ep) % &ten4).is_zero() || !(big(fp) % &ten4).is_zero();
                self.exec_limit = el;
                self.fin_limit = fl;
                self.free = free;
                self.nonneg_locks = true;
                match catch(|| SystemLoanFeeReserve::new(cp, TransactionCostingParameters { tip, free_credit_in_xrd: free }, ab)) {
                    Ok(r) => {
                        let ans = format!("ok {} {}", att(r.fee_balance()), r.fully_repaid());
                        self.r = Some(r);
                        Answer::ok(ans)
                    }
                    Err(_) => {
                        self.r = None;
                        Answer::ok("panic")
                    }
                }
            }
            ("exec", 2) => match pu32(t[1]) {
                Some(cu) => self.mutate(|r| r.consume_execution(cu)),
                None => Answer::ok("bad-op"),
            },
            ("fin", 2) => match pu32(t[1]) {
                Some(cu) => self.mutate(|r| r.consume_finalization(cu)),
                None => Answer::ok("bad-op"),
            },
            ("storage", 3) | ("dstorage", 3) => {
                let st = match t[1] {
                    "s" => StorageType::State,
                    "a" => StorageType::Archive,
                    _ => return Answer::ok("bad-op"),
                };
                let Some(sz) = pusize(t[2]) else { return Answer::ok("bad-op") };
                if t[0] == "storage" {
                    self.mutate(|r| r.consume_storage(st, sz))
                } else {
                    self.mutate(|r| r.consume_deferred_storage(st, sz))
                }
            }
            ("dexec", 2) => match pu32(t[1]) {
                Some(cu) => self.mutate(|r| r.consume_deferred_execution(cu)),
                None => Answer::ok("bad-op"),
            },
            ("dfin", 2) => match pu32(t[1]) {
                Some(cu) => self.mutate(|r| r.consume_deferred_finalization(cu)),
                None => Answer::ok("bad-op"),
            },
            ("royalty", 4) => {
                let (Some(a), Some(rcp)) = (dec(t[2]), pu8(t[3])) else { return Answer::ok("bad-op") };
                let ra = match t[1] {
                    "f" => RoyaltyAmount::Free,
                    "x" => RoyaltyAmount::Xrd(a),
                    "u" => RoyaltyAmount::Usd(a),
                    _ => return Answer::ok("bad-op"),
                };
                if rcp > 99 { return Answer::ok("bad-op"); }
                let recipient = RoyaltyRecipient::Package(PACKAGE_PACKAGE, vault(100 + rcp));
                self.mutate(|r| r.consume_royalty(ra, recipient))
            }
            ("lock", 4) => {
                let (Some(v), Some(a), Some(c)) = (pu8(t[1]), dec(t[2]), pb(t[3])) else { return Answer::ok("bad-op") };
                if a.is_negative() {
                    self.nonneg_locks = false; // outside the property's domain (vaults never lock negative amounts)
                }
                self.mutate(|r| {
                    r.lock_fee(vault(v), LiquidFungibleResource::new(a), c);
                    Ok(())
                })
            }
            ("repay", 1) => self.mutate(|r| r.repay_all()),
            ("revert", 1) => self.mutate(|r| {
                r.revert_royalty();
                Ok(())
            }),
            ("finalize", 5) => {
                let (Some(a), Some(b), Some(c), Some(d)) = (pu8(t[1]), pu8(t[2]), pu8(t[3]), pu8(t[4])) else { return Answer::ok("bad-op") };
                let Some(r) = self.r.as_ref() else { return Answer::ok("dead") };
                let repaid = r.fully_repaid();
                let rc = r.clone();
                let Ok((s, _, txp)) = catch(|| rc.finalize()) else { return Answer::ok("panic") };
                let real_shares = (a, b, c, d) == (TIPS_PROPOSER_SHARE_PERCENTAGE, TIPS_VALIDATOR_SET_SHARE_PERCENTAGE, NETWORK_FEES_PROPOSER_SHARE_PERCENTAGE, NETWORK_FEES_VALIDATOR_SET_SHARE_PERCENTAGE);
                let sh = |x: Result<Decimal, String>| x.map(att).unwrap_or("panic".to_string());
                let total = catch(|| s.total_cost());
                let nf = catch(|| s.network_fees());
                // the summary methods use the compiled-in share constants; with other percentages the
                // same formula is evaluated with the real Decimal arithmetic
                let share = |pt: u8, pf: u8| -> Result<Decimal, String> {
                    catch(|| {
                        let one_percent = Decimal::ONE_HUNDREDTH;
                        s.total_tipping_cost_in_xrd
                            .checked_mul(one_percent.checked_mul(pt).unwrap())
                            .unwrap()
                            .checked_add(s.network_fees().checked_mul(one_percent.checked_mul(pf).unwrap()).unwrap())
                            .unwrap()
                    })
                };
                let (prop, val, burn) = if real_shares {
                    (catch(|| s.to_proposer_amount()), catch(|| s.to_validator_set_amount()), catch(|| s.to_burn_amount()))
                } else {
                    let p = share(a, c);
                    let v = share(b, d);
                    let bn = match (&p, &v) {
                        (Ok(p), Ok(v)) => catch(|| s.total_tipping_cost_in_xrd.checked_add(s.network_fees()).unwrap().checked_sub(*p).unwrap().checked_sub(*v).unwrap()),
                        _ => Err("panic".to_string()),
                    };
                    (p, v, bn)
                };
                let locks = if s.locked_fees.is_empty() { "-".to_string() } else { s.locked_fees.iter().map(|(n, l, c)| format!("{}:{}:{}", vault_idx(n), att(l.amount()), if *c { 1 } else { 0 })).collect::<Vec<_>>().join(",") };
                let roys = if s.royalty_cost_breakdown.is_empty() { "-".to_string() } else { s.royalty_cost_breakdown.iter().map(|(r, a)| format!("{}:{}", vault_idx(&r.vault_id()) - 100, att(*a))).collect::<Vec<_>>().join(",") };
                let ans = format!(
                    "sum {} {} {} {} {} {} {} {} {} {} total {} nf {} split {} {} {}",
                    s.total_execution_cost_units_consumed,
                    s.total_finalization_cost_units_consumed,
                    att(s.total_execution_cost_in_xrd),
                    att(s.total_finalization_cost_in_xrd),
                    att(s.total_tipping_cost_in_xrd),
                    att(s.total_storage_cost_in_xrd),
                    att(s.total_royalty_cost_in_xrd),
                    att(s.total_bad_debt_in_xrd),
                    locks,
                    roys,
                    sh(total.clone()),
                    sh(nf.clone()),
                    sh(prop.clone()),
                    sh(val.clone()),
                    sh(burn.clone())
                );
                // ------------------------------------------------------------------ property oracle
                // (independent of the Lean model; exact integer arithmetic on attos)
                let cls = if self.inexact { "-inexact-price" } else { "" };
                if s.total_execution_cost_units_consumed > self.exec_limit || s.total_finalization_cost_units_consumed > self.fin_limit {
                    return Answer::fail(ans, "c06-cost-unit-limit-exceeded", "committed cost units above the limit");
                }
                let roy_sum: BigInt = s.royalty_cost_breakdown.values().map(|d| big(*d)).sum();
                if roy_sum != big(s.total_royalty_cost_in_xrd) {
                    return Answer::fail(ans, "c06-royalty-breakdown-sum", "royalty breakdown does not add up to the royalty cost");
                }
                if repaid != s.total_bad_debt_in_xrd.is_zero() {
                    return Answer::fail(ans, "c06-bad-debt-vs-fully-repaid", "fully_repaid() disagrees with bad debt");
                }
                if repaid && self.nonneg_locks {
                    // this reserve state is eligible for commit: replay the collection of
                    // `finalize_fees_for_commit` for both outcomes
                    let (Ok(total), Ok(nf)) = (&total, &nf) else { return Answer::fail(ans, "c06-summary-arithmetic-panics", "total_cost()/network_fees() panic on a repaid reserve") };
                    let total_b = big(*total);
                    for success in [true, false] {
                        let mut required = total_b.clone();
                        for (_, l, contingent) in s.locked_fees.iter().rev() {
                            let la = big(l.amount());
                            let amount = if *contingent && !success { BigInt::zero() } else { la.clone().min(required.clone()) };
                            if amount.is_negative() || amount > la {
                                return Answer::fail(ans, "c06-payment-exceeds-lock", "a vault would pay more than it locked");
                            }
                            required -= amount;
                        }
                        let fc = big(txp.free_credit_in_xrd);
                        if fc.is_positive() {
                            required -= fc.min(required.clone());
                        }
                        // Outside the exactness side condition (unit prices that are not multiples of 10^4
                        // attos — never the case for protocol parameters, see Props/C06 exact_holds_for_protocol_params)
                        // the reported tip may exceed the charged one (Props/C06 inexact_counterexample); that
                        // class is documented, not searched: the coverage check is restricted to exact prices.
                        if !required.is_zero() && !self.inexact {
                            return Answer::fail(
                                ans,
                                format!("c06-locked-fees-do-not-cover-total-cost{}", cls),
                                format!("repaid reserve, success={}: reported total cost {} exceeds what locks + free credit can pay by {} attos (executor assertion `required == 0` would fail)", success, total_b, required),
                            );
                        }
                    }
                    let (Ok(p), Ok(v), Ok(bn)) = (&prop, &val, &burn) else { return Answer::fail(ans, "c06-distribution-arithmetic-panics", "proposer/validator/burn computation panics") };
                    let tips_and_fees = big(s.total_tipping_cost_in_xrd) + big(*nf);
                    if big(*p) + big(*v) + big(*bn) != tips_and_fees || big(*p).is_negative() || big(*v).is_negative() || (big(*bn).is_negative() && a as u32 + b as u32 <= 100 && c as u32 + d as u32 <= 100) {
                        return Answer::fail(ans, "c06-distribution-not-exact", format!("proposer {} + validators {} + burn {} vs tips+fees {}", p, v, bn, tips_and_fees));
                    }
                    if total_b != tips_and_fees + big(s.total_royalty_cost_in_xrd) {
                        return Answer::fail(ans, "c06-total-cost-components", "total cost is not tips + network fees + royalties");
                    }
                }
                Answer::ok(ans)
            }
            _ => Answer::ok("bad-op"),
        }
    }
}

// =====================================================================================
// Area `c06e` (engine level, oracle only): real transactions on the LedgerSimulator with tips in
// both forms, contingent locks, failing manifests and fee locks at total_cost-1 / total_cost /
// total_cost+1; the receipt's fee_summary / fee_source / fee_destination / events are reconciled
// with exact integer arithmetic.
// =====================================================================================
mod e {
    use super::*;
    use radix_engine::transaction::*;
    use radix_transactions::prelude::*;
    use scrypto_test::prelude::{LedgerSimulator, LedgerSimulatorBuilder, LedgerSimulatorSnapshot, NoExtension};
    use radix_substate_store_impls::memory_db::InMemorySubstateDatabase;
    use radix_engine::blueprints::resource::fungible_vault::{DepositEvent, PayFeeEvent};
    use radix_engine::blueprints::resource::BurnFungibleResourceEvent;

    pub struct E;
    type Sim = LedgerSimulator<NoExtension, InMemorySubstateDatabase>;

    impl Area for E {
        fn gen(&self, rng: &mut Rng, n: usize, out: &mut dyn Write) {
            for _ in 0..n {
                let (tk, tv) = match rng.below(5) {
                    0 => ('n', 0u64),
                    1 => ('p', *rng.pick(&[1u64, 5, 10, 50, 100, 1000, 65535])),
                    2 => ('b', *rng.pick(&[1u64, 7, 33, 9999, 10000, 1000000])),
                    3 => ('p', rng.below(65536)),
                    _ => ('b', rng.below(1_000_001)),
                };
                // scenario: 0 transfer, 1 transfer that fails at the end, 2 two locks, 3 non-contingent + contingent, 4 contingent + failure
                let sc = rng.below(5);
                // how the first lock is sized relative to the measured total cost: -2 tiny, -1 T-1, 0 T, 1 T+1, 2 generous
                let rel: i64 = *rng.pick(&[-2i64, -1, -1, 0, 0, 0, 1, 1, 2, 2]);
                let free = if rng.chance(1, 6) { rng.below(3) * 1_000_000_000_000_000_000 + rng.below(1000) } else { 0 };
                writeln!(out, "tx {} {} {} {} {} {}", sc, tk, tv, rel, rng.below(1000), free).unwrap();
            }
            writeln!(out, "tx 9 n 0 0 0 0").unwrap();
            writeln!(out, "tx 0 p 70000 0 0 0").unwrap();
            writeln!(out, "frob").unwrap();
        }
        fn runner(&self) -> Box<dyn Runner> {
            Box::new(RE { w: None })
        }
    }

    struct World {
        sim: Sim,
        snap: LedgerSimulatorSnapshot,
        a: ComponentAddress,
        b: ComponentAddress,
        pa: NonFungibleGlobalId,
        pb: NonFungibleGlobalId,
        va: NodeId,
        vb: NodeId,
    }
    struct RE {
        w: Option<World>,
    }

    fn world() -> World {
        let mut sim = LedgerSimulatorBuilder::new().without_kernel_trace().build();
        let (pk_a, _, a) = sim.new_allocated_account();
        let (pk_b, _, b) = sim.new_allocated_account();
        let va = sim.get_component_vaults(a, XRD)[0];
        let vb = sim.get_component_vaults(b, XRD)[0];
        let snap = sim.create_snapshot();
        World { sim, snap, a, b, pa: NonFungibleGlobalId::from_public_key(&pk_a), pb: NonFungibleGlobalId::from_public_key(&pk_b), va, vb }
    }

    fn manifest(w: &World, sc: u64, fa: Decimal, fb: Decimal) -> TransactionManifestV1 {
        let mb = ManifestBuilder::new();
        match sc {
            0 => mb.lock_fee(w.a, fa).withdraw_from_account(w.a, XRD, dec!(1)).try_deposit_entire_worktop_or_abort(w.b, None).build(),
            1 => mb.lock_fee(w.a, fa).withdraw_from_account(w.a, XRD, dec!(1)).assert_worktop_contains(XRD, dec!(2)).try_deposit_entire_worktop_or_abort(w.b, None).build(),
            2 => mb.lock_fee(w.a, fa).lock_fee(w.b, fb).withdraw_from_account(w.a, XRD, dec!(1)).try_deposit_entire_worktop_or_abort(w.b, None).build(),
            3 => mb.lock_fee(w.a, fa).lock_contingent_fee(w.b, fb).withdraw_from_account(w.a, XRD, dec!(1)).try_deposit_entire_worktop_or_abort(w.b, None).build(),
            _ => mb.lock_contingent_fee(w.b, fb).lock_fee(w.a, fa).withdraw_from_account(w.a, XRD, dec!(1)).assert_worktop_contains(XRD, dec!(2)).try_deposit_entire_worktop_or_abort(w.b, None).build(),
        }
    }

    fn run(w: &mut World, m: TransactionManifestV1, tip: TipSpecifier, free: Decimal, cp: Option<CostingParameters>) -> Result<TransactionReceipt, String> {
        let nonce = w.sim.next_transaction_nonce();
        let proofs: BTreeSet<NonFungibleGlobalId> = [w.pa.clone(), w.pb.clone()].into_iter().collect();
        let e = TestTransaction::new_v1_from_nonce(m, nonce, proofs).into_executable(w.sim.transaction_validator()).map_err(|e| format!("{:?}", e))?;
        let ctx = ExecutionContext {
            unique_hash: *e.unique_hash(),
            pre_allocated_addresses: e.pre_allocated_addresses().to_vec(),
            payload_size: e.payload_size(),
            num_of_signature_validations: e.num_of_signature_validations(),
            costing_parameters: TransactionCostingParameters { tip, free_credit_in_xrd: free },
            epoch_range: e.overall_epoch_range().cloned(),
            proposer_timestamp_range: e.overall_proposer_timestamp_range().cloned(),
            disable_limits_and_costing_modules: e.disable_limits_and_costing_modules(),
            intent_hash_nullifications: e.intent_hash_nullifications().to_vec(),
        };
        let e2 = ExecutableTransaction::new_v2(e.transaction_intent().clone(), e.subintents().to_vec(), ctx);
        let sim = &mut w.sim;
        let mut cfg = ExecutionConfig::for_notarized_transaction(NetworkDefinition::simulator());
        if cp.is_some() {
            cfg.system_overrides = Some(SystemOverrides { costing_parameters: cp, ..cfg.system_overrides.unwrap_or_default() });
        }
        catch(move || sim.execute_transaction(e2, cfg))
    }

    impl Runner for RE {
        fn step(&mut self, line: &str) -> Answer {
            let t: Vec<&str> = line.split(' ').filter(|s| !s.is_empty()).collect();
            // `txi … <execution price in attos>`: same as `tx` with the execution/finalization unit price
            // overridden through SystemOverrides (used by stored replays only, never generated)
            let cp_override: Option<CostingParameters> = if t.len() == 8 && t[0] == "txi" {
                match dec(t[7]) {
                    Some(p) if !p.is_negative() => {
                        let mut c = CostingParameters::babylon_genesis();
                        c.execution_cost_unit_price = p;
                        c.finalization_cost_unit_price = p;
                        Some(c)
                    }
                    _ => return Answer::ok("bad-op"),
                }
            } else if t.len() == 7 && t[0] == "tx" {
                None
            } else {
                return Answer::ok("bad-op");
            };
            let pkey = if cp_override.is_some() { "c06e-executor-panic-overridden-costing-parameters" } else { "c06e-executor-panic" };
            let (Some(sc), Some(tv), Ok(rel), Some(fbx), Some(free)) = (pu32(t[1]), pu32(t[3]), t[4].parse::<i64>(), pu32(t[5]), dec(t[6])) else { return Answer::ok("bad-op") };
            let tip = match t[2] {
                "n" => TipSpecifier::None,
                "p" => match u16::try_from(tv) {
                    Ok(p) => TipSpecifier::Percentage(p),
                    Err(_) => return Answer::ok("bad-op"),
                },
                "b" => TipSpecifier::BasisPoints(tv),
                _ => return Answer::ok("bad-op"),
            };
            if sc > 4 || free.is_negative() {
                return Answer::ok("bad-op");
            }
            if self.w.is_none() {
                self.w = Some(world());
            }
            let w = self.w.as_mut().unwrap();
            let snap = w.snap.clone();
            w.sim.restore_snapshot(snap);
            let fb = Decimal::from(1u32) + Decimal::from_attos(I192::from(fbx as u64) * I192::from(1_000_000_000_000_000u64));
            // pass 1: measure the total cost with generous locks (cost units do not depend on the locked amounts)
            let m1 = manifest(w, sc as u64, dec!(5000), fb);
            let r1 = match run(w, m1, tip, Decimal::ZERO, cp_override) {
                Ok(r) => r,
                Err(p) => return Answer::fail("panic", pkey, format!("pass 1 panicked: {}", p)),
            };
            if r1.is_rejection() || matches!(r1.result, TransactionResult::Abort(_)) {
                return Answer::fail("probe-not-committed", "c06e-probe-rejected", "a generously funded transaction was not committed".to_string());
            }
            let total1 = r1.fee_summary.total_cost();
            let snap = w.snap.clone();
            w.sim.restore_snapshot(snap);
            // pass 2: first lock sized relative to the measured cost (what other locks / free credit may contribute is subtracted)
            let success1 = r1.is_commit_success();
            let others = if sc == 2 || (sc == 3 && success1) { fb } else { Decimal::ZERO };
            let need = total1.checked_sub(others).unwrap().checked_sub(free).unwrap();
            let fa = match rel {
                -2 => Decimal::from_attos(I192::from(1000u32)),
                -1 => need.checked_sub(Decimal::from_attos(I192::ONE)).unwrap(),
                0 => need,
                1 => need.checked_add(Decimal::from_attos(I192::ONE)).unwrap(),
                _ => need.checked_add(dec!(3)).unwrap(),
            };
            let fa = if fa.is_negative() { Decimal::ZERO } else { fa };
            let m2 = manifest(w, sc as u64, fa, fb);
            let r = match run(w, m2, tip, free, cp_override) {
                Ok(r) => r,
                Err(p) => {
                    self.w = None;
                    return Answer::fail("panic", pkey, format!("executor panicked: {}", p));
                }
            };
            // ---------------------------------------------------------------- oracle
            let fs = &r.fee_summary;
            let total = big(fs.total_cost());
            let cp = &r.costing_parameters;
            if fs.total_execution_cost_units_consumed > cp.execution_cost_unit_limit || fs.total_finalization_cost_units_consumed > cp.finalization_cost_unit_limit {
                return Answer::fail("limit", "c06e-cost-unit-limit-exceeded", "cost units above limit in a receipt");
            }
            // the tip is exactly (execution + finalization) * proportion for protocol prices
            let prop = big(tip.proportion());
            let one = BigInt::from(ONE);
            let exp_tip = (big(fs.total_execution_cost_in_xrd) * &prop) / &one + (big(fs.total_finalization_cost_in_xrd) * &prop) / &one;
            if exp_tip != big(fs.total_tipping_cost_in_xrd) && cp_override.is_none() {
                return Answer::fail("tip", "c06e-tip-mismatch", format!("tipping cost {} expected {}", fs.total_tipping_cost_in_xrd, exp_tip));
            }
            match &r.result {
                TransactionResult::Commit(c) => {
                    let success = matches!(c.outcome, TransactionOutcome::Success(_));
                    let paid: BigInt = c.fee_source.paying_vaults.values().map(|d| big(*d)).sum();
                    let free_used = &total - &paid;
                    if free_used.is_negative() || free_used > big(free) {
                        return Answer::fail("commit", "c06e-collected-not-total-cost", format!("vaults paid {} + free credit (max {}) vs total cost {}", paid, free, total));
                    }
                    // free credit is used last: it may only be used when every eligible lock is exhausted
                    let lock_of = |v: &NodeId| -> (BigInt, bool) {
                        if *v == w.va { (big(fa), false) } else if *v == w.vb { (big(fb), sc >= 3) } else { (BigInt::zero(), false) }
                    };
                    for (v, amt) in &c.fee_source.paying_vaults {
                        let (locked, contingent) = lock_of(v);
                        if big(*amt).is_negative() || big(*amt) > locked {
                            return Answer::fail("commit", "c06e-payment-exceeds-lock", format!("vault pays {} but locked {}", amt, locked));
                        }
                        if contingent && !success && !amt.is_zero() {
                            return Answer::fail("commit", "c06e-contingent-paid-on-failure", format!("contingent lock paid {} on failure", amt));
                        }
                        if free_used.is_positive() && !(contingent && !success) && big(*amt) != locked {
                            return Answer::fail("commit", "c06e-free-credit-not-last", "free credit used although a lock was not exhausted");
                        }
                    }
                    let d = &c.fee_destination;
                    let roy: BigInt = d.to_royalty_recipients.values().map(|x| big(*x)).sum();
                    if big(d.to_proposer) + big(d.to_validator_set) + big(d.to_burn) + &roy != total || roy != big(fs.total_royalty_cost_in_xrd) {
                        return Answer::fail("commit", "c06e-distribution-not-exact", format!("proposer {} validators {} burn {} royalties {} vs total {}", d.to_proposer, d.to_validator_set, d.to_burn, roy, total));
                    }
                    if d.to_proposer.is_negative() || d.to_validator_set.is_negative() || d.to_burn.is_negative() {
                        return Answer::fail("commit", "c06e-negative-share", "negative share");
                    }
                    // events
                    let mut pay_ev = BigInt::zero();
                    let mut burn_ev = BigInt::zero();
                    let mut last_deposit = BigInt::zero();
                    for (id, data) in &c.application_events {
                        if id.1 == "PayFeeEvent" {
                            pay_ev += big(scrypto_decode::<PayFeeEvent>(data).unwrap().amount);
                        } else if id.1 == "BurnFungibleResourceEvent" {
                            if let Emitter::Method(n, _) = &id.0 {
                                if *n == XRD.into_node_id() {
                                    burn_ev += big(scrypto_decode::<BurnFungibleResourceEvent>(data).unwrap().amount);
                                }
                            }
                        } else if id.1 == "DepositEvent" {
                            if let Ok(e) = scrypto_decode::<DepositEvent>(data) {
                                last_deposit = big(e.amount);
                            }
                        }
                    }
                    if pay_ev != paid {
                        return Answer::fail("commit", "c06e-payfee-events", format!("PayFee events {} vs paying vaults {}", pay_ev, paid));
                    }
                    if burn_ev != big(d.to_burn) {
                        return Answer::fail("commit", "c06e-burn-event", format!("Burn events {} vs to_burn {}", burn_ev, d.to_burn));
                    }
                    let rewards = big(d.to_proposer) + big(d.to_validator_set);
                    if rewards.is_positive() && last_deposit != rewards {
                        return Answer::fail("commit", "c06e-rewards-deposit-event", format!("rewards vault deposit {} vs proposer+validators {}", last_deposit, rewards));
                    }
                    // a commit needs the non-contingent locks + free credit to cover the cost (loan repaid)
                    let nc: BigInt = big(fa) + if sc == 2 { big(fb) } else { BigInt::zero() } + big(free);
                    let cont: BigInt = if sc >= 3 && success { big(fb) } else { BigInt::zero() };
                    if &nc + &cont < total {
                        return Answer::fail("commit", "c06e-committed-without-cover", format!("committed with locks {} + contingent {} < total cost {}", nc, cont, total));
                    }
                    Answer::ok(format!("commit {} rel={} free_used={}", if success { "success" } else { "failure" }, rel, if free_used.is_zero() { "0" } else { "+" }))
                }
                TransactionResult::Reject(_) => {
                    // rejected: what was locked (non-contingent) + free credit must indeed be short of the cost measured in pass 1
                    let nc: BigInt = big(fa) + if sc == 2 { big(fb) } else { BigInt::zero() } + big(free);
                    if rel >= 0 && nc >= big(total1) {
                        return Answer::fail("reject", "c06e-rejected-although-covered", format!("rejected although locks+credit {} cover the measured cost {}", nc, total1));
                    }
                    Answer::ok(format!("reject rel={}", rel))
                }
                TransactionResult::Abort(_) => Answer::ok("abort"),
            }
        }
    }
}

fn main() {
    main_with(&[("c06", &A), ("c06e", &e::E)]);
}
