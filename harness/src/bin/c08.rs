//! C08 — protected calls succeed exactly when the access rule is satisfied.
//!   area `c08`: engine level, one real transaction per line on the repo's `LedgerSimulator`
//!   (executed without commit, so every line sees the same ledger state).
//!
//! Line (stateless, words separated by one blank):
//!   chk <path> <rule> nf <k> <res>:<id>*k sim <k> <res>*k ops <k> <op>*k
//!     path  mint    manifest calls `mint` on a resource whose `minter` role is <rule>        (role list, explicit role)
//!           owner   manifest calls `set_metadata` on that resource; `metadata_setter` has no
//!                   entry, so the owner role (= <rule>) decides                               (owner fallback)
//!           vp      a subintent executes VERIFY_PARENT <rule> against the root intent         (explicit assertion)
//!           assert  manifest calls a Scrypto component that runs `Runtime::assert_access_rule(<rule>)`
//!           vault   manifest calls `account.withdraw`, whose vault `take` is protected by the
//!                   resource's `withdrawer` role (= <rule>); the vault's auth zone has a parent
//!                   (the account frame) and a *copied* global caller
//!           self    manifest calls `role_assignment.set(securify, …)` on an account: role list
//!                   [SELF] = require(global_caller(that account)); <rule> is ignored (must be `A`)
//!           acct    manifest calls an OWNER-protected method of an account created with
//!                   owner role <rule> (`_owner_` key without entry → owner fallback)
//!           pool    manifest calls `contribute` on a one-resource pool whose `pool_manager` role is
//!                   <rule>; inside, the pool mints pool units, which the unit resource allows to
//!                   require(global_caller(pool)) only — a global component as global caller
//!           poolmint manifest calls `mint` on the pool-unit resource of a fixed pool directly:
//!                   require(global_caller(pool 6)); <rule> is ignored (must be `A`)
//!     rule  Polish notation: A | D | P <comp>;  comp = b <basic> | any <n> comp*n | all <n> comp*n
//!           basic = req <ron> | amt <attos> <res> | cnt <n> <k> ron*k | allof <k> ron*k | anyof <k> ron*k
//!           ron = R<res> | N<res>:<id>
//!     nf    initial implicit non-fungible proofs of the (root) intent (`AuthZoneInit`)
//!     sim   `simulate_every_proof_under_resources` of the (root) intent
//!     ops   manifest instructions before the protected call:
//!           F<res>:<attos> create_proof_from_account_of_amount, I<res>:<id>,<id>… …_of_non_fungibles,
//!           pop, dropsig, dropreg, dropall
//! Resource indices: 0 package-of-direct-caller badge, 1 global-caller badge, 2 secp256k1 signature,
//!   3 ed25519 signature, 10..12 fungible (100 units each in the account), 20,21 non-fungible
//!   (integer ids 1..=6 in the account). Badge ids: packages 0 tx-processor 1 account 2 resource
//!   3 fixture 4 faucet 5 pool; global callers 0 frame-owned marker 1 TransactionProcessor blueprint
//!   2 badge account 3 fixture component 4 faucet 5 the `self`-path account 6 the `poolmint` pool; signature ids = key index 0..3.
//! Answer: ok | unauthorized | error | rule-rejected | bad-op.
use harness::util::*;
use radix_common::prelude::*;
use radix_engine::errors::*;
use radix_engine::object_modules::role_assignment::RoleAssignmentError;
use radix_engine::system::system_modules::auth::AuthError;
use radix_engine::transaction::*;
use radix_engine_interface::blueprints::package::PackageDefinition;
use radix_engine_interface::blueprints::pool::*;
use radix_engine_interface::prelude::*;
use radix_transactions::model::*;
use radix_transactions::prelude::*;
use scrypto_test::prelude::*;
use std::collections::{BTreeSet, HashMap};
use std::io::Write;

pub struct A;

const UNIT: i128 = 1_000_000_000_000_000_000;
const F_RES: [u64; 3] = [10, 11, 12];
const N_RES: [u64; 2] = [20, 21];
const NF_IDS: u64 = 6;
const ALL_RES: [u64; 9] = [0, 1, 2, 3, 10, 11, 12, 20, 21];
const PATHS: [&str; 9] = ["mint", "owner", "vp", "assert", "vault", "self", "acct", "pool", "poolmint"];

// ------------------------------------------------------------------------------------------ rule AST

#[derive(Clone, Debug, PartialEq, Eq)]
enum RoN {
    Nf(u64, u64),
    Res(u64),
}
#[derive(Clone, Debug, PartialEq, Eq)]
enum Basic {
    Require(RoN),
    AmountOf(i128, u64),
    CountOf(u64, Vec<RoN>),
    AllOf(Vec<RoN>),
    AnyOf(Vec<RoN>),
}
#[derive(Clone, Debug, PartialEq, Eq)]
enum Comp {
    Basic(Basic),
    Any(Vec<Comp>),
    All(Vec<Comp>),
}
#[derive(Clone, Debug, PartialEq, Eq)]
enum Rule {
    AllowAll,
    DenyAll,
    Protected(Comp),
}
#[derive(Clone, Debug, PartialEq, Eq)]
enum Op {
    F(u64, i128),
    I(u64, Vec<u64>),
    Pop,
    DropSig,
    DropReg,
    DropAll,
}
#[derive(Clone, Debug)]
struct Case {
    path: String,
    rule: Rule,
    nf: Vec<(u64, u64)>,
    sim: Vec<u64>,
    ops: Vec<Op>,
}

fn show_ron(x: &RoN) -> String {
    match x {
        RoN::Nf(r, i) => format!("N{}:{}", r, i),
        RoN::Res(r) => format!("R{}", r),
    }
}
fn show_rons(xs: &[RoN]) -> String {
    let mut s = format!("{}", xs.len());
    for x in xs {
        s.push(' ');
        s.push_str(&show_ron(x));
    }
    s
}
fn show_basic(b: &Basic) -> String {
    match b {
        Basic::Require(x) => format!("req {}", show_ron(x)),
        Basic::AmountOf(a, r) => format!("amt {} {}", a, r),
        Basic::CountOf(n, xs) => format!("cnt {} {}", n, show_rons(xs)),
        Basic::AllOf(xs) => format!("allof {}", show_rons(xs)),
        Basic::AnyOf(xs) => format!("anyof {}", show_rons(xs)),
    }
}
fn show_comp(c: &Comp) -> String {
    match c {
        Comp::Basic(b) => format!("b {}", show_basic(b)),
        Comp::Any(cs) => {
            let mut s = format!("any {}", cs.len());
            for c in cs {
                s.push(' ');
                s.push_str(&show_comp(c));
            }
            s
        }
        Comp::All(cs) => {
            let mut s = format!("all {}", cs.len());
            for c in cs {
                s.push(' ');
                s.push_str(&show_comp(c));
            }
            s
        }
    }
}
fn show_rule(r: &Rule) -> String {
    match r {
        Rule::AllowAll => "A".into(),
        Rule::DenyAll => "D".into(),
        Rule::Protected(c) => format!("P {}", show_comp(c)),
    }
}
fn show_op(o: &Op) -> String {
    match o {
        Op::F(r, a) => format!("F{}:{}", r, a),
        Op::I(r, ids) => format!("I{}:{}", r, ids.iter().map(|x| x.to_string()).collect::<Vec<_>>().join(",")),
        Op::Pop => "pop".into(),
        Op::DropSig => "dropsig".into(),
        Op::DropReg => "dropreg".into(),
        Op::DropAll => "dropall".into(),
    }
}
fn show_case(c: &Case) -> String {
    let mut s = format!("chk {} {} nf {}", c.path, show_rule(&c.rule), c.nf.len());
    for (r, i) in &c.nf {
        s.push_str(&format!(" {}:{}", r, i));
    }
    s.push_str(&format!(" sim {}", c.sim.len()));
    for r in &c.sim {
        s.push_str(&format!(" {}", r));
    }
    s.push_str(&format!(" ops {}", c.ops.len()));
    for o in &c.ops {
        s.push(' ');
        s.push_str(&show_op(o));
    }
    s
}

// ------------------------------------------------------------------------------------------ parser

/// decimal natural number: 1..=18 digits
fn p_nat(s: &str) -> Option<u64> {
    if s.is_empty() || s.len() > 18 || !s.chars().all(|c| c.is_ascii_digit()) {
        return None;
    }
    s.parse().ok()
}
/// optional '-' then 1..=30 digits
fn p_int(s: &str) -> Option<i128> {
    let (neg, d) = match s.strip_prefix('-') {
        Some(d) => (true, d),
        None => (false, s),
    };
    if d.is_empty() || d.len() > 30 || !d.chars().all(|c| c.is_ascii_digit()) {
        return None;
    }
    let v: i128 = d.parse().ok()?;
    Some(if neg { -v } else { v })
}
fn valid_res(r: u64) -> bool {
    ALL_RES.contains(&r)
}
/// ids a NonFungibleGlobalId of resource `r` may carry in this universe
fn valid_nf(r: u64, id: u64) -> bool {
    match r {
        0 => id <= 5,
        1 => id <= 6,
        2 | 3 => id <= 3,
        _ => valid_res(r),
    }
}
fn p_pair(s: &str) -> Option<(u64, u64)> {
    let (a, b) = s.split_once(':')?;
    let (r, i) = (p_nat(a)?, p_nat(b)?);
    if valid_nf(r, i) {
        Some((r, i))
    } else {
        None
    }
}
fn p_ron(s: &str) -> Option<RoN> {
    if let Some(t) = s.strip_prefix('R') {
        let r = p_nat(t)?;
        if valid_res(r) {
            Some(RoN::Res(r))
        } else {
            None
        }
    } else if let Some(t) = s.strip_prefix('N') {
        p_pair(t).map(|(r, i)| RoN::Nf(r, i))
    } else {
        None
    }
}
struct Toks<'a> {
    t: Vec<&'a str>,
    i: usize,
}
impl<'a> Toks<'a> {
    fn next(&mut self) -> Option<&'a str> {
        let x = self.t.get(self.i).copied();
        self.i += 1;
        x
    }
    fn rons(&mut self) -> Option<Vec<RoN>> {
        let k = p_nat(self.next()?)?;
        if k > 300 {
            return None;
        }
        let mut v = vec![];
        for _ in 0..k {
            v.push(p_ron(self.next()?)?);
        }
        Some(v)
    }
    fn basic(&mut self) -> Option<Basic> {
        match self.next()? {
            "req" => Some(Basic::Require(p_ron(self.next()?)?)),
            "amt" => {
                let a = p_int(self.next()?)?;
                let r = p_nat(self.next()?)?;
                if valid_res(r) {
                    Some(Basic::AmountOf(a, r))
                } else {
                    None
                }
            }
            "cnt" => {
                let n = p_nat(self.next()?)?;
                if n > 255 {
                    return None;
                }
                Some(Basic::CountOf(n, self.rons()?))
            }
            "allof" => Some(Basic::AllOf(self.rons()?)),
            "anyof" => Some(Basic::AnyOf(self.rons()?)),
            _ => None,
        }
    }
    fn comp(&mut self, depth: usize) -> Option<Comp> {
        if depth > 40 {
            return None;
        }
        match self.next()? {
            "b" => Some(Comp::Basic(self.basic()?)),
            k @ ("any" | "all") => {
                let n = p_nat(self.next()?)?;
                if n > 300 {
                    return None;
                }
                let mut v = vec![];
                for _ in 0..n {
                    v.push(self.comp(depth + 1)?);
                }
                Some(if k == "any" { Comp::Any(v) } else { Comp::All(v) })
            }
            _ => None,
        }
    }
    fn rule(&mut self) -> Option<Rule> {
        match self.next()? {
            "A" => Some(Rule::AllowAll),
            "D" => Some(Rule::DenyAll),
            "P" => Some(Rule::Protected(self.comp(0)?)),
            _ => None,
        }
    }
}
fn p_op(s: &str) -> Option<Op> {
    match s {
        "pop" => return Some(Op::Pop),
        "dropsig" => return Some(Op::DropSig),
        "dropreg" => return Some(Op::DropReg),
        "dropall" => return Some(Op::DropAll),
        _ => {}
    }
    if let Some(t) = s.strip_prefix('F') {
        let (a, b) = t.split_once(':')?;
        let r = p_nat(a)?;
        let amt = p_int(b)?;
        if F_RES.contains(&r) && amt > 0 && amt <= 100 * UNIT {
            return Some(Op::F(r, amt));
        }
        return None;
    }
    if let Some(t) = s.strip_prefix('I') {
        let (a, b) = t.split_once(':')?;
        let r = p_nat(a)?;
        if !N_RES.contains(&r) {
            return None;
        }
        let mut ids = vec![];
        for x in b.split(',') {
            let i = p_nat(x)?;
            if i < 1 || i > NF_IDS || ids.contains(&i) {
                return None;
            }
            ids.push(i);
        }
        return Some(Op::I(r, ids));
    }
    None
}
fn parse_case(line: &str) -> Option<Case> {
    let t: Vec<&str> = line.split(' ').filter(|s| !s.is_empty()).collect();
    let mut t = Toks { t, i: 0 };
    if t.next()? != "chk" {
        return None;
    }
    let path = t.next()?.to_string();
    if !PATHS.contains(&path.as_str()) {
        return None;
    }
    let rule = t.rule()?;
    if t.next()? != "nf" {
        return None;
    }
    let k = p_nat(t.next()?)?;
    if k > 40 {
        return None;
    }
    let mut nf = vec![];
    for _ in 0..k {
        nf.push(p_pair(t.next()?)?);
    }
    if t.next()? != "sim" {
        return None;
    }
    let k = p_nat(t.next()?)?;
    if k > 40 {
        return None;
    }
    let mut sim = vec![];
    for _ in 0..k {
        let r = p_nat(t.next()?)?;
        if !valid_res(r) {
            return None;
        }
        sim.push(r);
    }
    if t.next()? != "ops" {
        return None;
    }
    let k = p_nat(t.next()?)?;
    if k > 40 {
        return None;
    }
    let mut ops = vec![];
    let mut live = 0usize;
    for _ in 0..k {
        let o = p_op(t.next()?)?;
        match o {
            Op::F(..) | Op::I(..) => live += 1,
            Op::Pop => {
                if live == 0 {
                    return None;
                }
                live -= 1;
            }
            Op::DropReg | Op::DropAll => live = 0,
            Op::DropSig => {}
        }
        ops.push(o);
    }
    if t.i != t.t.len() {
        return None;
    }
    if (path == "self" || path == "poolmint") && rule != Rule::AllowAll {
        return None;
    }
    // deeper rules cannot be carried by a manifest (SBOR depth of the encoded instruction)
    if (is_target_path(&path) && rule_depth(&rule) > 5) || rule_depth(&rule) > 7 {
        return None;
    }
    Some(Case { path, rule, nf, sim, ops })
}

fn comp_depth(c: &Comp) -> usize {
    match c {
        Comp::Basic(_) => 0,
        Comp::Any(cs) | Comp::All(cs) => 1 + cs.iter().map(comp_depth).max().unwrap_or(0),
    }
}
fn rule_depth(r: &Rule) -> usize {
    match r {
        Rule::Protected(c) => comp_depth(c),
        _ => 0,
    }
}
fn is_target_path(p: &str) -> bool {
    matches!(p, "mint" | "owner" | "vault" | "acct" | "pool")
}
/// `lim <rule>`: the rule alone, all tokens consumed
fn parse_lim(line: &str) -> Option<Rule> {
    let t: Vec<&str> = line.split(' ').filter(|s| !s.is_empty()).collect();
    let mut t = Toks { t, i: 0 };
    if t.next()? != "lim" {
        return None;
    }
    let r = t.rule()?;
    if t.i != t.t.len() {
        return None;
    }
    Some(r)
}

// ------------------------------------------------------------------------------------------ oracle: the documented meaning

/// what the callee's authorization can see, per the documented zone walk
struct Visible {
    implicit: BTreeSet<(u64, u64)>,
    sim: BTreeSet<u64>,
    /// (resource, is fungible, amount in attos, ids)
    proofs: Vec<(u64, bool, i128, Vec<u64>)>,
}
fn is_fungible_res(r: u64) -> bool {
    F_RES.contains(&r)
}
/// None = the rule asks for a non-fungible of a resource of which a *fungible* proof is visible
/// (ill-typed; the meaning is not defined and the engine answers with a type error)
fn sat_ron(x: &RoN, v: &Visible) -> Option<bool> {
    match x {
        RoN::Res(r) => Some(v.proofs.iter().any(|p| p.0 == *r)),
        RoN::Nf(r, i) => {
            if v.implicit.contains(&(*r, *i)) || v.sim.contains(r) {
                // (an ill-typed proof elsewhere can still make the engine fail first; see `ill_typed`)
                return Some(true);
            }
            Some(v.proofs.iter().any(|p| p.0 == *r && !p.1 && p.3.contains(i)))
        }
    }
}
fn sat_basic(b: &Basic, v: &Visible) -> Option<bool> {
    Some(match b {
        Basic::Require(x) => sat_ron(x, v)?,
        Basic::AmountOf(a, r) => v.proofs.iter().any(|p| p.0 == *r && p.2 >= *a),
        Basic::AllOf(xs) => {
            let mut all = true;
            for x in xs {
                all &= sat_ron(x, v)?;
            }
            all
        }
        Basic::AnyOf(xs) => {
            let mut any = false;
            for x in xs {
                any |= sat_ron(x, v)?;
            }
            any
        }
        Basic::CountOf(n, xs) => {
            let mut c = 0u64;
            for x in xs {
                if sat_ron(x, v)? {
                    c += 1;
                }
            }
            c >= *n
        }
    })
}
fn sat_comp(c: &Comp, v: &Visible) -> Option<bool> {
    Some(match c {
        Comp::Basic(b) => sat_basic(b, v)?,
        Comp::Any(cs) => {
            let mut any = false;
            for c in cs {
                any |= sat_comp(c, v)?;
            }
            any
        }
        Comp::All(cs) => {
            let mut all = true;
            for c in cs {
                all &= sat_comp(c, v)?;
            }
            all
        }
    })
}
fn sat_rule(r: &Rule, v: &Visible) -> Option<bool> {
    match r {
        Rule::AllowAll => Some(true),
        Rule::DenyAll => Some(false),
        Rule::Protected(c) => sat_comp(c, v),
    }
}
fn rons_of_basic<'a>(b: &'a Basic, out: &mut Vec<&'a RoN>) {
    match b {
        Basic::Require(x) => out.push(x),
        Basic::AmountOf(..) => {}
        Basic::CountOf(_, xs) | Basic::AllOf(xs) | Basic::AnyOf(xs) => out.extend(xs.iter()),
    }
}
fn rons_of_comp<'a>(c: &'a Comp, out: &mut Vec<&'a RoN>) {
    match c {
        Comp::Basic(b) => rons_of_basic(b, out),
        Comp::Any(cs) | Comp::All(cs) => cs.iter().for_each(|c| rons_of_comp(c, out)),
    }
}
/// some non-fungible requirement names a resource of which a fungible proof is visible
fn ill_typed(r: &Rule, v: &Visible) -> bool {
    let mut rons = vec![];
    if let Rule::Protected(c) = r {
        rons_of_comp(c, &mut rons);
    }
    rons.iter().any(|x| match x {
        RoN::Nf(r, _) => v.proofs.iter().any(|p| p.0 == *r && p.1),
        _ => false,
    })
}
/// the transaction processor's auth zone after the manifest's ops
fn tx_visible(c: &Case) -> Visible {
    let mut v = Visible { implicit: c.nf.iter().cloned().collect(), sim: c.sim.iter().cloned().collect(), proofs: vec![] };
    for o in &c.ops {
        match o {
            Op::F(r, a) => v.proofs.push((*r, true, *a, vec![])),
            Op::I(r, ids) => v.proofs.push((*r, false, ids.len() as i128 * UNIT, ids.clone())),
            Op::Pop => {
                v.proofs.pop();
            }
            Op::DropReg => v.proofs.clear(),
            Op::DropSig | Op::DropAll => {
                v.implicit.retain(|x| x.0 != 2 && x.0 != 3);
                v.sim.retain(|x| *x != 2 && *x != 3);
                if *o == Op::DropAll {
                    v.proofs.clear();
                }
            }
        }
    }
    v
}
fn kinds_key(r: &Rule) -> String {
    fn basic(b: &Basic, s: &mut BTreeSet<&'static str>) {
        s.insert(match b {
            Basic::Require(RoN::Nf(..)) => "req-nf",
            Basic::Require(RoN::Res(..)) => "req-res",
            Basic::AmountOf(..) => "amt",
            Basic::CountOf(..) => "cnt",
            Basic::AllOf(..) => "allof",
            Basic::AnyOf(..) => "anyof",
        });
    }
    fn comp(c: &Comp, s: &mut BTreeSet<&'static str>) {
        match c {
            Comp::Basic(b) => basic(b, s),
            Comp::Any(cs) => {
                s.insert("any");
                cs.iter().for_each(|c| comp(c, s))
            }
            Comp::All(cs) => {
                s.insert("all");
                cs.iter().for_each(|c| comp(c, s))
            }
        }
    }
    let mut s = BTreeSet::new();
    match r {
        Rule::AllowAll => {
            s.insert("allow");
        }
        Rule::DenyAll => {
            s.insert("deny");
        }
        Rule::Protected(c) => comp(c, &mut s),
    }
    s.into_iter().collect::<Vec<_>>().join("+")
}

// ------------------------------------------------------------------------------------------ generator

fn gen_amount(rng: &mut Rng) -> i128 {
    match rng.below(12) {
        0 => 0,
        1 => 1,
        2 => -1,
        3 => UNIT,
        4 => UNIT + 1,
        5 => UNIT - 1,
        6 => 5 * UNIT,
        7 => 100 * UNIT,
        8 => 100 * UNIT + 1,
        9 => 2 * UNIT + UNIT / 2,
        _ => (rng.below(100) as i128 + 1) * UNIT / 4,
    }
}
fn gen_ron(rng: &mut Rng) -> RoN {
    match rng.below(20) {
        0..=5 => RoN::Res(*rng.pick(&F_RES)),
        6..=7 => RoN::Res(*rng.pick(&N_RES)),
        8..=11 => RoN::Nf(*rng.pick(&N_RES), 1 + rng.below(NF_IDS)),
        12..=13 => RoN::Nf(2, rng.below(4)),
        14 => RoN::Nf(3, rng.below(4)),
        15 => RoN::Nf(0, rng.below(6)),
        16 => RoN::Nf(1, rng.below(7)),
        17 => RoN::Res(*rng.pick(&[0u64, 1, 2, 3])),
        // non-fungible id of a fungible resource (ill-typed when a proof of it is around)
        18 => RoN::Nf(*rng.pick(&F_RES), 1 + rng.below(3)),
        _ => RoN::Res(*rng.pick(&ALL_RES)),
    }
}
fn gen_rons(rng: &mut Rng, max: u64) -> Vec<RoN> {
    let n = match rng.below(10) {
        0 => 0,
        1..=3 => 1,
        4..=6 => 2,
        _ => 1 + rng.below(max),
    };
    let mut v: Vec<RoN> = (0..n).map(|_| gen_ron(rng)).collect();
    if v.len() >= 2 && rng.chance(1, 6) {
        // duplicate entry: count-of counts entries, not distinct resources
        let d = v[0].clone();
        v.push(d);
    }
    v
}
fn gen_basic(rng: &mut Rng) -> Basic {
    match rng.below(14) {
        0..=4 => Basic::Require(gen_ron(rng)),
        5..=7 => {
            let r = if rng.chance(4, 5) { *rng.pick(&F_RES) } else { *rng.pick(&N_RES) };
            Basic::AmountOf(gen_amount(rng), r)
        }
        8..=10 => {
            let xs = gen_rons(rng, 5);
            let n = match rng.below(8) {
                0 => 0,
                1 => xs.len() as u64,
                2 => xs.len() as u64 + 1,
                3 => 255,
                _ => 1 + rng.below(xs.len() as u64 + 1),
            };
            Basic::CountOf(n, xs)
        }
        11..=12 => Basic::AllOf(gen_rons(rng, 4)),
        _ => Basic::AnyOf(gen_rons(rng, 4)),
    }
}
fn gen_comp(rng: &mut Rng, depth: usize, budget: &mut i64) -> Comp {
    *budget -= 1;
    if depth >= 4 || *budget <= 0 || rng.chance(3, 5) {
        return Comp::Basic(gen_basic(rng));
    }
    let n = match rng.below(8) {
        0 => 0,
        1 => 1,
        _ => 2 + rng.below(3),
    };
    let cs = (0..n).map(|_| gen_comp(rng, depth + 1, budget)).collect();
    if rng.chance(1, 2) {
        Comp::Any(cs)
    } else {
        Comp::All(cs)
    }
}
fn chain(depth: usize, leaf: Comp, any: bool) -> Comp {
    let mut c = leaf;
    for i in 0..depth {
        c = if (i % 2 == 0) == any { Comp::Any(vec![c]) } else { Comp::All(vec![c]) };
    }
    c
}
/// rules around the validation limits, for the unit-level `lim` op
fn gen_lim_rule(rng: &mut Rng, max_depth: usize, max_nodes: usize) -> Rule {
    let leaf = Comp::Basic(gen_basic(rng));
    match rng.below(8) {
        0 => Rule::Protected(chain(max_depth, leaf, rng.chance(1, 2))),
        1 => Rule::Protected(chain(max_depth + 1, leaf, rng.chance(1, 2))),
        2 => Rule::Protected(chain(rng.below(max_depth as u64 + 3) as usize, leaf, rng.chance(1, 2))),
        3 | 4 => {
            // k leaves under one node: k+1 nodes
            let k = match rng.below(4) {
                0 => max_nodes - 1,
                1 => max_nodes,
                2 => max_nodes - 2,
                _ => rng.below(max_nodes as u64 + 8) as usize,
            };
            Rule::Protected(Comp::All((0..k).map(|_| leaf.clone()).collect()))
        }
        5 => {
            // both limits at once: a deep spine with wide levels
            let mut c = leaf.clone();
            let d = max_depth - 1 + rng.below(3) as usize;
            let w = 1 + rng.below(9) as usize;
            for i in 0..d {
                let mut cs = vec![c];
                for _ in 0..w {
                    cs.push(leaf.clone());
                }
                if rng.chance(1, 2) {
                    cs.reverse();
                }
                c = if i % 2 == 0 { Comp::Any(cs) } else { Comp::All(cs) };
            }
            Rule::Protected(c)
        }
        6 => {
            if rng.chance(1, 2) {
                Rule::AllowAll
            } else {
                Rule::DenyAll
            }
        }
        _ => {
            let mut budget = 2 + rng.below(80) as i64;
            Rule::Protected(gen_comp(rng, 0, &mut budget))
        }
    }
}
fn gen_rule(rng: &mut Rng, _max_depth: usize, max_nodes: usize) -> Rule {
    match rng.below(40) {
        0 => Rule::AllowAll,
        1 => Rule::DenyAll,
        // around the validation limits: depth max_depth (ok) / max_depth+1 (rejected)
        // deepest rules a manifest can carry
        2 => Rule::Protected(chain(5, Comp::Basic(gen_basic(rng)), rng.chance(1, 2))),
        3 => Rule::Protected(chain(4 + rng.below(2) as usize, Comp::Basic(gen_basic(rng)), rng.chance(1, 2))),
        // node count max_nodes (ok) / max_nodes+1 (rejected)
        4 | 5 => {
            let n = if rng.chance(1, 2) { max_nodes - 1 } else { max_nodes };
            let leaf = gen_basic(rng);
            let mut cs: Vec<Comp> = (0..n).map(|_| Comp::Basic(leaf.clone())).collect();
            if !cs.is_empty() && rng.chance(1, 2) {
                cs[0] = Comp::Basic(gen_basic(rng));
            }
            Rule::Protected(if rng.chance(1, 2) { Comp::Any(cs) } else { Comp::All(cs) })
        }
        _ => {
            let mut budget = 2 + rng.below(12) as i64;
            Rule::Protected(gen_comp(rng, 0, &mut budget))
        }
    }
}
/// ops / implicit proofs aimed at one leaf: satisfy it, or miss it narrowly
fn aim_ron(rng: &mut Rng, x: &RoN, hit: bool, nf: &mut Vec<(u64, u64)>, sim: &mut Vec<u64>, ops: &mut Vec<Op>) {
    match x {
        RoN::Res(r) => {
            if F_RES.contains(r) {
                let r2 = if hit { *r } else { *rng.pick(&F_RES) };
                ops.push(Op::F(r2, (1 + rng.below(3) as i128) * UNIT));
            } else if N_RES.contains(r) {
                let r2 = if hit { *r } else { *rng.pick(&N_RES) };
                ops.push(Op::I(r2, vec![1 + rng.below(NF_IDS)]));
            } else if hit {
                // badge resources: only an implicit proof / simulation exists — which does NOT satisfy a resource rule
                if rng.chance(1, 2) {
                    sim.push(*r)
                } else {
                    nf.push((*r, rng.below(4)))
                }
            }
        }
        RoN::Nf(r, i) => {
            if N_RES.contains(r) {
                match (hit, rng.below(6)) {
                    (true, 0) => nf.push((*r, *i)),
                    (true, 1) => sim.push(*r),
                    (true, _) => {
                        let mut ids = vec![*i];
                        if rng.chance(1, 2) {
                            let j = 1 + rng.below(NF_IDS);
                            if j != *i {
                                ids.push(j);
                            }
                        }
                        if rng.chance(1, 2) {
                            ids.reverse();
                        }
                        ops.push(Op::I(*r, ids));
                    }
                    (false, 0) => ops.push(Op::I(if *r == 20 { 21 } else { 20 }, vec![*i])),
                    (false, 1) => nf.push((*r, if *i == 1 { 2 } else { *i - 1 })),
                    (false, _) => ops.push(Op::I(*r, vec![if *i == NF_IDS { 1 } else { *i + 1 }])),
                }
            } else if F_RES.contains(r) {
                match rng.below(4) {
                    0 => ops.push(Op::F(*r, UNIT)), // ill-typed
                    1 => nf.push((*r, *i)),
                    2 => sim.push(*r),
                    _ => {}
                }
            } else if hit {
                if rng.chance(4, 5) {
                    nf.push((*r, *i))
                } else {
                    sim.push(*r)
                }
            } else if valid_nf(*r, *i + 1) && rng.chance(1, 2) {
                nf.push((*r, *i + 1));
            }
        }
    }
}
fn aim_basic(rng: &mut Rng, b: &Basic, nf: &mut Vec<(u64, u64)>, sim: &mut Vec<u64>, ops: &mut Vec<Op>) {
    match b {
        Basic::Require(x) => {
            let hit = rng.chance(1, 2);
            aim_ron(rng, x, hit, nf, sim, ops)
        }
        Basic::AmountOf(a, r) => {
            let cap = |x: i128| x.max(1).min(100 * UNIT);
            if F_RES.contains(r) {
                match rng.below(6) {
                    0 => ops.push(Op::F(*r, cap(*a))),
                    1 => ops.push(Op::F(*r, cap(*a - 1))),
                    2 => ops.push(Op::F(*r, cap(*a + 1))),
                    3 => {
                        // two proofs that only together reach the amount
                        ops.push(Op::F(*r, cap(*a / 2)));
                        ops.push(Op::F(*r, cap(*a - *a / 2)));
                    }
                    4 => ops.push(Op::F(*rng.pick(&F_RES), cap(*a))),
                    _ => {
                        if rng.chance(1, 2) {
                            sim.push(*r)
                        }
                    }
                }
            } else if N_RES.contains(r) {
                let n = ((*a + UNIT - 1) / UNIT).max(1).min(NF_IDS as i128) as u64;
                let n = if rng.chance(1, 3) && n > 1 { n - 1 } else { n };
                ops.push(Op::I(*r, (1..=n).collect()));
            }
        }
        Basic::AllOf(xs) | Basic::AnyOf(xs) => {
            let all = matches!(b, Basic::AllOf(_));
            let miss = if xs.is_empty() || rng.chance(1, 2) { usize::MAX } else { rng.below(xs.len() as u64) as usize };
            for (k, x) in xs.iter().enumerate() {
                let hit = if all { k != miss } else { k == miss };
                aim_ron(rng, x, hit, nf, sim, ops);
            }
        }
        Basic::CountOf(n, xs) => {
            // satisfy n, n-1 or all entries
            let want = match rng.below(3) {
                0 => *n,
                1 => n.saturating_sub(1),
                _ => xs.len() as u64,
            };
            for (k, x) in xs.iter().enumerate() {
                aim_ron(rng, x, (k as u64) < want, nf, sim, ops);
            }
        }
    }
}
fn aim_comp(rng: &mut Rng, c: &Comp, nf: &mut Vec<(u64, u64)>, sim: &mut Vec<u64>, ops: &mut Vec<Op>) {
    match c {
        Comp::Basic(b) => aim_basic(rng, b, nf, sim, ops),
        Comp::Any(cs) | Comp::All(cs) => {
            let skip = if cs.is_empty() || rng.chance(1, 2) { usize::MAX } else { rng.below(cs.len() as u64) as usize };
            for (k, c) in cs.iter().enumerate() {
                if k != skip && ops.len() < 12 {
                    aim_comp(rng, c, nf, sim, ops);
                }
            }
        }
    }
}
fn gen_zone(rng: &mut Rng, rule: &Rule) -> (Vec<(u64, u64)>, Vec<u64>, Vec<Op>) {
    let (mut nf, mut sim, mut ops) = (vec![], vec![], vec![]);
    if let Rule::Protected(c) = rule {
        if !rng.chance(1, 8) {
            aim_comp(rng, c, &mut nf, &mut sim, &mut ops);
        }
    }
    // noise
    for _ in 0..rng.below(3) {
        match rng.below(6) {
            0 => ops.push(Op::F(*rng.pick(&F_RES), gen_amount(rng).max(1).min(100 * UNIT))),
            1 => ops.push(Op::I(*rng.pick(&N_RES), vec![1 + rng.below(NF_IDS)])),
            2 => nf.push((2, rng.below(4))),
            3 => nf.push((*rng.pick(&N_RES), 1 + rng.below(NF_IDS))),
            4 => sim.push(*rng.pick(&[2u64, 3, 20, 10])),
            _ => nf.push((*rng.pick(&[0u64, 1]), rng.below(5))),
        }
    }
    if rng.chance(1, 4) && ops.len() >= 2 {
        let k = rng.below(ops.len() as u64) as usize;
        let l = ops.len() - 1;
        ops.swap(k, l);
    }
    // manifest-level removal of proofs
    if rng.chance(1, 8) {
        let live = ops.len();
        let pos = rng.below(live as u64 + 1) as usize;
        let o = match rng.below(5) {
            0 if pos > 0 => Op::Pop,
            1 => Op::DropSig,
            2 => Op::DropReg,
            3 => Op::DropAll,
            _ => Op::DropSig,
        };
        ops.insert(pos, o);
    }
    ops.truncate(14);
    // re-validate pops (truncate / insert cannot break them, but stay safe)
    let mut live = 0usize;
    ops.retain(|o| match o {
        Op::F(..) | Op::I(..) => {
            live += 1;
            true
        }
        Op::Pop => {
            if live == 0 {
                false
            } else {
                live -= 1;
                true
            }
        }
        Op::DropReg | Op::DropAll => {
            live = 0;
            true
        }
        Op::DropSig => true,
    });
    nf.sort();
    nf.dedup();
    sim.sort();
    sim.dedup();
    (nf, sim, ops)
}

fn limits() -> (usize, usize) {
    (MAX_ACCESS_RULE_DEPTH, MAX_COMPOSITE_REQUIREMENTS)
}

impl Area for A {
    fn gen(&self, rng: &mut Rng, n: usize, out: &mut dyn Write) {
        let (md, mn) = limits();
        let mut left = n;
        while left > 0 {
            if rng.chance(1, 12) {
                left -= 1;
                writeln!(out, "lim {}", show_rule(&gen_lim_rule(rng, md, mn))).unwrap();
                continue;
            }
            let rule = gen_rule(rng, md, mn);
            let variants = (2 + rng.below(5) as usize).min(left);
            for _ in 0..variants {
                left -= 1;
                if rng.chance(1, 60) {
                    // malformed stream
                    let l = match rng.below(8) {
                        0 => "chk mint A nf 0 sim 0 ops 1 pop".to_string(),
                        1 => "chk mint P b req R4 nf 0 sim 0 ops 0".to_string(),
                        2 => "chk fly A nf 0 sim 0 ops 0".to_string(),
                        3 => "chk mint P b amt 1x 10 nf 0 sim 0 ops 0".to_string(),
                        4 => "chk mint P any 2 b req R10 nf 0 sim 0 ops 0".to_string(),
                        5 => "chk vp A nf 1 2:9 sim 0 ops 0".to_string(),
                        6 => "chk mint A nf 0 sim 0 ops 1 F10:0".to_string(),
                        _ => "chk owner D nf 0 sim 0 ops 0 extra".to_string(),
                    };
                    writeln!(out, "{}", l).unwrap();
                    continue;
                }
                let path = match rng.below(24) {
                    0..=5 => "mint",
                    6..=8 => "owner",
                    9..=12 => "vp",
                    13..=15 => "assert",
                    16..=17 => "vault",
                    18 => "acct",
                    19 => "self",
                    20..=22 => "pool",
                    _ => "poolmint",
                };
                let (mut nf, sim, ops) = gen_zone(rng, &rule);
                let mut rule_c = rule.clone();
                if path == "self" || path == "poolmint" {
                    rule_c = Rule::AllowAll;
                    match rng.below(5) {
                        0 => nf.push((1, 5)),
                        1 => nf.push((1, 2)),
                        2 => nf.push((0, 1)),
                        3 => nf.push((1, 6)),
                        _ => {}
                    }
                    nf.sort();
                    nf.dedup();
                }
                let c = Case { path: path.to_string(), rule: rule_c, nf, sim, ops };
                writeln!(out, "{}", show_case(&c)).unwrap();
            }
        }
    }

    fn runner(&self) -> Box<dyn Runner> {
        Box::new(R::new())
    }

    fn consts(&self) -> Vec<(String, String)> {
        let (md, mn) = limits();
        vec![("MAX_ACCESS_RULE_DEPTH".into(), md.to_string()), ("MAX_COMPOSITE_REQUIREMENTS".into(), mn.to_string())]
    }
}

// ------------------------------------------------------------------------------------------ runner

struct R {
    ledger: DefaultLedgerSimulator,
    /// holds the badges; owner role AllowAll, so creating proofs needs no signature
    account: ComponentAddress,
    /// account of the `self` path
    account2: ComponentAddress,
    f: [ResourceAddress; 3],
    n: [ResourceAddress; 2],
    fixture_pkg: PackageAddress,
    fixture: ComponentAddress,
    /// resource the pools hold (not part of the rule universe, so no proof ever locks it)
    pool_res: ResourceAddress,
    /// the fixed pool of the `poolmint` path (global caller 6) and its unit resource
    pool0: ComponentAddress,
    pool0_unit: ResourceAddress,
    /// rule text -> pool whose pool_manager role is the rule
    pool_cache: HashMap<String, Result<ComponentAddress, String>>,
    secp: Vec<Secp256k1PublicKey>,
    ed: Vec<Ed25519PublicKey>,
    /// rule text -> (resource with minter/withdrawer/owner = rule, account with owner = rule) or the creation failure answer
    cache: HashMap<String, Result<(ResourceAddress, ComponentAddress), String>>,
    nonce: u32,
}

fn load_fixture() -> (Vec<u8>, PackageDefinition) {
    let code = include_bytes!("../../assets/c08/role_assignment.wasm").to_vec();
    let def: PackageDefinition = manifest_decode::<ManifestPackageDefinition>(include_bytes!("../../assets/c08/role_assignment.rpd")).unwrap().try_into_typed().unwrap();
    (code, def)
}

impl R {
    fn new() -> R {
        let mut ledger = LedgerSimulatorBuilder::new().without_kernel_trace().build();
        let mk_account = |ledger: &mut DefaultLedgerSimulator| -> ComponentAddress {
            let m = ManifestBuilder::new().lock_fee_from_faucet().new_account_advanced(OwnerRole::Fixed(AccessRule::AllowAll), None).build();
            ledger.execute_manifest(m, vec![]).expect_commit_success().new_component_addresses()[0]
        };
        let account = mk_account(&mut ledger);
        let account2 = mk_account(&mut ledger);
        let mut f = vec![];
        for _ in 0..3 {
            let m = ManifestBuilder::new()
                .lock_fee_from_faucet()
                .create_fungible_resource(OwnerRole::None, true, 18, FungibleResourceRoles::default(), metadata!(), Some(Decimal::from(100)))
                .try_deposit_entire_worktop_or_abort(account, None)
                .build();
            f.push(ledger.execute_manifest(m, vec![]).expect_commit_success().new_resource_addresses()[0]);
        }
        let mut n = vec![];
        for _ in 0..2 {
            let entries: Vec<(NonFungibleLocalId, ())> = (1..=NF_IDS).map(|i| (NonFungibleLocalId::integer(i), ())).collect();
            let m = ManifestBuilder::new()
                .lock_fee_from_faucet()
                .create_non_fungible_resource(OwnerRole::None, NonFungibleIdType::Integer, true, NonFungibleResourceRoles::default(), metadata!(), Some(entries))
                .try_deposit_entire_worktop_or_abort(account, None)
                .build();
            n.push(ledger.execute_manifest(m, vec![]).expect_commit_success().new_resource_addresses()[0]);
        }
        let fixture_pkg = ledger.publish_package(load_fixture(), Default::default(), OwnerRole::None);
        let m = ManifestBuilder::new().lock_fee_from_faucet().call_function(fixture_pkg, "AssertAccessRule", "new", manifest_args!()).build();
        let fixture = ledger.execute_manifest(m, vec![]).expect_commit_success().new_component_addresses()[0];
        let m = ManifestBuilder::new()
            .lock_fee_from_faucet()
            .create_fungible_resource(OwnerRole::None, true, 18, FungibleResourceRoles::default(), metadata!(), Some(Decimal::from(1_000_000)))
            .try_deposit_entire_worktop_or_abort(account, None)
            .build();
        let pool_res = ledger.execute_manifest(m, vec![]).expect_commit_success().new_resource_addresses()[0];
        let (pool0, pool0_unit) = Self::mk_pool(&mut ledger, pool_res, AccessRule::AllowAll).unwrap();
        let secp = (0..4).map(|k| Secp256k1PrivateKey::from_u64(k + 1).unwrap().public_key()).collect();
        let ed = (0..4).map(|k| Ed25519PrivateKey::from_u64(k + 1).unwrap().public_key()).collect();
        R { ledger, account, account2, f: [f[0], f[1], f[2]], n: [n[0], n[1]], fixture_pkg, fixture, pool_res, pool0, pool0_unit, pool_cache: HashMap::new(), secp, ed, cache: HashMap::new(), nonce: 100_000 }
    }

    fn mk_pool(ledger: &mut DefaultLedgerSimulator, res: ResourceAddress, manager: AccessRule) -> Result<(ComponentAddress, ResourceAddress), String> {
        let m = ManifestBuilder::new()
            .lock_fee_from_faucet()
            .call_function(
                POOL_PACKAGE,
                ONE_RESOURCE_POOL_BLUEPRINT,
                ONE_RESOURCE_POOL_INSTANTIATE_IDENT,
                OneResourcePoolInstantiateManifestInput { resource_address: res.into(), pool_manager_rule: manager.into(), owner_role: OwnerRole::None.into(), address_reservation: None },
            )
            .build();
        let receipt = ledger.execute_manifest(m, vec![]);
        match &receipt.result {
            TransactionResult::Commit(c) => match &c.outcome {
                TransactionOutcome::Success(_) => Ok((c.new_component_addresses()[0], c.new_resource_addresses()[0])),
                TransactionOutcome::Failure(e) => match e {
                    RuntimeError::ApplicationError(ApplicationError::RoleAssignmentError(RoleAssignmentError::ExceededMaxAccessRuleDepth))
                    | RuntimeError::ApplicationError(ApplicationError::RoleAssignmentError(RoleAssignmentError::ExceededMaxAccessRuleNodes)) => Err("rule-rejected".to_string()),
                    other => Err(format!("create-failed:{}", short(&format!("{:?}", other)))),
                },
            },
            _ => Err("create-rejected".to_string()),
        }
    }

    fn pool(&mut self, rule: &Rule) -> Result<ComponentAddress, String> {
        let key = show_rule(rule);
        if let Some(x) = self.pool_cache.get(&key) {
            return x.clone();
        }
        let ar = self.rule(rule);
        let out = Self::mk_pool(&mut self.ledger, self.pool_res, ar).map(|x| x.0);
        self.pool_cache.insert(key, out.clone());
        out
    }

    fn res(&self, r: u64) -> ResourceAddress {
        match r {
            0 => PACKAGE_OF_DIRECT_CALLER_RESOURCE,
            1 => GLOBAL_CALLER_RESOURCE,
            2 => SECP256K1_SIGNATURE_RESOURCE,
            3 => ED25519_SIGNATURE_RESOURCE,
            10..=12 => self.f[(r - 10) as usize],
            20 | 21 => self.n[(r - 20) as usize],
            _ => unreachable!(),
        }
    }
    fn nfid(&self, r: u64, i: u64) -> NonFungibleGlobalId {
        match r {
            0 => NonFungibleGlobalId::package_of_direct_caller_badge(match i {
                0 => TRANSACTION_PROCESSOR_PACKAGE,
                1 => ACCOUNT_PACKAGE,
                2 => RESOURCE_PACKAGE,
                3 => self.fixture_pkg,
                4 => FAUCET_PACKAGE,
                _ => POOL_PACKAGE,
            }),
            1 => NonFungibleGlobalId::global_caller_badge(match i {
                0 => GlobalCaller::GlobalObject(FRAME_OWNED_GLOBAL_MARKER),
                1 => GlobalCaller::PackageBlueprint(BlueprintId::new(&TRANSACTION_PROCESSOR_PACKAGE, TRANSACTION_PROCESSOR_BLUEPRINT)),
                2 => GlobalCaller::GlobalObject(self.account.into()),
                3 => GlobalCaller::GlobalObject(self.fixture.into()),
                4 => GlobalCaller::GlobalObject(FAUCET.into()),
                5 => GlobalCaller::GlobalObject(self.account2.into()),
                _ => GlobalCaller::GlobalObject(self.pool0.into()),
            }),
            2 => NonFungibleGlobalId::from_public_key(&self.secp[i as usize]),
            3 => NonFungibleGlobalId::from_public_key(&self.ed[i as usize]),
            _ => NonFungibleGlobalId::new(self.res(r), NonFungibleLocalId::integer(i)),
        }
    }
    fn ron(&self, x: &RoN) -> ResourceOrNonFungible {
        match x {
            RoN::Res(r) => ResourceOrNonFungible::Resource(self.res(*r)),
            RoN::Nf(r, i) => ResourceOrNonFungible::NonFungible(self.nfid(*r, *i)),
        }
    }
    fn basic(&self, b: &Basic) -> BasicRequirement {
        let l = |xs: &Vec<RoN>| xs.iter().map(|x| self.ron(x)).collect::<Vec<_>>();
        match b {
            Basic::Require(x) => BasicRequirement::Require(self.ron(x)),
            Basic::AmountOf(a, r) => BasicRequirement::AmountOf(Decimal::from_attos(I192::from(*a)), self.res(*r)),
            Basic::CountOf(n, xs) => BasicRequirement::CountOf(*n as u8, l(xs)),
            Basic::AllOf(xs) => BasicRequirement::AllOf(l(xs)),
            Basic::AnyOf(xs) => BasicRequirement::AnyOf(l(xs)),
        }
    }
    fn comp(&self, c: &Comp) -> CompositeRequirement {
        match c {
            Comp::Basic(b) => CompositeRequirement::BasicRequirement(self.basic(b)),
            Comp::Any(cs) => CompositeRequirement::AnyOf(cs.iter().map(|c| self.comp(c)).collect()),
            Comp::All(cs) => CompositeRequirement::AllOf(cs.iter().map(|c| self.comp(c)).collect()),
        }
    }
    fn rule(&self, r: &Rule) -> AccessRule {
        match r {
            Rule::AllowAll => AccessRule::AllowAll,
            Rule::DenyAll => AccessRule::DenyAll,
            Rule::Protected(c) => AccessRule::Protected(self.comp(c)),
        }
    }

    /// the resource + account whose roles are `rule` (committed once per distinct rule)
    fn target(&mut self, rule: &Rule) -> Result<(ResourceAddress, ComponentAddress), String> {
        let key = show_rule(rule);
        if let Some(x) = self.cache.get(&key) {
            return x.clone();
        }
        let ar = self.rule(rule);
        let account = self.account;
        let m = ManifestBuilder::new()
            .lock_fee_from_faucet()
            .create_fungible_resource(
                OwnerRole::Fixed(ar.clone()),
                true,
                18,
                FungibleResourceRoles {
                    mint_roles: mint_roles! {
                        minter => ar.clone();
                        minter_updater => rule!(deny_all);
                    },
                    withdraw_roles: withdraw_roles! {
                        withdrawer => ar.clone();
                        withdrawer_updater => rule!(deny_all);
                    },
                    ..Default::default()
                },
                metadata!(),
                Some(Decimal::from(1000)),
            )
            .new_account_advanced(OwnerRole::Fixed(ar.clone()), None)
            .try_deposit_entire_worktop_or_abort(account, None)
            .build();
        let receipt = self.ledger.execute_manifest(m, vec![]);
        let out = match &receipt.result {
            TransactionResult::Commit(c) => match &c.outcome {
                TransactionOutcome::Success(_) => Ok((c.new_resource_addresses()[0], c.new_component_addresses()[0])),
                TransactionOutcome::Failure(e) => match e {
                    RuntimeError::ApplicationError(ApplicationError::RoleAssignmentError(RoleAssignmentError::ExceededMaxAccessRuleDepth))
                    | RuntimeError::ApplicationError(ApplicationError::RoleAssignmentError(RoleAssignmentError::ExceededMaxAccessRuleNodes)) => Err("rule-rejected".to_string()),
                    other => Err(format!("create-failed:{}", short(&format!("{:?}", other)))),
                },
            },
            _ => Err("create-rejected".to_string()),
        };
        self.cache.insert(key, out.clone());
        out
    }

    fn run(&mut self, c: &Case) -> String {
        let rule = self.rule(&c.rule);
        let (target, target_account) = match c.path.as_str() {
            "mint" | "owner" | "vault" | "acct" => match self.target(&c.rule) {
                Ok(t) => t,
                Err(a) => return a,
            },
            _ => (XRD, self.account),
        };
        let pool = if c.path == "pool" {
            match self.pool(&c.rule) {
                Ok(p) => p,
                Err(a) => return a,
            }
        } else {
            self.pool0
        };
        // ---- root manifest
        let mut b = ManifestBuilder::new_v2().lock_fee_from_faucet();
        let mut pops = 0usize;
        for o in &c.ops {
            b = match o {
                Op::F(r, a) => b.create_proof_from_account_of_amount(self.account, self.res(*r), Decimal::from_attos(I192::from(*a))),
                Op::I(r, ids) => b.create_proof_from_account_of_non_fungibles(self.account, self.res(*r), ids.iter().map(|i| NonFungibleLocalId::integer(*i)).collect::<Vec<_>>()),
                Op::Pop => {
                    pops += 1;
                    b.pop_from_auth_zone(format!("popped{}", pops))
                }
                Op::DropSig => b.drop_auth_zone_signature_proofs(),
                Op::DropReg => b.drop_auth_zone_regular_proofs(),
                Op::DropAll => b.drop_auth_zone_proofs(),
            };
        }
        self.nonce += 1;
        let mut tb = TestTransaction::new_v2_builder(self.nonce);
        b = match c.path.as_str() {
            "mint" => b.mint_fungible(target, 1),
            "owner" => b.set_metadata(target, "k", MetadataValue::String("v".into())),
            "assert" => b.call_method(self.fixture, "assert_access_rule", manifest_args!(rule.clone())),
            "vault" => b.withdraw_from_account(self.account, target, 1),
            "acct" => b.call_method(target_account, ACCOUNT_SET_DEFAULT_DEPOSIT_RULE_IDENT, AccountSetDefaultDepositRuleInput { default: DefaultDepositRule::Accept }),
            "self" => b.set_role(self.account2, ModuleId::Main, "securify", AccessRule::DenyAll),
            "pool" => b
                .withdraw_from_account(self.account, self.pool_res, 1)
                .take_all_from_worktop(self.pool_res, "pb")
                .with_name_lookup(|b, l| b.call_method(pool, ONE_RESOURCE_POOL_CONTRIBUTE_IDENT, OneResourcePoolContributeManifestInput { bucket: l.bucket("pb") })),
            "poolmint" => b.mint_fungible(self.pool0_unit, 1),
            "vp" => {
                let child = tb.add_subintent(ManifestBuilder::new_subintent_v2().verify_parent(rule.clone()).yield_to_parent(()).build(), vec![]);
                b.use_child("c", child).yield_to_child("c", ())
            }
            _ => unreachable!(),
        };
        let manifest = b.try_deposit_entire_worktop_or_abort(self.account, None).build();
        let tx = tb.finish_with_root_intent(manifest, vec![]);
        let prepared = match tx.prepare(&PreparationSettings::latest()) {
            Ok(p) => p,
            Err(e) => return format!("prepare-failed:{}", short(&format!("{:?}", e))),
        };
        let (root, subs) = match prepared {
            PreparedTestTransaction::V2 { root_intent, subintents } => (root_intent, subintents),
            _ => unreachable!(),
        };
        let init = AuthZoneInit::new(c.nf.iter().map(|(r, i)| self.nfid(*r, *i)).collect(), c.sim.iter().map(|r| self.res(*r)).collect());
        let payload_size = root.encoded_instructions.len() + subs.iter().map(|s| s.encoded_instructions.len()).sum::<usize>();
        let context = ExecutionContext {
            unique_hash: root.hash,
            intent_hash_nullifications: vec![],
            epoch_range: None,
            payload_size,
            num_of_signature_validations: c.nf.len(),
            costing_parameters: TransactionCostingParameters { tip: TipSpecifier::None, free_credit_in_xrd: Decimal::ZERO },
            pre_allocated_addresses: vec![],
            disable_limits_and_costing_modules: false,
            proposer_timestamp_range: None,
        };
        let mut root_exec = root.into_executable_intent();
        root_exec.auth_zone_init = init;
        let executable = ExecutableTransaction::new_v2(root_exec, subs.into_iter().map(|s| s.into_executable_intent()).collect(), context);
        let receipt = self.ledger.execute_transaction_no_commit(executable, ExecutionConfig::for_test_transaction().with_kernel_trace(false));
        match &receipt.result {
            TransactionResult::Commit(cr) => match &cr.outcome {
                TransactionOutcome::Success(_) => "ok".to_string(),
                TransactionOutcome::Failure(e) => match e {
                    RuntimeError::SystemModuleError(SystemModuleError::AuthError(AuthError::Unauthorized(_))) => "unauthorized".to_string(),
                    RuntimeError::SystemError(SystemError::AssertAccessRuleFailed) if c.path == "assert" => "unauthorized".to_string(),
                    RuntimeError::SystemError(SystemError::IntentError(IntentError::VerifyParentFailed)) if c.path == "vp" => "unauthorized".to_string(),
                    other => {
                        let s = format!("{:?}", other);
                        if std::env::var("C08_SHOW_ERR").is_ok() { eprintln!("{}", s); }
                        if s.contains("get_local_ids") || s.contains("GetLocalIds") {
                            "error".to_string()
                        } else {
                            format!("err:other:{}", short(&s))
                        }
                    }
                },
            },
            TransactionResult::Reject(r) => format!("rejected:{}", short(&format!("{:?}", r.reason))),
            TransactionResult::Abort(_) => "aborted".to_string(),
        }
    }
}

/// independent measure of a rule tree: (max depth of a node, number of nodes), root at depth 0
fn measure(c: &Comp, depth: usize) -> (usize, usize) {
    match c {
        Comp::Basic(_) => (depth, 1),
        Comp::Any(cs) | Comp::All(cs) => cs.iter().fold((depth, 1), |(d, n), c| {
            let (d2, n2) = measure(c, depth + 1);
            (d.max(d2), n + n2)
        }),
    }
}

impl R {
    /// unit level: `RoleAssignmentNativePackage::verify_access_rule` on the rule itself
    fn lim(&mut self, line: &str) -> Answer {
        let rule = match parse_lim(line) {
            Some(r) => r,
            None => return Answer::ok("bad-op"),
        };
        let ar = self.rule(&rule);
        let ans = match catch(|| radix_engine::object_modules::role_assignment::RoleAssignmentNativePackage::verify_access_rule(&ar)) {
            Ok(Ok(())) => "ok".to_string(),
            Ok(Err(RoleAssignmentError::ExceededMaxAccessRuleDepth)) => "too-deep".to_string(),
            Ok(Err(RoleAssignmentError::ExceededMaxAccessRuleNodes)) => "too-many".to_string(),
            Ok(Err(e)) => format!("err:{}", short(&format!("{:?}", e))),
            Err(m) => format!("panic:{}", short(&m)),
        };
        // oracle: accepted iff every node is at depth <= MAX_ACCESS_RULE_DEPTH and there are <= MAX_COMPOSITE_REQUIREMENTS nodes
        let (md, mn) = limits();
        let within = match &rule {
            Rule::Protected(c) => {
                let (d, n) = measure(c, 0);
                d <= md && n <= mn
            }
            _ => true,
        };
        if (ans == "ok") != within || ans.starts_with("err") || ans.starts_with("panic") {
            return Answer::fail(ans.clone(), format!("limit-check:{}", ans.chars().take(12).collect::<String>()), format!("verify_access_rule answered {} but within-limits = {} for {}", ans, within, line));
        }
        Answer::ok(ans)
    }
}

fn short(s: &str) -> String {
    s.chars().filter(|c| c.is_ascii_alphanumeric()).take(80).collect()
}

impl Runner for R {
    fn step(&mut self, line: &str) -> Answer {
        if line.starts_with("lim ") {
            return self.lim(line);
        }
        let c = match parse_case(line) {
            Some(c) => c,
            None => return Answer::ok("bad-op"),
        };
        let ans = match catch(|| self.run(&c)) {
            Ok(a) => a,
            Err(m) => format!("panic:{}", short(&m)),
        };
        // ---- property oracle: the documented meaning of the rule over what the caller can see
        let mut v = tx_visible(&c);
        // badges every callee sees for a call made by the manifest: the direct caller's package and the global caller
        let (applicable, local): (Rule, Vec<(u64, u64)>) = match c.path.as_str() {
            "mint" | "owner" | "assert" | "acct" | "pool" => (c.rule.clone(), vec![(0, 0), (1, 1)]),
            "poolmint" => (Rule::Protected(Comp::Basic(Basic::Require(RoN::Nf(1, 6)))), vec![(0, 0), (1, 1)]),
            "vp" => (c.rule.clone(), vec![(1, 1)]),
            // the vault is called by the account blueprint on behalf of the transaction processor
            "vault" => (c.rule.clone(), vec![(0, 1), (1, 1)]),
            "self" => (Rule::Protected(Comp::Basic(Basic::Require(RoN::Nf(1, 5)))), vec![(0, 0), (1, 1)]),
            _ => unreachable!(),
        };
        v.implicit.extend(local);
        if ans == "rule-rejected" {
            // the property speaks about rules within the validation limits only
            return Answer::ok(ans);
        }
        if ill_typed(&applicable, &v) {
            // meaning undefined; the engine must not *grant* on the strength of an ill-typed match alone
            return Answer::ok(ans);
        }
        let expect = sat_rule(&applicable, &v);
        let key = format!("{}:{}", c.path, kinds_key(&applicable));
        match (ans.as_str(), expect) {
            ("ok", Some(true)) | ("unauthorized", Some(false)) => Answer::ok(ans),
            ("ok", Some(false)) => Answer::fail(ans, format!("granted-without-sat:{}", key), format!("call succeeded although the rule is not satisfied by the visible proofs: {}", line)),
            ("unauthorized", Some(true)) => Answer::fail(ans, format!("denied-despite-sat:{}", key), format!("call was refused although the rule is satisfied by the visible proofs: {}", line)),
            (other, _) => Answer::fail(ans.clone(), format!("unexpected-outcome:{}:{}", c.path, short(other).chars().take(30).collect::<String>()), format!("neither success nor an authorization failure: {} on {}", other, line)),
        }
    }
}

fn main() {
    main_with(&[("c08", &A)]);
}
