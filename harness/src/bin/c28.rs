//! C28 — Bech32m entity addresses (AddressBech32Encoder/Decoder, HrpSet, typed `try_from_bech32`),
//! non-fungible local ids (text + binary forms) and non-fungible global ids, on the real `radix-common`.
//!
//! Line protocol (stateless; every string is the hex of its UTF-8 bytes, `-` = empty):
//!   enc <suffix> <data>                 -> ok <text> | err missing|entity:<b>|bech32|fmt
//!   dec <suffix> <text>                 -> ok <entitybyte> <data> | err bech32|variant|missing|entity:<b>|hrp
//!   typed <kind> <suffix> <text>        -> some <data> | none            kind = package|resource|component|global|internal
//!   nfparse <text>                      -> ok <id> | err unknown|int|bytes|ruid|content:empty|content:long|content:char
//!   nfprint <id>                        -> ok <text> | err content:…      id = s:<hex utf8> | i:<u64> | b:<hex> | r:<hex32>
//!   nfenc <id>                          -> ok <bytes> | err content:…    (NonFungibleLocalId::to_vec, the SBOR body)
//!   nfdec <bytes>                       -> ok <id> <remaining> | err underflow|size|custom
//!   gidprint <suffix> <node30> <id>     -> ok <text> | err notresource|content:… | panic
//!   gidparse <suffix> <text>            -> ok <node30> <id> | err parts|addr|id:<nfparse error>
//! Every call into the implementation runs under `catch`; a panic of a *parsing* function is a violation.
use harness::util::*;
use radix_common::address::*;
use radix_common::data::scrypto::model::*;
use radix_common::data::scrypto::*;
use radix_common::network::NetworkDefinition;
use radix_common::prelude::*;
use std::io::Write;

pub struct A;

// ------------------------------------------------------------------------------------------------ helpers
fn net(suffix: &str) -> NetworkDefinition {
    NetworkDefinition { id: 0xf2, logical_name: Cow::Owned("n".to_string()), hrp_suffix: Cow::Owned(suffix.to_string()) }
}

fn hexs(s: &str) -> String {
    hex(s.as_bytes())
}

fn unhexs(s: &str) -> Option<String> {
    String::from_utf8(unhex(s)?).ok()
}

fn entity_bytes() -> Vec<u8> {
    (0..=255u8).filter(|b| EntityType::from_repr(*b).is_some()).collect()
}

fn id_repr(id: &NonFungibleLocalId) -> String {
    match id {
        NonFungibleLocalId::String(v) => format!("s:{}", hex(v.value().as_bytes())),
        NonFungibleLocalId::Integer(v) => format!("i:{}", v.value()),
        NonFungibleLocalId::Bytes(v) => format!("b:{}", hex(v.value())),
        NonFungibleLocalId::RUID(v) => format!("r:{}", hex(v.value())),
    }
}

fn content_err(e: &ContentValidationError) -> &'static str {
    match e {
        ContentValidationError::Empty => "content:empty",
        ContentValidationError::TooLong => "content:long",
        ContentValidationError::ContainsBadCharacter => "content:char",
    }
}

fn parse_err(e: &ParseNonFungibleLocalIdError) -> String {
    match e {
        ParseNonFungibleLocalIdError::UnknownType => "unknown".into(),
        ParseNonFungibleLocalIdError::InvalidInteger => "int".into(),
        ParseNonFungibleLocalIdError::InvalidBytes => "bytes".into(),
        ParseNonFungibleLocalIdError::InvalidRUID => "ruid".into(),
        ParseNonFungibleLocalIdError::ContentValidationError(c) => content_err(c).into(),
    }
}

/// None = unparseable request (bad-op); Some(Err) = content validation error of the constructor
fn id_of(s: &str) -> Option<Result<NonFungibleLocalId, ContentValidationError>> {
    let (k, v) = s.split_once(':')?;
    match k {
        "s" => Some(NonFungibleLocalId::string(unhexs(v)?)),
        "i" => {
            if v.is_empty() || !v.bytes().all(|c| c.is_ascii_digit()) || (v.len() > 1 && v.starts_with('0')) {
                return None;
            }
            Some(Ok(NonFungibleLocalId::integer(v.parse::<u64>().ok()?)))
        }
        "b" => Some(NonFungibleLocalId::bytes(unhex(v)?)),
        "r" => {
            let b = unhex(v)?;
            if b.len() != 32 {
                return None;
            }
            Some(Ok(NonFungibleLocalId::ruid(b.try_into().unwrap())))
        }
        _ => None,
    }
}

fn dec_err(e: &AddressBech32DecodeError) -> String {
    match e {
        AddressBech32DecodeError::MissingEntityTypeByte => "missing".into(),
        AddressBech32DecodeError::Bech32mEncodingError(_) => "bech32enc".into(),
        AddressBech32DecodeError::Bech32mDecodingError(_) => "bech32".into(),
        AddressBech32DecodeError::InvalidVariant(_) => "variant".into(),
        AddressBech32DecodeError::InvalidEntityTypeId(b) => format!("entity:{}", b),
        AddressBech32DecodeError::InvalidHrp => "hrp".into(),
    }
}

fn enc_err(e: &AddressBech32EncodeError) -> String {
    match e {
        AddressBech32EncodeError::Bech32mEncodingError(_) => "bech32".into(),
        AddressBech32EncodeError::FormatError(_) => "fmt".into(),
        AddressBech32EncodeError::MissingEntityTypeByte => "missing".into(),
        AddressBech32EncodeError::InvalidEntityTypeId(b) => format!("entity:{}", b),
    }
}

fn typed(kind: &str, d: &AddressBech32Decoder, s: &str) -> Option<Option<Vec<u8>>> {
    Some(match kind {
        "package" => PackageAddress::try_from_bech32(d, s).map(|a| a.to_vec()),
        "resource" => ResourceAddress::try_from_bech32(d, s).map(|a| a.to_vec()),
        "component" => ComponentAddress::try_from_bech32(d, s).map(|a| a.to_vec()),
        "global" => GlobalAddress::try_from_bech32(d, s).map(|a| a.to_vec()),
        "internal" => InternalAddress::try_from_bech32(d, s).map(|a| a.to_vec()),
        _ => return None,
    })
}

fn kind_accepts(kind: &str, raw: &[u8]) -> bool {
    match kind {
        "package" => PackageAddress::try_from(raw).is_ok(),
        "resource" => ResourceAddress::try_from(raw).is_ok(),
        "component" => ComponentAddress::try_from(raw).is_ok(),
        "global" => GlobalAddress::try_from(raw).is_ok(),
        "internal" => InternalAddress::try_from(raw).is_ok(),
        _ => false,
    }
}

const KINDS: &[&str] = &["package", "resource", "component", "global", "internal"];

// A stand-alone Bech32 / Bech32m writer for the GENERATOR only (forged and wrong-variant texts).
const CHARSET: &[u8; 32] = b"qpzry9x8gf2tvdw0s3jn54khce6mua7l";
fn polymod(v: &[u8]) -> u32 {
    const GEN: [u32; 5] = [0x3b6a57b2, 0x26508e6d, 0x1ea119fa, 0x3d4233dd, 0x2a1462b3];
    let mut chk: u32 = 1;
    for x in v {
        let b = chk >> 25;
        chk = ((chk & 0x1ffffff) << 5) ^ (*x as u32);
        for (i, g) in GEN.iter().enumerate() {
            if (b >> i) & 1 == 1 {
                chk ^= g;
            }
        }
    }
    chk
}
fn raw_bech32(hrp: &str, data5: &[u8], konst: u32) -> String {
    let mut v: Vec<u8> = hrp.bytes().map(|b| b >> 5).collect();
    v.push(0);
    v.extend(hrp.bytes().map(|b| b & 31));
    v.extend_from_slice(data5);
    v.extend_from_slice(&[0; 6]);
    let pm = polymod(&v) ^ konst;
    let mut s = String::from(hrp);
    s.push('1');
    for d in data5 {
        s.push(CHARSET[*d as usize] as char);
    }
    for i in 0..6 {
        s.push(CHARSET[((pm >> (5 * (5 - i))) & 31) as usize] as char);
    }
    s
}
fn to5(data: &[u8]) -> Vec<u8> {
    let (mut acc, mut bits, mut out) = (0u32, 0u32, vec![]);
    for b in data {
        acc = (acc << 8) | *b as u32;
        bits += 8;
        while bits >= 5 {
            bits -= 5;
            out.push(((acc >> bits) & 31) as u8);
        }
    }
    if bits > 0 {
        out.push(((acc << (5 - bits)) & 31) as u8);
    }
    out
}
const M_CONST: u32 = 0x2bc830a3;

// ------------------------------------------------------------------------------------------------ generator
const SUFFIXES: &[&str] = &["sim", "loc", "rdx", "tdx_2_", "tdx_a_", "tdx_21_", "s", "1", "x1y"];
const ODD_SUFFIXES: &[&str] = &["", "SIM", "Sim", "a:b", "sim ", "sïm", "_", "~", "0123456789012345678901234567890123456789012345678901234567890123456789", "\u{7f}", "é"];

fn some_suffix(rng: &mut Rng) -> String {
    if rng.chance(1, 8) {
        rng.pick(ODD_SUFFIXES).to_string()
    } else {
        rng.pick(SUFFIXES).to_string()
    }
}

fn some_body(rng: &mut Rng, n: usize) -> Vec<u8> {
    match rng.below(6) {
        0 => vec![0; n],
        1 => vec![0xff; n],
        _ => rng.bytes(n),
    }
}

fn some_data(rng: &mut Rng) -> Vec<u8> {
    let ents = entity_bytes();
    let first = if rng.chance(9, 10) { *rng.pick(&ents) } else { rng.next() as u8 };
    let n = match rng.below(10) {
        0 => 0,
        1 => *rng.pick(&[1usize, 2, 5, 28, 30, 31, 40]) - 1,
        _ => 29,
    };
    let mut v = vec![first];
    v.extend(some_body(rng, n));
    v
}

fn some_unicode(rng: &mut Rng, n: usize) -> String {
    const POOL: &[char] = &[
        'a', 'z', 'A', 'Z', '0', '9', '_', '#', '<', '>', '[', ']', '{', '}', '-', ':', '1', '+', ' ', '\t', '\n', '\0', '\u{7f}', '\u{80}', 'é', 'ß', 'İ', 'ǅ', '٣',
        '\u{0301}', '❤', '\u{ffff}', '😀', '\u{10ffff}', 'f', 'F', 'q', 'p',
    ];
    (0..n).map(|_| if rng.chance(1, 5) { char::from_u32(rng.below(0x11_0000) as u32).unwrap_or('x') } else { *rng.pick(POOL) }).collect()
}

fn some_id(rng: &mut Rng) -> NonFungibleLocalId {
    const CS: &[u8] = b"abcdefghijklmnopqrstuvwxyzABCDEFGHIJKLMNOPQRSTUVWXYZ0123456789_";
    match rng.below(4) {
        0 => {
            let n = *rng.pick(&[1usize, 2, 10, 63, 64]);
            let n = if rng.chance(1, 2) { n } else { 1 + rng.below(64) as usize };
            NonFungibleLocalId::string((0..n).map(|_| *rng.pick(CS) as char).collect::<String>()).unwrap()
        }
        1 => NonFungibleLocalId::integer(match rng.below(6) {
            0 => 0,
            1 => u64::MAX,
            2 => rng.below(12),
            3 => 10u64.pow(rng.below(20) as u32),
            4 => 10u64.pow(rng.below(20) as u32).wrapping_sub(1),
            _ => rng.next() >> rng.below(64),
        }),
        2 => {
            let n = if rng.chance(1, 2) { *rng.pick(&[1usize, 2, 32, 63, 64]) } else { 1 + rng.below(64) as usize };
            NonFungibleLocalId::bytes(some_body(rng, n)).unwrap()
        }
        _ => NonFungibleLocalId::ruid(some_body(rng, 32).try_into().unwrap()),
    }
}

fn mutate(rng: &mut Rng, s: &str) -> String {
    let mut cs: Vec<char> = s.chars().collect();
    match rng.below(12) {
        0 => return s.to_uppercase(),
        1 => return s.to_lowercase(),
        2 if !cs.is_empty() => {
            let i = rng.below(cs.len() as u64) as usize;
            cs[i] = if cs[i].is_ascii_lowercase() { cs[i].to_ascii_uppercase() } else { cs[i].to_ascii_lowercase() };
        }
        3 if !cs.is_empty() => {
            let i = rng.below(cs.len() as u64) as usize;
            cs[i] = *rng.pick(&['q', 'p', '1', 'b', 'i', 'o', '0', '-', '#', 'é', 'F', 'g', ':']);
        }
        4 if !cs.is_empty() => {
            let i = rng.below(cs.len() as u64) as usize;
            cs.remove(i);
        }
        5 => {
            let i = rng.below(cs.len() as u64 + 1) as usize;
            cs.insert(i, *rng.pick(&['q', '0', '1', '-', 'a', 'é', ' ', '#', '<', ':']));
        }
        6 if cs.len() > 1 => {
            let i = rng.below(cs.len() as u64 - 1) as usize;
            cs.swap(i, i + 1);
        }
        7 => {
            let k = rng.below(cs.len() as u64 + 1) as usize;
            cs.truncate(k);
        }
        8 if !cs.is_empty() => {
            cs.remove(0);
        }
        9 => {
            cs.pop();
        }
        _ => {}
    }
    cs.into_iter().collect()
}

fn id_text_variants(rng: &mut Rng) -> String {
    // texts close to valid local ids
    let digits = |rng: &mut Rng, n: usize| -> String { (0..n).map(|_| (b'0' + rng.below(10) as u8) as char).collect() };
    match rng.below(16) {
        0 => {
            let n = *rng.pick(&[0usize, 1, 2, 19, 20, 21, 25]);
            format!("#{}#", digits(rng, n))
        }
        1 => {
            let n = rng.below(4) as usize;
            format!("#0{}#", digits(rng, n))
        }
        2 => {
            let n = 1 + rng.below(4) as usize;
            format!("#+{}#", digits(rng, n))
        }
        3 => rng.pick(&["#18446744073709551615#", "#18446744073709551616#", "#18446744073709551614#", "#99999999999999999999#", "#10000000000000000000#", "#0#", "#00#", "##", "#", "#-1#", "# 1#", "#1 #", "#١#", "#1١#", "#1_000#", "#1e3#", "#0x10#"]).to_string(),
        4 => rng.pick(&["<>", "<", ">", "<a", "a>", "<<>>", "<a>b>", "<é>", "< >", "<a b>", "<_>", "<#>", "[]", "[", "]", "[0]", "[0g]", "[00]", "[AB]", "[aB]", "[é]", "{}", "{", "}", "{-}", "{---}", ""]).to_string(),
        5 => {
            let n = *rng.pick(&[63usize, 64, 65, 66, 100]);
            format!("<{}>", "a".repeat(n))
        }
        6 => {
            let n = *rng.pick(&[63usize, 64, 65, 66]);
            format!("[{}]", "ab".repeat(n))
        }
        7 => {
            // RUID-shaped
            let h = |rng: &mut Rng| -> String { (0..16).map(|_| *rng.pick(&['0', '1', '9', 'a', 'f', 'A', 'F', 'c']) ).collect() };
            let base = format!("{{{}-{}-{}-{}}}", h(rng), h(rng), h(rng), h(rng));
            if rng.chance(1, 2) { base } else { mutate(rng, &base) }
        }
        8 => {
            // 67 chars between braces with hyphens at 16/33/50 but extra hyphens / non-hex / multibyte elsewhere
            let mut cs: Vec<char> = (0..67).map(|_| *rng.pick(&['0', 'a', 'f', '-', 'g', 'é', 'F', '7'])).collect();
            cs[16] = '-';
            cs[33] = '-';
            cs[50] = '-';
            format!("{{{}}}", cs.into_iter().collect::<String>())
        }
        9 => {
            let n = rng.below(12) as usize;
            format!("<{}>", some_unicode(rng, n))
        }
        10 => {
            let n = rng.below(8) as usize;
            format!("#{}#", some_unicode(rng, n))
        }
        11 => {
            let n = rng.below(8) as usize;
            format!("[{}]", some_unicode(rng, n))
        }
        12 => {
            let n = *rng.pick(&[0usize, 1, 66, 67, 68]);
            format!("{{{}}}", some_unicode(rng, n))
        }
        13 => {
            // 3-byte chars inside <>: byte length beyond 64 with few chars
            let n = *rng.pick(&[21usize, 22, 32, 33]);
            format!("<{}>", "❤".repeat(n))
        }
        _ => {
            let n = rng.below(10) as usize;
            some_unicode(rng, n)
        }
    }
}

impl Area for A {
    fn gen(&self, rng: &mut Rng, n: usize, out: &mut dyn Write) {
        let ents = entity_bytes();
        for _ in 0..n {
            match rng.below(24) {
                0..=2 => {
                    let s = some_suffix(rng);
                    writeln!(out, "enc {} {}", hexs(&s), hex(&some_data(rng))).unwrap()
                }
                3..=8 => {
                    // decode / typed decode of: valid text, valid text of another network, forged HRP, wrong variant,
                    // non-zero padding, mutated text, arbitrary string
                    let s = some_suffix(rng);
                    let data = some_data(rng);
                    let enc_suffix = if rng.chance(1, 5) { some_suffix(rng) } else { s.clone() };
                    let text = match rng.below(9) {
                        0..=2 => AddressBech32Encoder::new(&net(&enc_suffix)).encode(&data).unwrap_or_else(|_| "x".into()),
                        3 => {
                            // HRP of another entity type over this data
                            let other = EntityType::from_repr(*rng.pick(&ents)).unwrap();
                            let hs: HrpSet = (&net(&enc_suffix)).into();
                            raw_bech32(hs.get_entity_hrp(&other), &to5(&data), M_CONST)
                        }
                        4 => {
                            // plain Bech32 (not m) with the right HRP
                            let hs: HrpSet = (&net(&enc_suffix)).into();
                            let hrp = EntityType::from_repr(data[0]).map(|e| hs.get_entity_hrp(&e).to_string()).unwrap_or("account_sim".into());
                            raw_bech32(&hrp, &to5(&data), 1)
                        }
                        5 => {
                            // arbitrary 5-bit payload (padding bits set, trailing groups, empty payload)
                            let hs: HrpSet = (&net(&enc_suffix)).into();
                            let hrp = EntityType::from_repr(data[0]).map(|e| hs.get_entity_hrp(&e).to_string()).unwrap_or("account_sim".into());
                            let mut d5 = to5(&data);
                            match rng.below(4) {
                                0 => {
                                    if let Some(l) = d5.last_mut() {
                                        *l |= 1 << rng.below(3)
                                    }
                                }
                                1 => d5.push(0),
                                2 => d5.clear(),
                                _ => d5.truncate(rng.below(4) as usize),
                            }
                            raw_bech32(&hrp, &d5, M_CONST)
                        }
                        6 | 7 => {
                            let t = AddressBech32Encoder::new(&net(&enc_suffix)).encode(&data).unwrap_or_else(|_| "x1".into());
                            mutate(rng, &t)
                        }
                        _ => {
                            let n = rng.below(40) as usize;
                            some_unicode(rng, n)
                        }
                    };
                    if rng.chance(2, 3) {
                        writeln!(out, "dec {} {}", hexs(&s), hexs(&text)).unwrap()
                    } else {
                        // half of the time a class that accepts this entity byte (when there is one)
                        let mut full = data.clone();
                        full.resize(NodeId::LENGTH, 0);
                        let fitting: Vec<&str> = KINDS.iter().copied().filter(|k| kind_accepts(k, &full)).collect();
                        let kind = if !fitting.is_empty() && rng.chance(1, 2) { *rng.pick(&fitting) } else { *rng.pick(KINDS) };
                        writeln!(out, "typed {} {} {}", kind, hexs(&s), hexs(&text)).unwrap()
                    }
                }
                9..=12 => {
                    let t = if rng.chance(1, 3) {
                        let t = some_id(rng).to_string();
                        if rng.chance(1, 2) { t } else { mutate(rng, &t) }
                    } else {
                        id_text_variants(rng)
                    };
                    writeln!(out, "nfparse {}", hexs(&t)).unwrap()
                }
                13 | 14 => {
                    let op = if rng.chance(1, 2) { "nfprint" } else { "nfenc" };
                    if rng.chance(3, 4) {
                        writeln!(out, "{} {}", op, id_repr(&some_id(rng))).unwrap()
                    } else {
                        // constructor arguments that may be rejected
                        match rng.below(3) {
                            0 => {
                                let n = *rng.pick(&[0usize, 1, 5, 64, 65]);
                                writeln!(out, "{} s:{}", op, hexs(&some_unicode(rng, n))).unwrap()
                            }
                            1 => {
                                let n = *rng.pick(&[0usize, 1, 64, 65, 100]);
                                writeln!(out, "{} b:{}", op, hex(&rng.bytes(n))).unwrap()
                            }
                            _ => writeln!(out, "{} s:{}", op, hexs(&"a".repeat(*rng.pick(&[0usize, 1, 64, 65])))).unwrap(),
                        }
                    }
                }
                15..=17 => {
                    let b = match rng.below(4) {
                        0 | 1 => {
                            let mut v = some_id(rng).to_vec();
                            match rng.below(5) {
                                0 => {
                                    let k = rng.below(v.len() as u64 + 1) as usize;
                                    v.truncate(k)
                                }
                                1 => {
                                    let n = 1 + rng.below(3) as usize;
                                    v.extend(rng.bytes(n))
                                }
                                2 => {
                                    let i = rng.below(v.len() as u64) as usize;
                                    v[i] = rng.next() as u8
                                }
                                _ => {}
                            }
                            v
                        }
                        2 => {
                            // discriminator + size edge cases
                            let d = *rng.pick(&[0u8, 0, 2, 2, 1, 3, 4, 255]);
                            let mut v = vec![d];
                            match rng.below(8) {
                                0 => v.extend([0x00]),
                                1 => v.extend([0x80, 0x00]),
                                2 => v.extend([0x81, 0x00]),
                                3 => v.extend([0xff, 0xff, 0xff, 0x7f]),
                                4 => v.extend([0xff, 0xff, 0xff, 0xff, 0x01]),
                                5 => v.extend([0x41]),
                                6 => v.extend([0x40]),
                                _ => v.extend([0xc0, 0x00]),
                            }
                            let n = *rng.pick(&[0usize, 1, 8, 32, 64, 65, 66]);
                            v.extend(if rng.chance(1, 2) { vec![b'a'; n] } else { rng.bytes(n) });
                            v
                        }
                        _ => {
                            let n = rng.below(12) as usize;
                            rng.bytes(n)
                        }
                    };
                    writeln!(out, "nfdec {}", hex(&b)).unwrap()
                }
                18 | 19 => {
                    let s = some_suffix(rng);
                    let mut node = vec![if rng.chance(5, 6) { *rng.pick(&[93u8, 154]) } else { *rng.pick(&ents) }];
                    node.extend(some_body(rng, 29));
                    writeln!(out, "gidprint {} {} {}", hexs(&s), hex(&node), id_repr(&some_id(rng))).unwrap()
                }
                20..=22 => {
                    let s = some_suffix(rng);
                    let enc_suffix = if rng.chance(1, 6) { some_suffix(rng) } else { s.clone() };
                    let mut node = vec![if rng.chance(5, 6) { *rng.pick(&[93u8, 154]) } else { *rng.pick(&ents) }];
                    node.extend(some_body(rng, 29));
                    let addr = AddressBech32Encoder::new(&net(&enc_suffix)).encode(&node).unwrap_or_else(|_| "resource_sim1".into());
                    let idt = if rng.chance(2, 3) { some_id(rng).to_string() } else { id_text_variants(rng) };
                    let text = match rng.below(14) {
                        0 => format!("{}{}", addr, idt),
                        1 => format!("{}:{}:", addr, idt),
                        2 => format!(":{}:{}", addr, idt),
                        3 => format!("{}::{}", addr, idt),
                        4 => mutate(rng, &format!("{}:{}", addr, idt)),
                        _ => format!("{}:{}", addr, idt),
                    };
                    writeln!(out, "gidparse {} {}", hexs(&s), hexs(&text)).unwrap()
                }
                _ => match rng.below(8) {
                    0 => writeln!(out, "enc zz 00").unwrap(),
                    1 => writeln!(out, "dec 73696d").unwrap(),
                    2 => writeln!(out, "nfparse ff").unwrap(), // not UTF-8
                    3 => writeln!(out, "nfprint i:01").unwrap(),
                    4 => writeln!(out, "nfprint i:18446744073709551616").unwrap(),
                    5 => writeln!(out, "nfenc r:00").unwrap(),
                    6 => writeln!(out, "typed account 73696d 00").unwrap(),
                    _ => writeln!(out, "frob").unwrap(),
                },
            }
        }
    }

    fn runner(&self) -> Box<dyn Runner> {
        Box::new(R)
    }

    fn consts(&self) -> Vec<(String, String)> {
        let chars = |s: &str| -> String {
            let v: Vec<String> = s
                .chars()
                .map(|c| match c {
                    '\'' => "'\\''".to_string(),
                    '\\' => "'\\\\'".to_string(),
                    c if (' '..='~').contains(&c) => format!("'{}'", c),
                    c => format!("Char.ofNat {}", c as u32),
                })
                .collect();
            format!("[{}]", v.join(", "))
        };
        let empty: HrpSet = (&net("")).into();
        let mut rows = vec![];
        let mut format_ok = true;
        for b in entity_bytes() {
            let et = EntityType::from_repr(b).unwrap();
            let prefix = empty.get_entity_hrp(&et).to_string();
            for s in ["sim", "tdx_2_", "x", "rdx"] {
                let hs: HrpSet = (&net(s)).into();
                if hs.get_entity_hrp(&et) != format!("{}{}", prefix, s) {
                    format_ok = false;
                }
            }
            rows.push(format!("({}, {})", b, chars(&prefix)));
        }
        let set = |kind: &str| -> String {
            let v: Vec<String> = (0..=255u8).filter(|b| kind_accepts(kind, &[*b; NodeId::LENGTH])).map(|b| b.to_string()).collect();
            format!("[{}]", v.join(", "))
        };
        // typed addresses must reject every length other than NodeId::LENGTH
        let len_ok = KINDS.iter().all(|k| {
            (0..=255u8).all(|b| !kind_accepts(k, &vec![b; NodeId::LENGTH - 1]) && !kind_accepts(k, &vec![b; NodeId::LENGTH + 1]))
        });
        vec![
            ("ENTITY_TABLE".into(), format!("[{}]\traw\tList (Nat × List Char)", rows.join(", "))),
            ("HRP_IS_PREFIX_PLUS_SUFFIX".into(), (format_ok as u8).to_string()),
            ("TYPED_LENGTH_IS_NODE_ID_LENGTH".into(), (len_ok as u8).to_string()),
            ("PACKAGE_BYTES".into(), format!("{}\traw\tList Nat", set("package"))),
            ("RESOURCE_BYTES".into(), format!("{}\traw\tList Nat", set("resource"))),
            ("COMPONENT_BYTES".into(), format!("{}\traw\tList Nat", set("component"))),
            ("GLOBAL_BYTES".into(), format!("{}\traw\tList Nat", set("global"))),
            ("INTERNAL_BYTES".into(), format!("{}\traw\tList Nat", set("internal"))),
            ("NODE_ID_LENGTH".into(), NodeId::LENGTH.to_string()),
            ("NON_FUNGIBLE_LOCAL_ID_MAX_LENGTH".into(), NON_FUNGIBLE_LOCAL_ID_MAX_LENGTH.to_string()),
        ]
    }
}

// ------------------------------------------------------------------------------------------------ runner + oracle
struct R;

fn nfdec(b: &[u8]) -> Result<(NonFungibleLocalId, usize), DecodeError> {
    let mut d = ScryptoDecoder::new(b, 1);
    let id = NonFungibleLocalId::decode_body_common(&mut d)?;
    Ok((id, b.len() - d.get_offset()))
}

impl Runner for R {
    fn step(&mut self, line: &str) -> Answer {
        let t: Vec<&str> = line.split(' ').collect();
        let bad = || Answer::ok("bad-op");
        match (t[0], t.len()) {
            ("enc", 3) => {
                let (Some(sfx), Some(data)) = (unhexs(t[1]), unhex(t[2])) else { return bad() };
                let n = net(&sfx);
                let r = match catch(|| AddressBech32Encoder::new(&n).encode(&data)) {
                    Ok(r) => r,
                    Err(e) => return Answer::fail("panic", "enc-panic", e),
                };
                match r {
                    Err(e) => Answer::ok(format!("err {}", enc_err(&e))),
                    Ok(text) => {
                        let ans = format!("ok {}", hexs(&text));
                        // addr_roundtrip on the implementation
                        match catch(|| AddressBech32Decoder::new(&n).validate_and_decode(&text)) {
                            Ok(Ok((et, back))) if back == data && et as u8 == data[0] => {}
                            Ok(other) => return Answer::fail(ans, "addr-roundtrip", format!("decode(encode(data)) = {:?}", other.map(|x| hex(&x.1)))),
                            Err(e) => return Answer::fail(ans, "dec-panic", e),
                        }
                        // wrong_network_rejected
                        for other in ["sim", "rdx", "tdx_2_", &format!("{}x", sfx), &format!("x{}", sfx)] {
                            if other == sfx {
                                continue;
                            }
                            match catch(|| AddressBech32Decoder::new(&net(other)).validate_and_decode(&text)) {
                                Ok(Err(AddressBech32DecodeError::InvalidHrp)) => {}
                                Ok(r) => return Answer::fail(ans, "wrong-network-accepted", format!("text of network suffix {:?} gives {:?} under suffix {:?}", sfx, r.map(|x| hex(&x.1)), other)),
                                Err(e) => return Answer::fail(ans, "dec-panic", e),
                            }
                        }
                        // typed addresses accept exactly their entity classes
                        for k in KINDS {
                            let got = typed(k, &AddressBech32Decoder::new(&n), &text).unwrap();
                            let want = kind_accepts(k, &data);
                            if got.is_some() != want || got.as_ref().map_or(false, |g| g != &data) {
                                return Answer::fail(ans, "wrong-entity-typed", format!("{}::try_from_bech32 = {:?} for entity byte {} len {}", k, got.map(|g| hex(&g)), data[0], data.len()));
                            }
                        }
                        Answer::ok(ans)
                    }
                }
            }
            ("dec", 3) => {
                let (Some(sfx), Some(text)) = (unhexs(t[1]), unhexs(t[2])) else { return bad() };
                let n = net(&sfx);
                let r = match catch(|| AddressBech32Decoder::new(&n).validate_and_decode(&text)) {
                    Ok(r) => r,
                    Err(e) => return Answer::fail("panic", "dec-panic", e),
                };
                match r {
                    Err(e) => Answer::ok(format!("err {}", dec_err(&e))),
                    Ok((et, data)) => {
                        let ans = format!("ok {} {}", et as u8, hex(&data));
                        // accepted text is the canonical text up to ASCII case
                        match AddressBech32Encoder::new(&n).encode(&data) {
                            Ok(canon) if canon == text.to_ascii_lowercase() => Answer::ok(ans),
                            other => Answer::fail(ans, "dec-noncanonical", format!("accepted text {:?} but encode(data) = {:?}", text, other)),
                        }
                    }
                }
            }
            ("typed", 4) => {
                let (Some(sfx), Some(text)) = (unhexs(t[2]), unhexs(t[3])) else { return bad() };
                let d = AddressBech32Decoder::new(&net(&sfx));
                let r = match catch(|| typed(t[1], &d, &text)) {
                    Ok(Some(r)) => r,
                    Ok(None) => return bad(),
                    Err(e) => return Answer::fail("panic", "dec-panic", e),
                };
                match r {
                    None => Answer::ok("none"),
                    Some(raw) => {
                        let ans = format!("some {}", hex(&raw));
                        if raw.len() != NodeId::LENGTH || !kind_accepts(t[1], &raw) {
                            return Answer::fail(ans, "wrong-entity-typed", "typed address accepted bytes outside its class");
                        }
                        Answer::ok(ans)
                    }
                }
            }
            ("nfparse", 2) => {
                let Some(text) = unhexs(t[1]) else { return bad() };
                let r = match catch(|| NonFungibleLocalId::from_str(&text)) {
                    Ok(r) => r,
                    Err(e) => return Answer::fail("panic", "nfparse-panic", format!("from_str({:?}) panicked: {}", text, e)),
                };
                match r {
                    Err(e) => Answer::ok(format!("err {}", parse_err(&e))),
                    Ok(id) => {
                        let ans = format!("ok {}", id_repr(&id));
                        let printed = id.to_string();
                        match &id {
                            NonFungibleLocalId::Integer(_) | NonFungibleLocalId::String(_) => {
                                if printed != text {
                                    return Answer::fail(ans, "nf-noncanonical-accepted", format!("{:?} accepted but canonical text is {:?}", text, printed));
                                }
                            }
                            _ => {
                                if printed != text.to_ascii_lowercase() {
                                    return Answer::fail(ans, "nf-noncanonical-accepted", format!("{:?} accepted but canonical text is {:?}", text, printed));
                                }
                            }
                        }
                        if NonFungibleLocalId::from_str(&printed).ok().as_ref() != Some(&id) {
                            return Answer::fail(ans, "nf-text-roundtrip", format!("print/parse of {:?} does not give the id back", printed));
                        }
                        Answer::ok(ans)
                    }
                }
            }
            ("nfprint", 2) | ("nfenc", 2) => {
                let Some(r) = id_of(t[1]) else { return bad() };
                let id = match r {
                    Ok(id) => id,
                    Err(e) => return Answer::ok(format!("err {}", content_err(&e))),
                };
                if t[0] == "nfprint" {
                    let text = id.to_string();
                    let ans = format!("ok {}", hexs(&text));
                    match catch(|| NonFungibleLocalId::from_str(&text)) {
                        Ok(Ok(back)) if back == id => Answer::ok(ans),
                        Ok(other) => Answer::fail(ans, "nf-text-roundtrip", format!("from_str(to_string(id)) = {:?}", other)),
                        Err(e) => Answer::fail(ans, "nfparse-panic", e),
                    }
                } else {
                    let body = id.to_vec();
                    let ans = format!("ok {}", hex(&body));
                    match catch(|| nfdec(&body)) {
                        Ok(Ok((back, 0))) if back == id => {}
                        Ok(other) => return Answer::fail(ans, "nf-bin-roundtrip", format!("decode(encode(id)) = {:?}", other)),
                        Err(e) => return Answer::fail(ans, "nfdec-panic", e),
                    }
                    // the same through the full Scrypto and Manifest SBOR payloads
                    let ok1 = scrypto_decode::<NonFungibleLocalId>(&scrypto_encode(&id).unwrap()).ok().as_ref() == Some(&id);
                    let ok2 = manifest_decode::<NonFungibleLocalId>(&manifest_encode(&id).unwrap()).ok().as_ref() == Some(&id);
                    if !ok1 || !ok2 {
                        return Answer::fail(ans, "nf-bin-roundtrip", "scrypto/manifest payload round trip failed");
                    }
                    Answer::ok(ans)
                }
            }
            ("nfdec", 2) => {
                let Some(b) = unhex(t[1]) else { return bad() };
                let r = match catch(|| nfdec(&b)) {
                    Ok(r) => r,
                    Err(e) => return Answer::fail("panic", "nfdec-panic", e),
                };
                match r {
                    Err(DecodeError::BufferUnderflow { .. }) => Answer::ok("err underflow"),
                    Err(DecodeError::InvalidSize) => Answer::ok("err size"),
                    Err(DecodeError::InvalidCustomValue) => Answer::ok("err custom"),
                    Err(e) => Answer::ok(format!("err other:{:?}", e)),
                    Ok((id, rem)) => {
                        let ans = format!("ok {} {}", id_repr(&id), rem);
                        let again = id.to_vec();
                        if again[..] != b[..b.len() - rem] {
                            return Answer::fail(ans, "nf-bin-noncanonical", "accepted bytes are not the encoding of the decoded id");
                        }
                        Answer::ok(ans)
                    }
                }
            }
            ("gidprint", 4) => {
                let (Some(sfx), Some(node), Some(idr)) = (unhexs(t[1]), unhex(t[2]), id_of(t[3])) else { return bad() };
                if node.len() != NodeId::LENGTH {
                    return bad();
                }
                let Ok(res) = ResourceAddress::try_from(&node[..]) else { return Answer::ok("err notresource") };
                let id = match idr {
                    Ok(id) => id,
                    Err(e) => return Answer::ok(format!("err {}", content_err(&e))),
                };
                let n = net(&sfx);
                let gid = NonFungibleGlobalId::new(res, id.clone());
                // printing panics when the network's HRP is not encodable (format! on a failing Display); recorded, not a parsing panic
                let text = match catch(|| gid.to_canonical_string(&AddressBech32Encoder::new(&n))) {
                    Ok(t) => t,
                    Err(_) => return Answer::ok("panic"),
                };
                let ans = format!("ok {}", hexs(&text));
                match catch(|| NonFungibleGlobalId::try_from_canonical_string(&AddressBech32Decoder::new(&n), &text)) {
                    Ok(Ok(back)) if back == gid => Answer::ok(ans),
                    Ok(other) => {
                        if sfx.contains(':') {
                            // a network suffix containing ':' makes the text ambiguous: outside the property (see assumptions)
                            Answer::ok(ans)
                        } else {
                            Answer::fail(ans, "gid-roundtrip", format!("parse(print(gid)) = {:?}", other))
                        }
                    }
                    Err(e) => Answer::fail(ans, "gidparse-panic", e),
                }
            }
            ("gidparse", 3) => {
                let (Some(sfx), Some(text)) = (unhexs(t[1]), unhexs(t[2])) else { return bad() };
                let n = net(&sfx);
                let r = match catch(|| NonFungibleGlobalId::try_from_canonical_string(&AddressBech32Decoder::new(&n), &text)) {
                    Ok(r) => r,
                    Err(e) => return Answer::fail("panic", "gidparse-panic", format!("{:?}: {}", text, e)),
                };
                match r {
                    Err(ParseNonFungibleGlobalIdError::RequiresTwoParts) => Answer::ok("err parts"),
                    Err(ParseNonFungibleGlobalIdError::InvalidResourceAddress) => Answer::ok("err addr"),
                    Err(ParseNonFungibleGlobalIdError::InvalidNonFungibleLocalId(e)) => Answer::ok(format!("err id:{}", parse_err(&e))),
                    Ok(gid) => {
                        let ans = format!("ok {} {}", hex(&gid.resource_address().to_vec()), id_repr(gid.local_id()));
                        let printed = gid.to_canonical_string(&AddressBech32Encoder::new(&n));
                        if printed.to_ascii_lowercase() != text.to_ascii_lowercase() {
                            return Answer::fail(ans, "gid-noncanonical-accepted", format!("{:?} accepted but canonical is {:?}", text, printed));
                        }
                        Answer::ok(ans)
                    }
                }
            }
            _ => bad(),
        }
    }
}

fn main() {
    main_with(&[("c28", &A)]);
}
