//! C17 — the state root commits exactly to the current substates (area `c17`),
//!       BLAKE2b-256 validation of the Lean implementation (area `c17h`),
//! C18 — pruning never removes nodes of the current state tree (area `c18`).
//!
//! All areas drive the real `put_at_next_version` / `list_substate_hashes_at_version` on a real
//! `TypedInMemoryTreeStore` (pruning on or off), through a thin recording wrapper that forwards
//! every `TreeStore` call unchanged and remembers what was inserted / reported stale.
//!
//! line protocol
//!   reset <0|1>                    new empty store, pruning off/on
//!   commit <tok>*                  tok = e:<entity key hex> | p:<partition num>:<d|r> | s:<sort key hex>:<value hex> | x:<sort key hex>
//!   list                           (c17) list_substate_hashes_at_version(current)
//!   h <hex>                        (c17h) radix_common::crypto::hash
use harness::util::*;
use radix_common::prelude::*;
use radix_substate_store_impls::state_tree::tree_store::*;
use radix_substate_store_impls::state_tree::{list_substate_hashes_at_version, put_at_next_version};
use radix_substate_store_interface::interface::*;
use std::cell::RefCell;
use std::collections::{BTreeMap, BTreeSet};
use std::io::Write;

// ------------------------------------------------------------------------------------ parsing
fn parse_updates(toks: &[&str]) -> Option<DatabaseUpdates> {
    let mut du = DatabaseUpdates::default();
    let mut cur_e: Option<Vec<u8>> = None;
    let mut cur_p: Option<u8> = None;
    for tok in toks {
        let f: Vec<&str> = tok.split(':').collect();
        match (f[0], f.len()) {
            ("e", 2) => {
                let ek = unhex(f[1])?;
                if du.node_updates.contains_key(&ek) {
                    return None;
                }
                du.node_updates.insert(ek.clone(), NodeDatabaseUpdates::default());
                cur_e = Some(ek);
                cur_p = None;
            }
            ("p", 3) => {
                if f[1].is_empty() || !f[1].bytes().all(|c| c.is_ascii_digit()) || f[1].len() > 6 {
                    return None;
                }
                let pn: u32 = f[1].parse().ok()?;
                if pn >= 256 {
                    return None;
                }
                let e = cur_e.as_ref()?;
                let nu = du.node_updates.get_mut(e)?;
                if nu.partition_updates.contains_key(&(pn as u8)) {
                    return None;
                }
                let pu = match f[2] {
                    "d" => PartitionDatabaseUpdates::Delta { substate_updates: index_map_new() },
                    "r" => PartitionDatabaseUpdates::Reset { new_substate_values: index_map_new() },
                    _ => return None,
                };
                nu.partition_updates.insert(pn as u8, pu);
                cur_p = Some(pn as u8);
            }
            ("s", 3) => {
                let sk = DbSortKey(unhex(f[1])?);
                let val = unhex(f[2])?;
                let pu = du.node_updates.get_mut(cur_e.as_ref()?)?.partition_updates.get_mut(&cur_p?)?;
                match pu {
                    PartitionDatabaseUpdates::Delta { substate_updates } => {
                        if substate_updates.contains_key(&sk) {
                            return None;
                        }
                        substate_updates.insert(sk, DatabaseUpdate::Set(val));
                    }
                    PartitionDatabaseUpdates::Reset { new_substate_values } => {
                        if new_substate_values.contains_key(&sk) {
                            return None;
                        }
                        new_substate_values.insert(sk, val);
                    }
                }
            }
            ("x", 2) => {
                let sk = DbSortKey(unhex(f[1])?);
                let pu = du.node_updates.get_mut(cur_e.as_ref()?)?.partition_updates.get_mut(&cur_p?)?;
                match pu {
                    PartitionDatabaseUpdates::Delta { substate_updates } => {
                        if substate_updates.contains_key(&sk) {
                            return None;
                        }
                        substate_updates.insert(sk, DatabaseUpdate::Delete);
                    }
                    PartitionDatabaseUpdates::Reset { .. } => return None,
                }
            }
            _ => return None,
        }
    }
    Some(du)
}

// ------------------------------------------------------------------------------------ shadow state (oracle side)
/// (entity key, partition) -> sort key -> value : what the substate database would contain
type Content = BTreeMap<(Vec<u8>, u8), BTreeMap<Vec<u8>, Vec<u8>>>;

fn apply_content(c: &mut Content, du: &DatabaseUpdates) {
    for (nk, nu) in &du.node_updates {
        for (pn, pu) in &nu.partition_updates {
            let key = (nk.clone(), *pn);
            match pu {
                PartitionDatabaseUpdates::Delta { substate_updates } => {
                    for (sk, u) in substate_updates {
                        match u {
                            DatabaseUpdate::Set(v) => {
                                c.entry(key.clone()).or_default().insert(sk.0.clone(), v.clone());
                            }
                            DatabaseUpdate::Delete => {
                                if let Some(p) = c.get_mut(&key) {
                                    p.remove(&sk.0);
                                }
                            }
                        }
                    }
                }
                PartitionDatabaseUpdates::Reset { new_substate_values } => {
                    c.remove(&key);
                    for (sk, v) in new_substate_values {
                        c.entry(key.clone()).or_default().insert(sk.0.clone(), v.clone());
                    }
                }
            }
            if c.get(&key).map(|p| p.is_empty()).unwrap_or(false) {
                c.remove(&key);
            }
        }
    }
}

const ZERO: [u8; 32] = [0u8; 32];

/// From-scratch sparse-Merkle commitment over `(key, value hash)` pairs: empty -> 0^32, singleton ->
/// H(key ++ value_hash), otherwise H(commit(keys with next bit 0) ++ commit(keys with next bit 1)).
/// `None`: the key set is not prefix-free (the commitment is not defined).
fn smt(entries: &[(Vec<u8>, [u8; 32])], depth: usize) -> Option<[u8; 32]> {
    match entries.len() {
        0 => Some(ZERO),
        1 => {
            let mut m = entries[0].0.clone();
            m.extend_from_slice(&entries[0].1);
            Some(hash(m).0)
        }
        _ => {
            let mut l = vec![];
            let mut r = vec![];
            for e in entries {
                if e.0.len() * 8 <= depth {
                    return None;
                }
                let bit = (e.0[depth / 8] >> (7 - depth % 8)) & 1;
                if bit == 0 {
                    l.push(e.clone());
                } else {
                    r.push(e.clone());
                }
            }
            let lh = smt(&l, depth + 1)?;
            let rh = smt(&r, depth + 1)?;
            let mut m = lh.to_vec();
            m.extend_from_slice(&rh);
            Some(hash(m).0)
        }
    }
}

/// the three nested commitments (substates of a partition, partitions of an entity, entities)
fn commitment(c: &Content) -> Option<[u8; 32]> {
    let mut per_entity: BTreeMap<Vec<u8>, Vec<(Vec<u8>, [u8; 32])>> = BTreeMap::new();
    for ((ek, pn), subs) in c {
        let entries: Vec<(Vec<u8>, [u8; 32])> = subs.iter().map(|(sk, v)| (sk.clone(), hash(v).0)).collect();
        let root = smt(&entries, 0)?;
        per_entity.entry(ek.clone()).or_default().push((vec![*pn], root));
    }
    let mut top = vec![];
    for (ek, parts) in per_entity {
        top.push((ek, smt(&parts, 0)?));
    }
    smt(&top, 0)
}

// ------------------------------------------------------------------------------------ recording wrapper
type NK = (u64, Vec<u8>); // (version, nibbles)

fn nk(k: &StoredTreeNodeKey) -> NK {
    (k.version(), k.nibble_path().nibbles().map(u8::from).collect())
}
fn nibhex(n: &[u8]) -> String {
    if n.is_empty() {
        "-".to_string()
    } else {
        n.iter().map(|x| char::from_digit(*x as u32, 16).unwrap()).collect()
    }
}
fn show_key(k: &NK) -> String {
    format!("{}.{}", k.0, nibhex(&k.1))
}

struct Rec<'a> {
    inner: &'a TypedInMemoryTreeStore,
    /// stale parts in the order they were reported: (is_subtree, key)
    stale: RefCell<Vec<(bool, NK)>>,
    /// every single node covered by a reported stale part (a Subtree is expanded on the store content
    /// at the moment it is reported)
    stale_nodes: RefCell<Vec<NK>>,
    inserted: RefCell<Vec<NK>>,
    /// insert_node on a key that already holds a node
    overwrites: RefCell<Vec<NK>>,
}

impl<'a> ReadableTreeStore for Rec<'a> {
    fn get_node(&self, key: &StoredTreeNodeKey) -> Option<TreeNode> {
        self.inner.get_node(key)
    }
}

impl<'a> WriteableTreeStore for Rec<'a> {
    fn insert_node(&self, key: StoredTreeNodeKey, node: TreeNode) {
        if self.inner.tree_nodes.borrow().contains_key(&key) {
            self.overwrites.borrow_mut().push(nk(&key));
        }
        self.inserted.borrow_mut().push(nk(&key));
        self.inner.insert_node(key, node)
    }
    fn associate_substate(&self, a: &StoredTreeNodeKey, b: &DbPartitionKey, c: &DbSortKey, d: AssociatedSubstateValue) {
        self.inner.associate_substate(a, b, c, d)
    }
    fn record_stale_tree_part(&self, part: StaleTreePart) {
        match &part {
            StaleTreePart::Node(k) => {
                self.stale.borrow_mut().push((false, nk(k)));
                self.stale_nodes.borrow_mut().push(nk(k));
            }
            StaleTreePart::Subtree(k) => {
                self.stale.borrow_mut().push((true, nk(k)));
                // expand on the current content
                let nodes = self.inner.tree_nodes.borrow();
                let mut queue = vec![k.clone()];
                while let Some(q) = queue.pop() {
                    if let Some(n) = nodes.get(&q) {
                        self.stale_nodes.borrow_mut().push(nk(&q));
                        if let TreeNodeV1::Internal(i) = n {
                            for ch in &i.children {
                                queue.push(q.gen_child_node_key(ch.version, ch.nibble));
                            }
                        }
                    }
                }
            }
        }
        self.inner.record_stale_tree_part(part)
    }
}

fn show_node(n: &TreeNode) -> String {
    match n {
        TreeNodeV1::Null => "N".to_string(),
        TreeNodeV1::Leaf(l) => {
            let suf: Vec<u8> = l.key_suffix.nibbles().map(u8::from).collect();
            format!("L.{}.{}.{}", nibhex(&suf), hex(&l.value_hash.0), l.last_hash_change_version)
        }
        TreeNodeV1::Internal(i) => {
            let mut s = "I".to_string();
            for ch in &i.children {
                s.push_str(&format!("|{:x},{},{},{}", u8::from(ch.nibble), ch.version, hex(&ch.hash.0), if ch.is_leaf { 1 } else { 0 }));
            }
            s
        }
    }
}

fn show_store(store: &TypedInMemoryTreeStore) -> String {
    let nodes = store.tree_nodes.borrow();
    let mut all: Vec<(NK, String)> = nodes.iter().map(|(k, n)| (nk(k), show_node(n))).collect();
    all.sort();
    let content = if all.is_empty() { "-".to_string() } else { all.iter().map(|(k, n)| format!("{}={}", show_key(k), n)).collect::<Vec<_>>().join(";") };
    let dig = hash(content.as_bytes()).0;
    let keys = if all.is_empty() { "-".to_string() } else { all.iter().map(|(k, _)| show_key(k)).collect::<Vec<_>>().join(",") };
    format!("nodes={} dig={} keys={}", all.len(), hex(&dig[..8]), keys)
}

// ------------------------------------------------------------------------------------ walking the real store (C18 oracle)
fn path_of(bytes: &[u8]) -> NibblePath {
    NibblePath::new_even(bytes.to_vec())
}

fn nibbles_to_bytes(n: &[u8]) -> Option<Vec<u8>> {
    if n.len() % 2 != 0 {
        return None;
    }
    Some(n.chunks(2).map(|c| (c[0] << 4) | c[1]).collect())
}

/// Walk one tier from `root`; `prefix_nibbles` = number of nibbles of the tier prefix. Collects every
/// visited node key in `reach` and every leaf as (full local key bytes, value hash, payload).
fn walk_tier(
    store: &TypedInMemoryTreeStore,
    root: StoredTreeNodeKey,
    prefix_nibbles: usize,
    reach: &mut BTreeSet<NK>,
    leaves: &mut Vec<(Vec<u8>, Hash, u64)>,
) -> Result<(), String> {
    let nodes = store.tree_nodes.borrow();
    let mut stack = vec![root];
    while let Some(k) = stack.pop() {
        let Some(n) = nodes.get(&k) else {
            return Err(format!("node {} referenced from the current root is not stored", show_key(&nk(&k))));
        };
        reach.insert(nk(&k));
        match n {
            TreeNodeV1::Null => {}
            TreeNodeV1::Internal(i) => {
                for ch in i.children.iter().rev() {
                    stack.push(k.gen_child_node_key(ch.version, ch.nibble));
                }
            }
            TreeNodeV1::Leaf(l) => {
                let mut full: Vec<u8> = k.nibble_path().nibbles().map(u8::from).skip(prefix_nibbles).collect();
                full.extend(l.key_suffix.nibbles().map(u8::from));
                let bytes = nibbles_to_bytes(&full).ok_or_else(|| "leaf key with an odd number of nibbles".to_string())?;
                leaves.push((bytes, l.value_hash, l.last_hash_change_version));
            }
        }
    }
    Ok(())
}

/// Full read of the state at `version` directly from `tree_nodes` (independent of the repo's iterators).
fn walk_all(store: &TypedInMemoryTreeStore, version: u64) -> Result<(BTreeSet<NK>, BTreeMap<(Vec<u8>, u8), BTreeMap<Vec<u8>, Hash>>), String> {
    let mut reach = BTreeSet::new();
    let mut out = BTreeMap::new();
    let mut entities = vec![];
    walk_tier(store, StoredTreeNodeKey::new(version, path_of(&[])), 0, &mut reach, &mut entities)?;
    for (ek, _h, pv) in entities {
        let mut pfx = ek.clone();
        pfx.push(b'_');
        let mut parts = vec![];
        walk_tier(store, StoredTreeNodeKey::new(pv, path_of(&pfx)), pfx.len() * 2, &mut reach, &mut parts)?;
        for (pk, _h, sv) in parts {
            if pk.len() != 1 {
                return Err("partition-tier leaf key is not one byte".to_string());
            }
            let mut spfx = pfx.clone();
            spfx.push(pk[0]);
            spfx.push(b'_');
            let mut subs = vec![];
            walk_tier(store, StoredTreeNodeKey::new(sv, path_of(&spfx)), spfx.len() * 2, &mut reach, &mut subs)?;
            let m: BTreeMap<Vec<u8>, Hash> = subs.into_iter().map(|(sk, h, _)| (sk, h)).collect();
            out.insert((ek.clone(), pk[0]), m);
        }
    }
    Ok((reach, out))
}

// ------------------------------------------------------------------------------------ runner
#[derive(PartialEq, Clone, Copy)]
enum Mode {
    C17,
    C18,
}

struct Run {
    mode: Mode,
    store: TypedInMemoryTreeStore,
    version: Option<u64>,
    content: Content,
    poisoned: bool,
    /// every node ever reported stale: (node, version of the commit that reported it)
    dead: Vec<(NK, u64)>,
    /// nodes reachable from the previous root
    prev_reach: BTreeSet<NK>,
}

impl Run {
    fn new(mode: Mode) -> Run {
        Run { mode, store: TypedInMemoryTreeStore::new(), version: None, content: Content::new(), poisoned: false, dead: vec![], prev_reach: BTreeSet::new() }
    }

    fn commit(&mut self, toks: &[&str]) -> Answer {
        let Some(du) = parse_updates(toks) else {
            return Answer::ok("bad-op");
        };
        if self.poisoned {
            return Answer::ok("poisoned");
        }
        let before_keys: BTreeSet<NK> = self.store.tree_nodes.borrow().keys().map(nk).collect();
        let rec = Rec { inner: &self.store, stale: RefCell::new(vec![]), stale_nodes: RefCell::new(vec![]), inserted: RefCell::new(vec![]), overwrites: RefCell::new(vec![]) };
        let cur = self.version;
        let r = catch(|| put_at_next_version(&rec, cur, &du));
        let root = match r {
            Err(_) => {
                self.poisoned = true;
                return Answer::ok("panic");
            }
            Ok(h) => h,
        };
        let new_version = cur.unwrap_or(0) + 1;
        self.version = Some(new_version);
        apply_content(&mut self.content, &du);
        let stale = rec.stale.into_inner();
        let stale_nodes = rec.stale_nodes.into_inner();
        let inserted = rec.inserted.into_inner();
        let overwrites = rec.overwrites.into_inner();

        match self.mode {
            Mode::C17 => {
                let ans = format!("root={}", hex(&root.0));
                // property oracle: the root is the from-scratch commitment of the current content
                match commitment(&self.content) {
                    Some(exp) => {
                        if exp != root.0 {
                            return Answer::fail(ans, "root-mismatch", format!("root {} is not the from-scratch commitment {} of the {} current partitions", hex(&root.0), hex(&exp), self.content.len()));
                        }
                    }
                    None => {} // key set not prefix-free: commitment undefined, no verdict
                }
                if self.content.is_empty() && root.0 != ZERO {
                    return Answer::fail(ans, "empty-root-nonzero", "empty state with a non-zero root");
                }
                Answer::ok(ans)
            }
            Mode::C18 => {
                let mut st: Vec<(u8, NK)> = stale.iter().map(|(sub, k)| (if *sub { 1 } else { 0 }, k.clone())).collect();
                st.sort();
                let st_s = if st.is_empty() { "-".to_string() } else { st.iter().map(|(t, k)| format!("{}{}", if *t == 0 { "N" } else { "S" }, show_key(k))).collect::<Vec<_>>().join(",") };
                let ans = format!("root={} {} stale={}", hex(&root.0[..4]), show_store(&self.store), st_s);
                // property oracle
                if let Some(k) = overwrites.first() {
                    return Answer::fail(ans, "insert-overwrites-node", format!("insert_node on the already stored key {}", show_key(k)));
                }
                if let Some(k) = inserted.iter().find(|k| k.0 != new_version) {
                    return Answer::fail(ans, "insert-not-new-version", format!("inserted key {} does not carry the new version {}", show_key(k), new_version));
                }
                // the per-commit facts of the C18 kernel theorem (`StepOK`), on the real store
                if let Some(k) = stale_nodes.iter().find(|k| k.0 >= new_version) {
                    return Answer::fail(ans, "stale-not-older", format!("stale node {} does not have an older version than {}", show_key(k), new_version));
                }
                let after_keys: BTreeSet<NK> = self.store.tree_nodes.borrow().keys().map(nk).collect();
                let stale_set: BTreeSet<NK> = stale_nodes.iter().cloned().collect();
                let inserted_set: BTreeSet<NK> = inserted.iter().cloned().collect();
                if let Some(k) = before_keys.union(&inserted_set).find(|k| !after_keys.contains(*k) && !stale_set.contains(*k)) {
                    return Answer::fail(ans, "pruned-not-stale", format!("node {} disappeared from the store without being reported stale", show_key(k)));
                }
                if let Some(k) = after_keys.iter().find(|k| !before_keys.contains(*k) && !inserted_set.contains(*k)) {
                    return Answer::fail(ans, "store-gained-unknown-node", format!("node {} appeared without insert_node", show_key(k)));
                }
                for k in stale_nodes {
                    self.dead.push((k, new_version));
                }
                let (reach, read) = match walk_all(&self.store, new_version) {
                    Ok(x) => x,
                    Err(e) => return Answer::fail(ans, "reachable-node-missing", e),
                };
                if let Some(k) = reach.iter().find(|k| !(inserted_set.contains(*k) || (self.prev_reach.contains(*k) && !stale_set.contains(*k)))) {
                    return Answer::fail(ans, "reach-not-mono", format!("node {} reachable from root {} is neither newly inserted nor a surviving node of the previous tree", show_key(k), new_version));
                }
                self.prev_reach = reach.clone();
                for (k, since) in &self.dead {
                    if reach.contains(k) {
                        let key = if *since == new_version { "stale-node-reachable-now" } else { "stale-node-reachable-later" };
                        return Answer::fail(ans, key, format!("node {} reported stale by commit {} is reachable from root {}", show_key(k), since, new_version));
                    }
                }
                let exp: BTreeMap<(Vec<u8>, u8), BTreeMap<Vec<u8>, Hash>> =
                    self.content.iter().map(|(k, m)| (k.clone(), m.iter().map(|(sk, v)| (sk.clone(), hash(v))).collect())).collect();
                if read != exp {
                    return Answer::fail(ans, "current-state-unreadable", "walking the store from the current root does not yield the current substates");
                }
                Answer::ok(ans)
            }
        }
    }

    fn list(&mut self) -> Answer {
        if self.poisoned {
            return Answer::ok("poisoned");
        }
        let Some(v) = self.version else {
            // list_substate_hashes_at_version needs a version; the model lists the empty tree
            return Answer::ok("n=0 -");
        };
        let store = &self.store;
        let r = catch(|| list_substate_hashes_at_version(store, v));
        let listing = match r {
            Err(_) => return Answer::fail("panic", "list-panics", "list_substate_hashes_at_version panicked on the current version"),
            Ok(l) => l,
        };
        let mut items = vec![];
        let mut got: BTreeMap<(Vec<u8>, u8), BTreeMap<Vec<u8>, Hash>> = BTreeMap::new();
        for (pk, m) in &listing {
            for (sk, h) in m {
                items.push(format!("{}/{:02x}/{}={}", hex(&pk.node_key), pk.partition_num, hex(&sk.0), hex(&h.0)));
                got.entry((pk.node_key.clone(), pk.partition_num)).or_default().insert(sk.0.clone(), *h);
            }
        }
        let ans = format!("n={} {}", items.len(), if items.is_empty() { "-".to_string() } else { items.join(",") });
        let exp: BTreeMap<(Vec<u8>, u8), BTreeMap<Vec<u8>, Hash>> =
            self.content.iter().map(|(k, m)| (k.clone(), m.iter().map(|(sk, v)| (sk.clone(), hash(v))).collect())).collect();
        if got != exp {
            return Answer::fail(ans, "list-mismatch", "listed substate hashes differ from the hashes of the stored values");
        }
        Answer::ok(ans)
    }
}

impl Runner for Run {
    fn step(&mut self, line: &str) -> Answer {
        let t: Vec<&str> = line.split(' ').filter(|s| !s.is_empty()).collect();
        if t.is_empty() {
            return Answer::ok("bad-op");
        }
        match (t[0], t.len()) {
            ("reset", 2) if t[1] == "0" || t[1] == "1" => {
                let mode = self.mode;
                *self = Run::new(mode);
                if t[1] == "1" {
                    self.store = TypedInMemoryTreeStore::new().with_pruning_enabled();
                }
                Answer::ok("ok")
            }
            ("commit", _) => self.commit(&t[1..]),
            ("list", 1) if self.mode == Mode::C17 => self.list(),
            ("h", 2) if self.mode == Mode::C17 => match unhex(t[1]) {
                Some(b) => Answer::ok(hex(&hash(b).0)),
                None => Answer::ok("bad-op"),
            },
            _ => Answer::ok("bad-op"),
        }
    }
}

// ------------------------------------------------------------------------------------ generator
struct Pools {
    entities: Vec<Vec<u8>>,
    parts: Vec<u8>,
    sorts: Vec<Vec<u8>>,
}

/// keys of one fixed length sharing long nibble prefixes (deep trees, many collapse situations)
fn key_pool(rng: &mut Rng, len: usize, n: usize) -> Vec<Vec<u8>> {
    let base = rng.bytes(len);
    let mut out: Vec<Vec<u8>> = vec![];
    let mut guard = 0;
    while out.len() < n && guard < 200 {
        guard += 1;
        let mut k = base.clone();
        match rng.below(5) {
            0 => {
                // differ in the last nibble only
                let l = k.len() - 1;
                k[l] = (k[l] & 0xF0) | (rng.below(16) as u8);
            }
            1 => {
                // differ in the last byte
                let l = k.len() - 1;
                k[l] = rng.next() as u8;
            }
            2 => {
                // differ in the first nibble
                k[0] = (k[0] & 0x0F) | ((rng.below(16) as u8) << 4);
            }
            3 => {
                let i = rng.below(len as u64) as usize;
                k[i] = rng.next() as u8;
            }
            _ => k = rng.bytes(len),
        }
        if !out.contains(&k) {
            out.push(k);
        }
    }
    out
}

fn pools(rng: &mut Rng, malformed: bool) -> Pools {
    let elen = *rng.pick(&[1usize, 1, 2, 2, 3, 50]);
    let slen = *rng.pick(&[1usize, 1, 2, 2, 3, 21]);
    let ne = 1 + rng.below(5) as usize;
    let ns = 2 + rng.below(9) as usize;
    let mut entities = key_pool(rng, elen, ne);
    let mut sorts = key_pool(rng, slen, ns);
    if malformed {
        // not prefix-free: a key and an extension of it (the tree's behaviour is unspecified; panics expected)
        if rng.chance(1, 2) {
            let mut k = sorts[0].clone();
            k.push(rng.next() as u8);
            sorts.push(k);
            if rng.chance(1, 3) {
                sorts.push(vec![]);
            }
        } else {
            let mut k = entities[0].clone();
            k.push(rng.next() as u8);
            entities.push(k);
        }
    }
    let np = 1 + rng.below(4) as usize;
    let mut parts = vec![];
    let cands = [0u8, 1, 0x10, 0x11, 0x1f, 0x5f, 0x80, 0xff, 0x40, 0x41];
    while parts.len() < np {
        let p = *rng.pick(&cands);
        if !parts.contains(&p) {
            parts.push(p);
        }
    }
    Pools { entities, parts, sorts }
}

fn subset<T: Clone>(rng: &mut Rng, xs: &[T], max: usize) -> Vec<T> {
    let mut idx: Vec<usize> = (0..xs.len()).collect();
    // Fisher-Yates prefix
    let n = std::cmp::min(max, xs.len());
    for i in 0..n {
        let j = i + rng.below((idx.len() - i) as u64) as usize;
        idx.swap(i, j);
    }
    idx[..n].iter().map(|i| xs[*i].clone()).collect()
}

fn gen_commit(rng: &mut Rng, p: &Pools, shadow: &mut Content) -> String {
    let mut toks = vec![];
    let style = rng.below(20);
    let ne = if style == 0 { 0 } else { 1 + rng.below(std::cmp::min(3, p.entities.len()) as u64) as usize };
    let es = subset(rng, &p.entities, ne);
    let mut du_text_parts: Vec<(Vec<u8>, u8, bool, Vec<(Vec<u8>, Option<Vec<u8>>)>)> = vec![];
    for ek in es {
        toks.push(format!("e:{}", hex(&ek)));
        if rng.chance(1, 25) {
            continue; // entity with no partition updates
        }
        if rng.chance(1, 8) {
            // delete the whole entity: every existing substate of every partition
            let existing: Vec<(u8, Vec<Vec<u8>>)> = shadow.iter().filter(|((e, _), _)| *e == ek).map(|((_, pn), m)| (*pn, m.keys().cloned().collect())).collect();
            for (pn, keys) in existing {
                if rng.chance(1, 2) {
                    toks.push(format!("p:{}:r", pn));
                    du_text_parts.push((ek.clone(), pn, true, vec![]));
                } else {
                    toks.push(format!("p:{}:d", pn));
                    let mut ops = vec![];
                    for k in keys {
                        toks.push(format!("x:{}", hex(&k)));
                        ops.push((k, None));
                    }
                    du_text_parts.push((ek.clone(), pn, false, ops));
                }
            }
            continue;
        }
        let np = 1 + rng.below(std::cmp::min(3, p.parts.len()) as u64) as usize;
        for pn in subset(rng, &p.parts, np) {
            let reset = rng.chance(3, 20);
            toks.push(format!("p:{}:{}", pn, if reset { "r" } else { "d" }));
            let existing: Vec<Vec<u8>> = shadow.get(&(ek.clone(), pn)).map(|m| m.keys().cloned().collect()).unwrap_or_default();
            let nops = if rng.chance(1, 15) { 0 } else { 1 + rng.below(std::cmp::min(6, p.sorts.len()) as u64) as usize };
            let mut ops = vec![];
            let delete_all = !reset && !existing.is_empty() && rng.chance(1, 10);
            if delete_all {
                for k in &existing {
                    toks.push(format!("x:{}", hex(k)));
                    ops.push((k.clone(), None));
                }
            } else {
                for sk in subset(rng, &p.sorts, nops) {
                    let del = !reset && if existing.contains(&sk) { rng.chance(2, 5) } else { rng.chance(1, 8) };
                    if del {
                        toks.push(format!("x:{}", hex(&sk)));
                        ops.push((sk, None));
                    } else {
                        let vlen = *rng.pick(&[0usize, 1, 1, 2, 5, 40]);
                        let v = rng.bytes(vlen);
                        toks.push(format!("s:{}:{}", hex(&sk), hex(&v)));
                        ops.push((sk, Some(v)));
                    }
                }
            }
            du_text_parts.push((ek.clone(), pn, reset, ops));
        }
    }
    // keep the generator's own shadow in step (only used to bias later choices)
    for (ek, pn, reset, ops) in du_text_parts {
        let key = (ek, pn);
        if reset {
            shadow.remove(&key);
        }
        for (k, v) in ops {
            match v {
                Some(v) => {
                    shadow.entry(key.clone()).or_default().insert(k, v);
                }
                None => {
                    if let Some(m) = shadow.get_mut(&key) {
                        m.remove(&k);
                    }
                }
            }
        }
        if shadow.get(&key).map(|m| m.is_empty()).unwrap_or(false) {
            shadow.remove(&key);
        }
    }
    if toks.is_empty() {
        "commit".to_string()
    } else {
        format!("commit {}", toks.join(" "))
    }
}

fn gen_case(rng: &mut Rng, out: &mut dyn Write, with_list: bool) {
    let malformed = rng.chance(1, 25);
    let p = pools(rng, malformed);
    writeln!(out, "reset {}", rng.below(2)).unwrap();
    let mut shadow = Content::new();
    let long = rng.chance(1, 6);
    let n = 1 + rng.below(if long { 30 } else { 9 });
    for _ in 0..n {
        if rng.chance(1, 60) {
            // unparseable / ill-formed lines
            let bad = ["commit e:zz", "commit p:1:d", "commit e:ab p:300:d", "commit e:ab e:ab", "commit e:ab p:1:r x:00", "frobnicate", "commit e:ab p:1:q", "commit s:00:00", "reset 2", "commit e:ab p:1:d s:00:01 s:00:02", "commit e:ab p:-1:d"];
            writeln!(out, "{}", rng.pick(&bad)).unwrap();
            continue;
        }
        writeln!(out, "{}", gen_commit(rng, &p, &mut shadow)).unwrap();
        if with_list && rng.chance(1, 4) {
            writeln!(out, "list").unwrap();
        }
    }
    if with_list {
        writeln!(out, "list").unwrap();
    }
}

pub struct A17;
impl Area for A17 {
    fn gen(&self, rng: &mut Rng, n: usize, out: &mut dyn Write) {
        for _ in 0..n {
            gen_case(rng, out, true);
        }
    }
    fn runner(&self) -> Box<dyn Runner> {
        Box::new(Run::new(Mode::C17))
    }
}

pub struct A18;
impl Area for A18 {
    fn gen(&self, rng: &mut Rng, n: usize, out: &mut dyn Write) {
        for _ in 0..n {
            gen_case(rng, out, false);
        }
    }
    fn runner(&self) -> Box<dyn Runner> {
        Box::new(Run::new(Mode::C18))
    }
}

/// BLAKE2b-256: the Lean implementation used by the drivers vs `radix_common::crypto::hash`.
pub struct A17H;
impl Area for A17H {
    fn gen(&self, rng: &mut Rng, n: usize, out: &mut dyn Write) {
        for i in 0..n {
            let len = match i % 8 {
                0 => 0,
                1 => *rng.pick(&[1usize, 63, 64, 65, 127, 128, 129, 255, 256, 257]),
                2 => 128 * (1 + rng.below(4) as usize),
                3 => 129 + rng.below(600) as usize,
                _ => rng.below(140) as usize,
            };
            let msg = rng.bytes(len);
            writeln!(out, "h {}", hex(&msg)).unwrap();
        }
    }
    fn runner(&self) -> Box<dyn Runner> {
        Box::new(Run::new(Mode::C17))
    }
}

fn main() {
    main_with(&[("c17", &A17), ("c17h", &A17H), ("c18", &A18)]);
}
