//! C35 — subintent structure validation accepts exactly well-formed trees.
//!
//! The public traits `IntentTreeStructure` / `IntentStructure` are implemented by a mock over
//! generated graphs and the REAL `TransactionValidator::validate_intents_and_structure` is called.
//!
//! Line grammar (stateless, one case per line):
//!   tree <max_subintent_depth> <root> <root children> <Y> <k> { <hash> <children> <Y> }^k
//!     <root>     := t<n> (transaction intent hash n) | s<n> (root subintent hash n); hash n = 32 bytes, n big-endian
//!     <children> := "-" | n("," n)*          (duplicates allowed: the mock's iterator may repeat)
//!     <Y>        := e | <parent_yields>:<"-" | h=c("," h=c)*>      (result of the mock's validate_intent)
//!   answer: ok r=<root child indices> s=<parent>/<depth>/<child indices>;…   |  dup i h | notincl h | multi i h
//!           | depth i h | unreach i h | yield i h | interr root | interr i | panic
use harness::util::*;
use radix_common::prelude::*;
use radix_transactions::errors::*;
use radix_transactions::model::*;
use radix_transactions::validation::*;
use std::collections::{BTreeMap, BTreeSet, VecDeque};
use std::io::Write;

pub struct A;

// ------------------------------------------------------------------------------------------ mock

fn hash_of(n: u64) -> Hash {
    let mut b = [0u8; Hash::LENGTH];
    b[Hash::LENGTH - 8..].copy_from_slice(&n.to_be_bytes());
    Hash(b)
}
fn id_of(h: &Hash) -> u64 {
    let mut b = [0u8; 8];
    b.copy_from_slice(&h.0[Hash::LENGTH - 8..]);
    u64::from_be_bytes(b)
}
fn sub_hash(n: u64) -> SubintentHash {
    SubintentHash::from_hash(hash_of(n))
}

#[derive(Clone, Debug)]
struct Y {
    parent_yields: usize,
    child_yields: Vec<(u64, usize)>,
}

#[derive(Clone, Debug)]
struct Intent {
    hash: IntentHash,
    children: Vec<u64>,
    yields: Option<Y>,
}

impl IntentStructure for Intent {
    fn intent_hash(&self) -> IntentHash {
        self.hash
    }
    fn children(&self) -> impl ExactSizeIterator<Item = SubintentHash> {
        self.children.iter().map(|c| sub_hash(*c))
    }
    fn validate_intent(&self, _validator: &TransactionValidator, _aggregation: &mut AcrossIntentAggregation) -> Result<ManifestYieldSummary, IntentValidationError> {
        match &self.yields {
            None => Err(IntentValidationError::TooManyReferences { total: 1, limit: 0 }),
            Some(y) => Ok(ManifestYieldSummary {
                parent_yields: y.parent_yields,
                child_yields: y.child_yields.iter().map(|(h, c)| (sub_hash(*h), *c)).collect(),
            }),
        }
    }
}

impl HasSubintentHash for Intent {
    fn subintent_hash(&self) -> SubintentHash {
        match self.hash {
            IntentHash::Subintent(h) => h,
            IntentHash::Transaction(_) => unreachable!(),
        }
    }
}

struct TreeMock {
    root: Intent,
    subs: Vec<Intent>,
}

impl IntentTreeStructure for TreeMock {
    type RootIntentStructure = Intent;
    type SubintentStructure = Intent;
    fn root(&self) -> &Intent {
        &self.root
    }
    fn non_root_subintents(&self) -> impl ExactSizeIterator<Item = &Intent> {
        self.subs.iter()
    }
}

// ------------------------------------------------------------------------------------------ parsing

fn nat(s: &str) -> Option<u64> {
    if s.is_empty() || !s.bytes().all(|b| b.is_ascii_digit()) {
        return None;
    }
    s.parse().ok()
}
fn parse_list(s: &str) -> Option<Vec<u64>> {
    if s == "-" {
        return Some(vec![]);
    }
    s.split(',').map(nat).collect()
}
fn parse_y(s: &str) -> Option<Option<Y>> {
    if s == "e" {
        return Some(None);
    }
    let p: Vec<&str> = s.split(':').collect();
    if p.len() != 2 {
        return None;
    }
    let parent_yields = nat(p[0])? as usize;
    let mut child_yields = vec![];
    if p[1] != "-" {
        for kv in p[1].split(',') {
            let q: Vec<&str> = kv.split('=').collect();
            if q.len() != 2 {
                return None;
            }
            child_yields.push((nat(q[0])?, nat(q[1])? as usize));
        }
    }
    Some(Some(Y { parent_yields, child_yields }))
}

struct Case {
    max_depth: usize,
    root_is_sub: bool,
    root_id: u64,
    tree: TreeMock,
}

fn parse_case(line: &str) -> Option<Case> {
    let t: Vec<&str> = line.split(' ').filter(|s| !s.is_empty()).collect();
    if t.len() < 6 || t[0] != "tree" {
        return None;
    }
    let max_depth = nat(t[1])? as usize;
    let (root_is_sub, root_id) = if let Some(r) = t[2].strip_prefix('t') {
        (false, nat(r)?)
    } else if let Some(r) = t[2].strip_prefix('s') {
        (true, nat(r)?)
    } else {
        return None;
    };
    let root_children = parse_list(t[3])?;
    let root_y = parse_y(t[4])?;
    let k = nat(t[5])? as usize;
    if t.len() != 6 + 3 * k {
        return None;
    }
    let mut subs = vec![];
    for i in 0..k {
        let h = nat(t[6 + 3 * i])?;
        let cs = parse_list(t[7 + 3 * i])?;
        let y = parse_y(t[8 + 3 * i])?;
        subs.push(Intent { hash: IntentHash::Subintent(sub_hash(h)), children: cs, yields: y });
    }
    let root_hash = if root_is_sub { IntentHash::Subintent(sub_hash(root_id)) } else { IntentHash::Transaction(TransactionIntentHash::from_hash(hash_of(root_id))) };
    Some(Case { max_depth, root_is_sub, root_id, tree: TreeMock { root: Intent { hash: root_hash, children: root_children, yields: root_y }, subs } })
}

// ------------------------------------------------------------------------------------------ runner

fn show_list(v: &[usize]) -> String {
    if v.is_empty() {
        "-".into()
    } else {
        v.iter().map(|x| x.to_string()).collect::<Vec<_>>().join(",")
    }
}

fn show_result(r: &Result<ValidatedIntentTreeInformation, TransactionValidationError>) -> String {
    use SubintentStructureError as S;
    use TransactionValidationErrorLocation as L;
    match r {
        Ok(info) => {
            let rel = &info.intent_relationships;
            let rc: Vec<usize> = rel.root_intent.children.iter().map(|i| i.0).collect();
            let subs: Vec<String> = rel
                .non_root_subintents
                .iter()
                .map(|(_, d)| {
                    let (k, id) = match d.parent {
                        IntentHash::Transaction(h) => ("t", id_of(h.as_hash())),
                        IntentHash::Subintent(h) => ("s", id_of(h.as_hash())),
                    };
                    format!("{}{}/{}/{}", k, id, d.depth, show_list(&d.children.iter().map(|i| i.0).collect::<Vec<_>>()))
                })
                .collect();
            format!("ok r={} s={}", show_list(&rc), if subs.is_empty() { "-".to_string() } else { subs.join(";") })
        }
        Err(TransactionValidationError::SubintentStructureError(loc, e)) => {
            let at = match loc {
                L::NonRootSubintent(i, h) => format!("{} {}", i.0, id_of(h.as_hash())),
                L::Unlocatable => "".to_string(),
                other => format!("?{:?}", other),
            };
            match e {
                S::DuplicateSubintent => format!("dup {}", at),
                S::SubintentHasMultipleParents => format!("multi {}", at),
                S::ChildSubintentNotIncludedInTransaction(h) => format!("notincl {}", id_of(h.as_hash())),
                S::SubintentExceedsMaxDepth => format!("depth {}", at),
                S::SubintentIsNotReachableFromTheTransactionIntent => format!("unreach {}", at),
                S::MismatchingYieldChildAndYieldParentCountsForSubintent => format!("yield {}", at),
            }
        }
        Err(TransactionValidationError::IntentValidationError(loc, _)) => match loc {
            L::RootTransactionIntent(_) | L::RootSubintent(_) => "interr root".to_string(),
            L::NonRootSubintent(i, _) => format!("interr {}", i.0),
            other => format!("interr ?{:?}", other),
        },
        Err(other) => format!("other-error {:?}", other),
    }
}

/// The property, stated directly on the input graph (no code shared with the validator or the model).
struct Wf {
    distinct: bool,
    children_present: bool,
    missing_children: BTreeSet<u64>,
    claims: BTreeMap<u64, usize>, // subintent hash -> number of (parent, position) claims
    one_parent: bool,
    dist: BTreeMap<u64, usize>, // BFS distance from the root over the declared child relation
    all_reachable: bool,
    within_depth: bool,
    intents_ok: bool,
    yields_consistent: Option<bool>, // None: a yield summary lacks the key of a declared child (outside the mock's domain)
}

fn analyse(c: &Case, max_depth: usize) -> Wf {
    let subs = &c.tree.subs;
    let hashes: Vec<u64> = subs.iter().map(|s| id_of(s.subintent_hash().as_hash())).collect();
    let set: BTreeSet<u64> = hashes.iter().copied().collect();
    let distinct = set.len() == hashes.len();
    let mut claims: BTreeMap<u64, usize> = BTreeMap::new();
    let mut missing = BTreeSet::new();
    for ch in c.tree.root.children.iter().chain(subs.iter().flat_map(|s| s.children.iter())) {
        if set.contains(ch) {
            *claims.entry(*ch).or_default() += 1;
        } else {
            missing.insert(*ch);
        }
    }
    let one_parent = hashes.iter().all(|h| claims.get(h).copied().unwrap_or(0) == 1);
    // BFS from the root (children of the first subintent carrying a hash, as hashes are distinct when it matters)
    let mut dist: BTreeMap<u64, usize> = BTreeMap::new();
    let mut q: VecDeque<(u64, usize)> = c.tree.root.children.iter().filter(|h| set.contains(h)).map(|h| (*h, 1)).collect();
    while let Some((h, d)) = q.pop_front() {
        if dist.contains_key(&h) {
            continue;
        }
        dist.insert(h, d);
        if let Some(s) = subs.iter().find(|s| id_of(s.subintent_hash().as_hash()) == h) {
            for ch in &s.children {
                if set.contains(ch) {
                    q.push_back((*ch, d + 1));
                }
            }
        }
    }
    let all_reachable = hashes.iter().all(|h| dist.contains_key(h));
    let within_depth = dist.values().all(|d| *d <= max_depth);
    let intents_ok = c.tree.root.yields.is_some() && subs.iter().all(|s| s.yields.is_some());
    // yields: for every subintent, its (unique) parent's YIELD_TO_CHILD count equals its YIELD_TO_PARENT count
    let mut yields_consistent = Some(true);
    if intents_ok && distinct && one_parent && missing.is_empty() {
        for s in subs {
            let h = id_of(s.subintent_hash().as_hash());
            let parent: &Intent = if c.tree.root.children.contains(&h) { &c.tree.root } else { subs.iter().find(|p| p.children.contains(&h)).unwrap() };
            let py = parent.yields.as_ref().unwrap();
            // IndexMap semantics of the collected child_yields: last value for a key
            match py.child_yields.iter().rev().find(|kv| kv.0 == h) {
                None => {
                    yields_consistent = None;
                    break;
                }
                Some(kv) => {
                    if kv.1 != s.yields.as_ref().unwrap().parent_yields {
                        yields_consistent = Some(false);
                    }
                }
            }
        }
    }
    Wf { distinct, children_present: missing.is_empty(), missing_children: missing, claims, one_parent, dist, all_reachable, within_depth, intents_ok, yields_consistent }
}

struct R;

impl Runner for R {
    fn step(&mut self, line: &str) -> Answer {
        let Some(c) = parse_case(line) else {
            return Answer::ok("bad-op");
        };
        let mut config = TransactionValidationConfig::latest();
        config.max_subintent_depth = c.max_depth;
        let validator = TransactionValidator::new_with_static_config_network_agnostic(config);
        let r = catch(|| validator.validate_intents_and_structure(&c.tree));
        let ans = match &r {
            Ok(r) => show_result(r),
            Err(_) => "panic".to_string(),
        };
        // ---------------- property oracle
        let root_is_placeholder = !c.root_is_sub && c.root_id == 0;
        if root_is_placeholder {
            // outside the property's domain: a real intent hash equal to 32 zero bytes (PLACEHOLDER_PARENT)
            return Answer::ok(ans);
        }
        if c.root_is_sub && c.max_depth == 0 {
            // configuration outside the domain (max_subintent_depth - 1 underflows); answer still compared with the model
            return Answer::ok(ans);
        }
        let max_depth = if c.root_is_sub { c.max_depth - 1 } else { c.max_depth };
        if c.root_is_sub && c.tree.subs.iter().any(|s| id_of(s.subintent_hash().as_hash()) == c.root_id && s.children != c.tree.root.children) {
            // outside the domain: a non-root subintent with the root subintent's hash but different content
            return Answer::ok(ans);
        }
        let wf = analyse(&c, max_depth);
        let structure_ok = wf.distinct && wf.children_present && wf.one_parent && wf.all_reachable && wf.within_depth;
        let accepted = matches!(&r, Ok(Ok(_)));
        if ans.starts_with("other-error") || ans.contains('?') {
            return Answer::fail(ans, "unexpected-error-kind", format!("{}: unexpected error/location kind", line));
        }
        if structure_ok && wf.intents_ok && wf.yields_consistent.is_none() {
            // mock summary without the key of a declared child: the real types cannot produce this
            return Answer::ok(ans);
        }
        let expect = structure_ok && wf.intents_ok && wf.yields_consistent == Some(true);
        if accepted != expect {
            let why = format!(
                "distinct={} children_present={} one_parent={} all_reachable={} within_depth={} intents_ok={} yields={:?}",
                wf.distinct, wf.children_present, wf.one_parent, wf.all_reachable, wf.within_depth, wf.intents_ok, wf.yields_consistent
            );
            let key = if accepted { "accepted-ill-formed" } else { "rejected-well-formed" };
            return Answer::fail(ans, key, format!("{}: validator accepted={} but well-formedness says {} ({})", line, accepted, expect, why));
        }
        if matches!(&r, Err(_)) {
            return Answer::fail(ans, "panic", format!("{}: validator panicked inside the property's domain", line));
        }
        // the reported error must be true of the input
        let t: Vec<&str> = ans.split(' ').collect();
        let hashes: Vec<u64> = c.tree.subs.iter().map(|s| id_of(s.subintent_hash().as_hash())).collect();
        let bad = |k: &str, d: String| Answer::fail(ans.clone(), format!("error-not-true:{}", k), format!("{}: {}", line, d));
        match t[0] {
            "ok" => {
                // depths are the distances from the root, parents are the claimants
                if let Ok(Ok(info)) = &r {
                    for (h, d) in info.intent_relationships.non_root_subintents.iter() {
                        let id = id_of(h.as_hash());
                        if wf.dist.get(&id) != Some(&d.depth) {
                            return bad("ok-depth", format!("accepted but depth of {} is {} while its distance from the root is {:?}", id, d.depth, wf.dist.get(&id)));
                        }
                        let claimed_by_root = c.tree.root.children.contains(&id);
                        let parent_ok = match d.parent {
                            IntentHash::Transaction(_) => claimed_by_root && !c.root_is_sub,
                            IntentHash::Subintent(p) => (claimed_by_root && c.root_is_sub && id_of(p.as_hash()) == c.root_id) || c.tree.subs.iter().any(|s| s.subintent_hash() == p && s.children.contains(&id)),
                        };
                        if !parent_ok {
                            return bad("ok-parent", format!("accepted but recorded parent of {} does not declare it as a child", id));
                        }
                    }
                }
            }
            "dup" => {
                if wf.distinct {
                    return bad("dup", "DuplicateSubintent but hashes are distinct".into());
                }
            }
            "notincl" => {
                let h: u64 = t[1].parse().unwrap();
                if !wf.missing_children.contains(&h) {
                    return bad("notincl", "ChildSubintentNotIncluded for a child that is included or not declared".into());
                }
            }
            "multi" => {
                let h: u64 = t[2].parse().unwrap();
                if wf.claims.get(&h).copied().unwrap_or(0) < 2 {
                    return bad("multi", "SubintentHasMultipleParents for a subintent declared as a child fewer than twice".into());
                }
            }
            "depth" => {
                let h: u64 = t[2].parse().unwrap();
                // the named subintent lies on a path from the root longer than the maximum
                if wf.distinct && wf.one_parent && wf.dist.get(&h).map(|d| *d <= max_depth).unwrap_or(true) {
                    return bad("depth", "SubintentExceedsMaxDepth for a subintent within the maximum depth or unreachable".into());
                }
            }
            "unreach" => {
                let i: usize = t[1].parse().unwrap();
                if wf.dist.contains_key(&hashes[i]) {
                    return bad("unreach", "NotReachable for a subintent that is reachable from the root".into());
                }
            }
            "yield" => {
                if wf.yields_consistent != Some(false) {
                    return bad("yield", "MismatchingYield… but all yield counts match".into());
                }
            }
            "interr" => {
                if wf.intents_ok {
                    return bad("interr", "IntentValidationError although every validate_intent succeeded".into());
                }
            }
            _ => {}
        }
        Answer::ok(ans)
    }
}

// ------------------------------------------------------------------------------------------ generator

#[derive(Clone)]
struct G {
    hash: u64,
    children: Vec<u64>,
    parent_yields: usize,
    err: bool,
}

fn list(v: &[u64]) -> String {
    if v.is_empty() {
        "-".into()
    } else {
        v.iter().map(|x| x.to_string()).collect::<Vec<_>>().join(",")
    }
}

fn gen_case(rng: &mut Rng) -> String {
    let n = match rng.below(10) {
        0 => 0,
        1 => 1,
        2..=6 => 2 + rng.below(4),
        _ => 5 + rng.below(6),
    } as usize;
    let root_is_sub = rng.chance(1, 3);
    let mut max_depth = match rng.below(8) {
        0 => 0,
        1 => 1,
        2 => 2,
        7 => 6,
        _ => 3,
    } as usize;
    // distinct non-zero hashes
    let mut pool: Vec<u64> = (1..=(n as u64 + 4)).collect();
    for i in (1..pool.len()).rev() {
        let j = rng.below(i as u64 + 1) as usize;
        pool.swap(i, j);
    }
    let root_id = if !root_is_sub && rng.chance(1, 40) { 0 } else { 100 + rng.below(3) };
    let mut subs: Vec<G> = (0..n).map(|i| G { hash: pool[i], children: vec![], parent_yields: rng.below(3) as usize, err: false }).collect();
    let mut root_children: Vec<u64> = vec![];
    // a random tree: node i hangs under the root or an earlier node; `chainy` makes deep paths
    let chainy = rng.chance(1, 3);
    let eff_max = if root_is_sub { max_depth.saturating_sub(1) } else { max_depth };
    let mut depth = vec![0usize; n];
    for i in 0..n {
        let p = if i == 0 || (!chainy && rng.chance(1, 3)) {
            None
        } else if chainy && rng.chance(3, 4) {
            Some(i - 1)
        } else {
            Some(rng.below(i as u64) as usize)
        };
        // mostly keep within the depth limit
        let p = match p {
            Some(j) if depth[j] + 1 > eff_max && rng.chance(4, 5) => (0..i).filter(|k| depth[*k] + 1 <= eff_max).last(),
            x => x,
        };
        match p {
            None => {
                root_children.push(subs[i].hash);
                depth[i] = 1;
            }
            Some(j) => {
                let h = subs[i].hash;
                subs[j].children.push(h);
                depth[i] = depth[j] + 1;
            }
        }
    }
    if n > 0 && eff_max == 0 && rng.chance(1, 2) {
        max_depth += 1 + rng.below(2) as usize;
    }
    // mutations (each with small probability; about half of the cases stay well-formed)
    if n > 0 {
        match rng.below(24) {
            0 => {
                // duplicate subintent
                let i = rng.below(n as u64) as usize;
                let j = rng.below(n as u64) as usize;
                let h = subs[i].hash;
                subs[j].hash = h;
            }
            1 => {
                // second parent (DAG)
                let i = rng.below(n as u64) as usize;
                let h = subs[i].hash;
                if rng.chance(1, 3) {
                    root_children.push(h);
                } else {
                    let j = rng.below(n as u64) as usize;
                    subs[j].children.push(h);
                }
            }
            2 => {
                // missing child
                let h = 900 + rng.below(3);
                if rng.chance(1, 2) {
                    root_children.push(h);
                } else {
                    let j = rng.below(n as u64) as usize;
                    subs[j].children.push(h);
                }
            }
            3 => {
                // orphan: drop one claim
                let i = rng.below(n as u64) as usize;
                let h = subs[i].hash;
                root_children.retain(|x| *x != h);
                for s in subs.iter_mut() {
                    s.children.retain(|x| *x != h);
                }
            }
            4 => {
                // island cycle: detach i from its parent and hang it under one of its descendants (or itself)
                let i = rng.below(n as u64) as usize;
                let h = subs[i].hash;
                root_children.retain(|x| *x != h);
                for s in subs.iter_mut() {
                    s.children.retain(|x| *x != h);
                }
                // walk down a random path
                let mut cur = i;
                loop {
                    if subs[cur].children.is_empty() || rng.chance(1, 3) {
                        break;
                    }
                    let ch = *rng.pick(&subs[cur].children);
                    cur = subs.iter().position(|s| s.hash == ch).unwrap();
                }
                subs[cur].children.push(h);
            }
            5 => {
                // root subintent hash equal to a non-root subintent hash is handled below via root_id
            }
            6 => {
                // the same child twice in one children list
                if let Some(h) = root_children.first().copied() {
                    root_children.push(h);
                }
            }
            7 => {
                // an extra, completely unrelated subintent (no parent)
                subs.push(G { hash: 500 + rng.below(3), children: vec![], parent_yields: 0, err: false });
            }
            8 => {
                // back edge to an ancestor (second parent that also forms a cycle)
                let i = rng.below(n as u64) as usize;
                if let Some(ch) = subs[i].children.first().copied() {
                    let j = subs.iter().position(|s| s.hash == ch).unwrap();
                    let h = subs[i].hash;
                    subs[j].children.push(h);
                }
            }
            _ => {}
        }
    }
    let root_id = if root_is_sub && !subs.is_empty() && rng.chance(1, 30) { subs[0].hash } else { root_id };
    // shuffle the order of the subintents (indices are positions)
    for i in (1..subs.len()).rev() {
        let j = rng.below(i as u64 + 1) as usize;
        subs.swap(i, j);
    }
    // yields: child_yields of a parent = parent_yields of the child, with rare mismatches / errors / missing keys
    let mism = rng.chance(1, 8);
    let mut ys = |children: &Vec<u64>, subs: &Vec<G>, rng: &mut Rng| -> String {
        let mut kv: Vec<String> = vec![];
        for (ci, ch) in children.iter().enumerate() {
            if children[..ci].contains(ch) {
                continue;
            }
            let want = subs.iter().find(|s| s.hash == *ch).map(|s| s.parent_yields).unwrap_or(0);
            let v = if mism && rng.chance(1, 3) { want + 1 } else { want };
            if rng.chance(1, 400) {
                continue; // missing key (outside the real types' behaviour: panic path)
            }
            kv.push(format!("{}={}", ch, v));
        }
        if kv.is_empty() {
            "-".to_string()
        } else {
            kv.join(",")
        }
    };
    let root_y = if rng.chance(1, 40) { "e".to_string() } else { format!("{}:{}", if root_is_sub { 1 } else { 0 }, ys(&root_children, &subs, rng)) };
    let err_i = if !subs.is_empty() && rng.chance(1, 30) { Some(rng.below(subs.len() as u64) as usize) } else { None };
    if let Some(i) = err_i {
        subs[i].err = true;
    }
    let mut s = format!("tree {} {}{} {} {} {}", max_depth, if root_is_sub { "s" } else { "t" }, root_id, list(&root_children), root_y, subs.len());
    for g in &subs {
        let y = if g.err { "e".to_string() } else { format!("{}:{}", g.parent_yields, ys(&g.children, &subs, rng)) };
        s += &format!(" {} {} {}", g.hash, list(&g.children), y);
    }
    s
}

fn gen_malformed(rng: &mut Rng) -> String {
    let pool = [
        "tree", "tree 3 t1 - 0:- 1", "tree 3 x1 - 0:- 0", "tree 3 t1 - 0:- 1 5 - 0", "tree 3 t1 1,,2 0:- 0", "tree 3 t1 - 0 0", "tree 3 t1 - 0:1 0",
        "tree 3 t1 - 0:1=a 0", "tree a t1 - 0:- 0", "tree 3 t1 - 0:- 0 extra", "tree 3 t1 - 0:- 1 5 - 0:- junk", "TREE 3 t1 - 0:- 0", "frob", "tree 3 t-1 - 0:- 0",
    ];
    pool[rng.below(pool.len() as u64) as usize].to_string()
}

impl Area for A {
    fn gen(&self, rng: &mut Rng, n: usize, out: &mut dyn Write) {
        for _ in 0..n {
            let line = if rng.chance(1, 50) { gen_malformed(rng) } else { gen_case(rng) };
            writeln!(out, "{}", line).unwrap();
        }
    }
    fn runner(&self) -> Box<dyn Runner> {
        Box::new(R)
    }
    fn consts(&self) -> Vec<(String, String)> {
        // the configured depth limits, as the compiled tree sees them
        vec![
            ("MAX_SUBINTENT_DEPTH_LATEST".to_string(), TransactionValidationConfig::latest().max_subintent_depth.to_string()),
            ("MAX_SUBINTENT_DEPTH_BABYLON".to_string(), TransactionValidationConfig::babylon().max_subintent_depth.to_string()),
            ("V2_ALLOWED_BABYLON".to_string(), (TransactionValidationConfig::babylon().v2_transactions_allowed as u8).to_string()),
            ("V2_ALLOWED_LATEST".to_string(), (TransactionValidationConfig::latest().v2_transactions_allowed as u8).to_string()),
        ]
    }
}

fn main() {
    main_with(&[("c35", &A)]);
}
