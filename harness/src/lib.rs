//! Correspondence harness: drives the real radixdlt-scrypto code (path deps on /repo)
//! with generated op streams. One module per area; see /verif/DESIGN.md §2.
pub mod util;
pub mod areas;
