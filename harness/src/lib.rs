//! Correspondence harness: drives the real radixdlt-scrypto code (path deps on /repo)
//! with generated op streams. One binary per area under src/bin; see /verif/DESIGN.md §2.
pub mod util;
