//! Shared by the `c09` and `c10` binaries (included with `#[path]`): an engine-level runner that
//! executes one transaction per case on the repo's `LedgerSimulator` (never committed, so every
//! case starts from the same ledger state), plus the property oracles of C09 and C10, which are
//! evaluated on the *implementation's* receipts only.
//!
//! Line protocol (a case = `reset`, op lines, `end`):
//!   reset                         -> ok
//!   <op line>                     -> q            (queued; the transaction runs at `end`)
//!   end                           -> ok <outs> | <balances> | <supplies>      or   err <class>
//! Resources: 0,1,2 fungible with divisibility 18,2,0 (100 units each in the account), 3 non-fungible
//! (integer ids 1..=8 in the account). Amounts are Decimal attos (signed decimal integers), id lists
//! are comma separated (`-` = empty). Manifest bucket/proof ids are the raw u32 the transaction
//! processor allocates (0,1,2,… in creation order); the manifest is assembled from raw
//! `InstructionV1`s so that statically invalid id use (use after consume) reaches the engine.
#![allow(dead_code)]
use harness::util::*;
use radix_common::prelude::*;
use radix_engine::errors::*;
use radix_engine::transaction::*;
use radix_engine_interface::prelude::*;
use radix_transactions::manifest::*;
use radix_transactions::model::*;
use radix_transactions::prelude::*;
use scrypto_test::prelude::*;
use std::collections::{BTreeMap, BTreeSet};

pub const NRES: usize = 4;
pub const NF: usize = 3;
pub const DIVS: [u8; 3] = [18, 2, 0];
pub const START_UNITS: i64 = 100;
pub const NF_START: u64 = 8;

pub fn unit() -> i128 {
    1_000_000_000_000_000_000i128
}

#[derive(Clone, Debug)]
pub enum Op {
    Withdraw(usize, i128),
    WithdrawNf(Vec<u64>),
    VBurn(usize, i128),
    VBurnNf(Vec<u64>),
    Recall(usize, i128),
    RecallNf(Vec<u64>),
    VProof(usize, i128),
    VProofNf(Vec<u64>),
    Balance(usize),
    Take(usize, i128),
    TakeAll(usize),
    TakeNf(Vec<u64>),
    Return(u32),
    AssertAny(usize),
    Assert(usize, i128),
    AssertNf(Vec<u64>),
    Burn(u32),
    Deposit(u32),
    DepositAll,
    BProof(u32, i128),
    BProofNf(u32, Vec<u64>),
    BProofAll(u32),
    Clone(u32),
    Drop(u32),
    DropAll,
    DropNamed,
}

fn p_res(s: &str) -> Option<usize> {
    let r: usize = s.parse().ok()?;
    if r < NRES && s == r.to_string() { Some(r) } else { None }
}
fn p_fres(s: &str) -> Option<usize> {
    // amount-based vault operations: fungible resources only (which ids an amount-based take from a
    // non-fungible vault returns depends on the store's key order, which the model does not have)
    let r = p_res(s)?;
    if r < NF { Some(r) } else { None }
}
fn p_amt(s: &str) -> Option<i128> {
    let a: i128 = s.parse().ok()?;
    if s == a.to_string() && a.abs() < (1i128 << 100) { Some(a) } else { None }
}
fn p_id(s: &str) -> Option<u32> {
    let a: u32 = s.parse().ok()?;
    if s == a.to_string() { Some(a) } else { None }
}
fn p_ids(s: &str) -> Option<Vec<u64>> {
    if s == "-" {
        return Some(vec![]);
    }
    let mut v = vec![];
    for t in s.split(',') {
        let a: u64 = t.parse().ok()?;
        if t != a.to_string() || a > 1000 {
            return None;
        }
        v.push(a);
    }
    Some(v)
}

pub fn parse_op(line: &str) -> Option<Op> {
    let t: Vec<&str> = line.split(' ').filter(|x| !x.is_empty()).collect();
    Some(match t.as_slice() {
        ["withdraw", r, a] => Op::Withdraw(p_fres(r)?, p_amt(a)?),
        ["withdrawnf", ids] => Op::WithdrawNf(p_ids(ids)?),
        ["vburn", r, a] => Op::VBurn(p_fres(r)?, p_amt(a)?),
        ["vburnnf", ids] => Op::VBurnNf(p_ids(ids)?),
        ["recall", r, a] => Op::Recall(p_fres(r)?, p_amt(a)?),
        ["recallnf", ids] => Op::RecallNf(p_ids(ids)?),
        ["vproof", r, a] => Op::VProof(p_fres(r)?, p_amt(a)?),
        ["vproofnf", ids] => Op::VProofNf(p_ids(ids)?),
        ["balance", r] => Op::Balance(p_res(r)?),
        ["take", r, a] => Op::Take(p_res(r)?, p_amt(a)?),
        ["takeall", r] => Op::TakeAll(p_res(r)?),
        ["takenf", ids] => Op::TakeNf(p_ids(ids)?),
        ["return", b] => Op::Return(p_id(b)?),
        ["assertany", r] => Op::AssertAny(p_res(r)?),
        ["assert", r, a] => Op::Assert(p_res(r)?, p_amt(a)?),
        ["assertnf", ids] => Op::AssertNf(p_ids(ids)?),
        ["burn", b] => Op::Burn(p_id(b)?),
        ["deposit", b] => Op::Deposit(p_id(b)?),
        ["depositall"] => Op::DepositAll,
        ["bproof", b, a] => Op::BProof(p_id(b)?, p_amt(a)?),
        ["bproofnf", b, ids] => Op::BProofNf(p_id(b)?, p_ids(ids)?),
        ["bproofall", b] => Op::BProofAll(p_id(b)?),
        ["clone", p] => Op::Clone(p_id(p)?),
        ["drop", p] => Op::Drop(p_id(p)?),
        ["dropall"] => Op::DropAll,
        ["dropnamed"] => Op::DropNamed,
        _ => return None,
    })
}

pub fn dec(a: i128) -> Decimal {
    Decimal::from_attos(I192::from(a))
}
pub fn attos(d: Decimal) -> String {
    d.attos().to_string()
}
fn nfids(v: &[u64]) -> Vec<NonFungibleLocalId> {
    v.iter().map(|i| NonFungibleLocalId::integer(*i)).collect()
}
fn fmt_ids<'a>(it: impl Iterator<Item = &'a NonFungibleLocalId>) -> String {
    let mut v: Vec<u64> = it
        .map(|i| match i {
            NonFungibleLocalId::Integer(x) => x.value(),
            _ => u64::MAX,
        })
        .collect();
    v.sort();
    if v.is_empty() {
        "-".to_string()
    } else {
        v.iter().map(|x| x.to_string()).collect::<Vec<_>>().join(",")
    }
}

pub struct Env {
    pub ledger: DefaultLedgerSimulator,
    pub pk: Secp256k1PublicKey,
    pub account: ComponentAddress,
    pub res: [ResourceAddress; NRES],
    pub vaults: [InternalAddress; NRES],
    pub nonce: u32,
}

impl Env {
    pub fn new() -> Env {
        let mut ledger = LedgerSimulatorBuilder::new().without_kernel_trace().build();
        let (pk, _sk, account) = ledger.new_allocated_account();
        let mut res = vec![];
        for d in DIVS {
            let m = ManifestBuilder::new()
                .lock_fee_from_faucet()
                .create_fungible_resource(
                    OwnerRole::None,
                    true,
                    d,
                    FungibleResourceRoles {
                        burn_roles: burn_roles! {
                            burner => rule!(allow_all);
                            burner_updater => rule!(deny_all);
                        },
                        recall_roles: recall_roles! {
                            recaller => rule!(allow_all);
                            recaller_updater => rule!(deny_all);
                        },
                        ..Default::default()
                    },
                    metadata!(),
                    Some(Decimal::from(START_UNITS)),
                )
                .try_deposit_entire_worktop_or_abort(account, None)
                .build();
            let r = ledger.execute_manifest(m, vec![]);
            res.push(r.expect_commit_success().new_resource_addresses()[0]);
        }
        {
            let entries: Vec<(NonFungibleLocalId, ())> =
                (1..=NF_START).map(|i| (NonFungibleLocalId::integer(i), ())).collect();
            let m = ManifestBuilder::new()
                .lock_fee_from_faucet()
                .create_non_fungible_resource(
                    OwnerRole::None,
                    NonFungibleIdType::Integer,
                    true,
                    NonFungibleResourceRoles {
                        burn_roles: burn_roles! {
                            burner => rule!(allow_all);
                            burner_updater => rule!(deny_all);
                        },
                        recall_roles: recall_roles! {
                            recaller => rule!(allow_all);
                            recaller_updater => rule!(deny_all);
                        },
                        ..Default::default()
                    },
                    metadata!(),
                    Some(entries),
                )
                .try_deposit_entire_worktop_or_abort(account, None)
                .build();
            let r = ledger.execute_manifest(m, vec![]);
            res.push(r.expect_commit_success().new_resource_addresses()[0]);
        }
        let mut vaults = vec![];
        for r in &res {
            let v = ledger.get_component_vaults(account, *r);
            assert_eq!(v.len(), 1);
            vaults.push(InternalAddress::new_or_panic(v[0].0));
        }
        Env {
            ledger,
            pk,
            account,
            res: [res[0], res[1], res[2], res[3]],
            vaults: [vaults[0], vaults[1], vaults[2], vaults[3]],
            nonce: 1000,
        }
    }

    fn call(&self, method: &str, args: ManifestValue) -> InstructionV1 {
        InstructionV1::CallMethod(CallMethod {
            address: ManifestGlobalAddress::Static(self.account.into()),
            method_name: method.to_string(),
            args,
        })
    }

    /// Manifest instructions of one op (one or two instructions).
    fn instrs(&self, op: &Op, out: &mut Vec<InstructionV1>) {
        let res = &self.res;
        match op {
            Op::Withdraw(r, a) => out.push(self.call("withdraw", manifest_args!(res[*r], dec(*a)).into())),
            Op::WithdrawNf(ids) => out.push(self.call("withdraw_non_fungibles", manifest_args!(res[NF], nfids(ids)).into())),
            Op::VBurn(r, a) => out.push(self.call("burn", manifest_args!(res[*r], dec(*a)).into())),
            Op::VBurnNf(ids) => out.push(self.call("burn_non_fungibles", manifest_args!(res[NF], nfids(ids)).into())),
            Op::Recall(r, a) => out.push(InstructionV1::CallDirectVaultMethod(CallDirectVaultMethod {
                address: self.vaults[*r],
                method_name: "recall".to_string(),
                args: manifest_args!(dec(*a)).into(),
            })),
            Op::RecallNf(ids) => out.push(InstructionV1::CallDirectVaultMethod(CallDirectVaultMethod {
                address: self.vaults[NF],
                method_name: "recall_non_fungibles".to_string(),
                args: manifest_args!(nfids(ids)).into(),
            })),
            Op::VProof(r, a) => {
                out.push(self.call("create_proof_of_amount", manifest_args!(res[*r], dec(*a)).into()));
                out.push(InstructionV1::PopFromAuthZone(PopFromAuthZone));
            }
            Op::VProofNf(ids) => {
                out.push(self.call("create_proof_of_non_fungibles", manifest_args!(res[NF], nfids(ids)).into()));
                out.push(InstructionV1::PopFromAuthZone(PopFromAuthZone));
            }
            Op::Balance(r) => out.push(self.call("balance", manifest_args!(res[*r]).into())),
            Op::Take(r, a) => out.push(InstructionV1::TakeFromWorktop(TakeFromWorktop { resource_address: res[*r], amount: dec(*a) })),
            Op::TakeAll(r) => out.push(InstructionV1::TakeAllFromWorktop(TakeAllFromWorktop { resource_address: res[*r] })),
            Op::TakeNf(ids) => out.push(InstructionV1::TakeNonFungiblesFromWorktop(TakeNonFungiblesFromWorktop { resource_address: res[NF], ids: nfids(ids) })),
            Op::Return(b) => out.push(InstructionV1::ReturnToWorktop(ReturnToWorktop { bucket_id: ManifestBucket(*b) })),
            Op::AssertAny(r) => out.push(InstructionV1::AssertWorktopContainsAny(AssertWorktopContainsAny { resource_address: res[*r] })),
            Op::Assert(r, a) => out.push(InstructionV1::AssertWorktopContains(AssertWorktopContains { resource_address: res[*r], amount: dec(*a) })),
            Op::AssertNf(ids) => out.push(InstructionV1::AssertWorktopContainsNonFungibles(AssertWorktopContainsNonFungibles { resource_address: res[NF], ids: nfids(ids) })),
            Op::Burn(b) => out.push(InstructionV1::BurnResource(BurnResource { bucket_id: ManifestBucket(*b) })),
            Op::Deposit(b) => out.push(self.call("deposit", manifest_args!(ManifestBucket(*b)).into())),
            Op::DepositAll => out.push(self.call("deposit_batch", manifest_args!(ManifestExpression::EntireWorktop).into())),
            Op::BProof(b, a) => out.push(InstructionV1::CreateProofFromBucketOfAmount(CreateProofFromBucketOfAmount { bucket_id: ManifestBucket(*b), amount: dec(*a) })),
            Op::BProofNf(b, ids) => out.push(InstructionV1::CreateProofFromBucketOfNonFungibles(CreateProofFromBucketOfNonFungibles { bucket_id: ManifestBucket(*b), ids: nfids(ids) })),
            Op::BProofAll(b) => out.push(InstructionV1::CreateProofFromBucketOfAll(CreateProofFromBucketOfAll { bucket_id: ManifestBucket(*b) })),
            Op::Clone(p) => out.push(InstructionV1::CloneProof(CloneProof { proof_id: ManifestProof(*p) })),
            Op::Drop(p) => out.push(InstructionV1::DropProof(DropProof { proof_id: ManifestProof(*p) })),
            Op::DropAll => out.push(InstructionV1::DropAllProofs(DropAllProofs)),
            Op::DropNamed => out.push(InstructionV1::DropNamedProofs(DropNamedProofs)),
        }
    }

    pub fn run(&mut self, ops: &[Op]) -> Outcome {
        let mut ins: Vec<InstructionV1> = vec![];
        ins.push(InstructionV1::CallMethod(CallMethod {
            address: ManifestGlobalAddress::Static(FAUCET.into()),
            method_name: "lock_fee".to_string(),
            args: manifest_args!(Decimal::from(5000)).into(),
        }));
        let mut out_idx: Vec<usize> = vec![];
        for op in ops {
            if let Op::Balance(_) = op {
                out_idx.push(ins.len());
            }
            self.instrs(op, &mut ins);
        }
        // trailing observation: balance and total supply of every resource
        let tail = ins.len();
        for r in 0..NRES {
            ins.push(self.call("balance", manifest_args!(self.res[r]).into()));
        }
        for r in 0..NRES {
            ins.push(InstructionV1::CallMethod(CallMethod {
                address: ManifestGlobalAddress::Static(self.res[r].into()),
                method_name: "get_total_supply".to_string(),
                args: manifest_args!().into(),
            }));
        }
        // non-fungible ids of the account vault (liquid + locked)
        ins.push(self.call("non_fungible_local_ids", manifest_args!(self.res[NF], 100u32).into()));
        let manifest = TransactionManifestV1 { instructions: ins, blobs: Default::default(), object_names: Default::default() };
        self.nonce += 1;
        let proofs: BTreeSet<NonFungibleGlobalId> = [NonFungibleGlobalId::from_public_key(&self.pk)].into_iter().collect();
        let tx = TestTransaction::new_v1_from_nonce(manifest, self.nonce, proofs);
        let receipt = self.ledger.execute_transaction_no_commit(tx, ExecutionConfig::for_test_transaction());
        match &receipt.result {
            TransactionResult::Commit(c) => match &c.outcome {
                TransactionOutcome::Success(outs) => {
                    let getd = |i: usize| -> Decimal {
                        match &outs[i] {
                            InstructionOutput::CallReturn(v) => scrypto_decode::<Decimal>(v).unwrap(),
                            _ => panic!("no output"),
                        }
                    };
                    let geto = |i: usize| -> Option<Decimal> {
                        match &outs[i] {
                            InstructionOutput::CallReturn(v) => scrypto_decode::<Option<Decimal>>(v).unwrap(),
                            _ => panic!("no output"),
                        }
                    };
                    let queries: Vec<Decimal> = out_idx.iter().map(|i| getd(*i)).collect();
                    let balances: Vec<Decimal> = (0..NRES).map(|r| getd(tail + r)).collect();
                    let supplies: Vec<Decimal> = (0..NRES).map(|r| geto(tail + NRES + r).unwrap()).collect();
                    let ids: IndexSet<NonFungibleLocalId> = match &outs[tail + 2 * NRES] {
                        InstructionOutput::CallReturn(v) => scrypto_decode(v).unwrap(),
                        _ => panic!("no output"),
                    };
                    // vault balance changes as committed
                    let mut deltas: BTreeMap<usize, String> = BTreeMap::new();
                    let mut foreign = false;
                    for (node, (ra, ch)) in c.vault_balance_changes() {
                        if let Some(r) = self.res.iter().position(|x| x == ra) {
                            if node.0 != self.vaults[r].as_node_id().0 {
                                foreign = true;
                            }
                            deltas.insert(r, match ch {
                                BalanceChange::Fungible(d) => attos(*d),
                                BalanceChange::NonFungible { added, removed } => format!("+{}/-{}", fmt_ids(added.iter()), fmt_ids(removed.iter())),
                            });
                        }
                    }
                    Outcome::Ok { queries, balances, supplies, nf_ids: fmt_ids(ids.iter()), deltas, foreign_vault: foreign, new_vaults: c.new_vault_addresses().len() }
                }
                TransactionOutcome::Failure(e) => Outcome::Err(classify(e), format!("{:?}", e)),
            },
            TransactionResult::Reject(r) => Outcome::Err("rejected".to_string(), format!("{:?}", r)),
            TransactionResult::Abort(a) => Outcome::Err("aborted".to_string(), format!("{:?}", a)),
        }
    }
}

pub enum Outcome {
    Ok { queries: Vec<Decimal>, balances: Vec<Decimal>, supplies: Vec<Decimal>, nf_ids: String, deltas: BTreeMap<usize, String>, foreign_vault: bool, new_vaults: usize },
    Err(String, String),
}

fn ins_bal(e: &ResourceError) -> String {
    match e {
        ResourceError::InsufficientBalance { requested, actual } => format!("insufficient:{}:{}", attos(*requested), attos(*actual)),
        ResourceError::InvalidTakeAmount => "invalid-take-amount".to_string(),
        ResourceError::MissingNonFungibleLocalId(id) => format!("missing-id:{}", fmt_ids([id.clone()].iter())),
        ResourceError::DecimalOverflow => "overflow".to_string(),
    }
}

/// Small canonical error vocabulary (shared with the Lean model's `Err.show`).
pub fn classify(e: &RuntimeError) -> String {
    use radix_engine::blueprints::resource::*;
    use radix_engine::blueprints::transaction_processor::TransactionProcessorError as TPE;
    match e {
        RuntimeError::ApplicationError(a) => match a {
            ApplicationError::VaultError(v) => match v {
                VaultError::ResourceError(r) => format!("vault:{}", ins_bal(r)),
                VaultError::InvalidAmount(d) => format!("vault:invalid-amount:{}", attos(*d)),
                VaultError::ProofError(ProofError::EmptyProofNotAllowed) => "vault:empty-proof".to_string(),
                other => format!("vault:{:?}", other),
            },
            ApplicationError::NonFungibleVaultError(v) => match v {
                NonFungibleVaultError::MissingId(id) => format!("nfvault:missing-id:{}", fmt_ids([id.clone()].iter())),
                NonFungibleVaultError::NotEnoughAmount => "nfvault:not-enough".to_string(),
                other => format!("nfvault:{:?}", other),
            },
            ApplicationError::BucketError(b) => match b {
                BucketError::ResourceError(r) => format!("bucket:{}", ins_bal(r)),
                BucketError::InvalidAmount(d) => format!("bucket:invalid-amount:{}", attos(*d)),
                BucketError::ProofError(ProofError::EmptyProofNotAllowed) => "bucket:empty-proof".to_string(),
                BucketError::Locked(_) => "bucket:locked".to_string(),
                BucketError::DecimalOverflow => "bucket:overflow".to_string(),
            },
            ApplicationError::WorktopError(w) => match w {
                WorktopError::InsufficientBalance => "worktop:insufficient".to_string(),
                WorktopError::AssertionFailed(_) => "worktop:assertion".to_string(),
                WorktopError::BasicAssertionFailed => "worktop:basic-assertion".to_string(),
            },
            ApplicationError::TransactionProcessorError(t) => match t {
                TPE::BucketNotFound(b) => format!("tp:bucket-not-found:{}", b),
                TPE::ProofNotFound(p) => format!("tp:proof-not-found:{}", p),
                TPE::AuthZoneIsEmpty => "tp:auth-zone-empty".to_string(),
                other => format!("tp:{:?}", other),
            },
            ApplicationError::FungibleResourceManagerError(FungibleResourceManagerError::DropNonEmptyBucket) => "rm:drop-non-empty".to_string(),
            ApplicationError::NonFungibleResourceManagerError(NonFungibleResourceManagerError::DropNonEmptyBucket) => "rm:drop-non-empty".to_string(),
            ApplicationError::InputDecodeError(DecodeError::DuplicateKey) => "app:duplicate-key".to_string(),
            other => format!("app:{}", head(&format!("{:?}", other))),
        },
        RuntimeError::KernelError(KernelError::OrphanedNodes(_)) => "kernel:orphaned-nodes".to_string(),
        RuntimeError::KernelError(KernelError::CallFrameError(CallFrameError::DropNodeError(DropNodeError::NodeBorrowed(_)))) => "kernel:node-borrowed".to_string(),
        RuntimeError::KernelError(k) => format!("kernel:{}", head(&format!("{:?}", k))),
        RuntimeError::SystemError(s) => format!("system:{}", head(&format!("{:?}", s))),
        RuntimeError::SystemModuleError(SystemModuleError::AuthError(AuthError::Unauthorized(_))) => "auth:unauthorized".to_string(),
        RuntimeError::SystemModuleError(SystemModuleError::AuthError(AuthError::NoMethodMapping(_))) => "auth:no-method".to_string(),
        RuntimeError::SystemModuleError(s) => format!("module:{}", head(&format!("{:?}", s))),
        other => format!("other:{}", head(&format!("{:?}", other))),
    }
}

fn head(s: &str) -> String {
    s.chars().take_while(|c| c.is_alphanumeric() || *c == '_' || *c == '(').collect::<String>().replace('(', ".")
}

/// Oracle-side abstract interpretation of the ops that is INDEPENDENT of the Lean model: it only
/// tracks what the properties talk about — the multiset of live proofs per container is not
/// needed; the oracle works from the receipt's observations.
pub struct R {
    pub env: Env,
    pub ops: Vec<(String, Op)>,
    pub bad: bool,
    pub which: &'static str,
}

impl R {
    pub fn new(which: &'static str) -> R {
        R { env: Env::new(), ops: vec![], bad: false, which }
    }
}

impl Runner for R {
    fn step(&mut self, line: &str) -> Answer {
        let l = line.trim();
        if l == "reset" {
            self.ops.clear();
            self.bad = false;
            return Answer::ok("ok");
        }
        if l == "end" {
            if self.bad {
                self.ops.clear();
                self.bad = false;
                return Answer::ok("bad-op");
            }
            let ops: Vec<Op> = self.ops.iter().map(|x| x.1.clone()).collect();
            let out = match catch(|| self.env.run(&ops)) {
                Ok(o) => o,
                Err(m) => return Answer::fail("panic", "engine-panic", format!("engine panicked: {}", m)),
            };
            let ans = match &out {
                Outcome::Ok { queries, balances, supplies, nf_ids, .. } => format!(
                    "ok {} | {} {} | {}",
                    if queries.is_empty() { "-".to_string() } else { queries.iter().map(|d| attos(*d)).collect::<Vec<_>>().join(" ") },
                    balances.iter().map(|d| attos(*d)).collect::<Vec<_>>().join(" "),
                    nf_ids,
                    supplies.iter().map(|d| attos(*d)).collect::<Vec<_>>().join(" ")
                ),
                Outcome::Err(c, raw) => {
                    if std::env::var("VERIF_RAW_ERR").is_ok() {
                        format!("err {} RAW {}", c, raw)
                    } else {
                        format!("err {}", c)
                    }
                }
            };
            let verdict = crate::oracle(self.which, &ops, &out);
            self.ops.clear();
            return match verdict {
                None => Answer::ok(ans),
                Some((k, d)) => Answer::fail(ans, k, d),
            };
        }
        match parse_op(l) {
            Some(op) => {
                self.ops.push((l.to_string(), op));
                Answer::ok("q")
            }
            None => {
                self.bad = true;
                Answer::ok("bad-op")
            }
        }
    }
}


// ---------------------------------------------------------------------------------------------
// Generator (shared; `flavor` = "c10" biases towards proofs on vaults/buckets, "c09" towards
// worktop / named-bucket traffic). The generator keeps an optimistic picture of the transaction
// (as if every op succeeded) so that most ops are plausible; a fraction of ids/amounts is
// deliberately off (stale ids, boundary amounts, wrong divisibility, duplicates).
// ---------------------------------------------------------------------------------------------

struct G {
    nb: u32,
    np: u32,
    live_b: Vec<(u32, usize)>, // (manifest bucket id, resource)
    live_p: Vec<u32>,
    wt: [bool; NRES],          // resource plausibly on the worktop
    wa: [i128; NRES],          // optimistic worktop amount
    va: [i128; NRES],          // optimistic vault amount
    ba: Vec<i128>,             // optimistic bucket amounts, by manifest id
    lines: Vec<String>,
}

fn amt(rng: &mut Rng, r: usize, hint: i128) -> i128 {
    let u = unit();
    if rng.chance(3, 4) {
        // plausible: a whole number of units up to the hint (exactly the hint fairly often)
        let h = (hint / u).max(1);
        if rng.chance(1, 4) {
            return h * u;
        }
        return (1 + rng.below(h as u64) as i128) * u;
    }
    match rng.below(16) {
        0 => 0,
        1 => 1,
        2 => -u,
        3 => u / 100,
        4 => u / 2,
        5 => 5 * u / 2,
        6 => 100 * u,
        7 => 100 * u + 1,
        8 => 101 * u,
        9 => hint + u,
        10 => hint + 1,
        11 => if r == NF { 8 * u } else { 50 * u },
        12 => hint,
        _ => (1 + rng.below(if r == NF { 4 } else { 12 }) as i128) * u,
    }
}

fn ids(rng: &mut Rng) -> String {
    match rng.below(12) {
        0 => "-".to_string(),
        1 => format!("{},{}", 1 + rng.below(8), 9), // 9 is never minted
        2 => {
            let a = 1 + rng.below(8);
            format!("{},{}", a, a)
        }
        _ => {
            let n = 1 + rng.below(3);
            let mut v: Vec<u64> = vec![];
            while (v.len() as u64) < n {
                let x = 1 + rng.below(8);
                if !v.contains(&x) {
                    v.push(x);
                }
            }
            v.iter().map(|x| x.to_string()).collect::<Vec<_>>().join(",")
        }
    }
}

impl G {
    fn bucket(&mut self, rng: &mut Rng) -> u32 {
        if !self.live_b.is_empty() && rng.chance(9, 10) {
            self.live_b[rng.below(self.live_b.len() as u64) as usize].0
        } else {
            rng.below(self.nb as u64 + 2) as u32
        }
    }
    fn proof(&mut self, rng: &mut Rng) -> u32 {
        if !self.live_p.is_empty() && rng.chance(9, 10) {
            self.live_p[rng.below(self.live_p.len() as u64) as usize]
        } else {
            rng.below(self.np as u64 + 2) as u32
        }
    }
    fn fres(&self, rng: &mut Rng) -> usize {
        rng.below(3) as usize
    }
    fn res(&self, rng: &mut Rng) -> usize {
        // prefer a resource that is on the worktop
        let on: Vec<usize> = (0..NRES).filter(|r| self.wt[*r]).collect();
        if !on.is_empty() && rng.chance(4, 5) {
            on[rng.below(on.len() as u64) as usize]
        } else {
            rng.below(NRES as u64) as usize
        }
    }
    fn new_bucket(&mut self, r: usize, a: i128) {
        self.live_b.push((self.nb, r));
        self.ba.push(a);
        self.nb += 1;
    }
    fn consume(&mut self, b: u32) -> Option<(usize, i128)> {
        let i = self.live_b.iter().position(|x| x.0 == b)?;
        let r = self.live_b.remove(i).1;
        Some((r, self.ba[b as usize]))
    }
    fn bamt(&self, b: u32) -> (usize, i128) {
        match self.live_b.iter().find(|x| x.0 == b) {
            Some(x) => (x.1, self.ba[b as usize]),
            None => (0, 0),
        }
    }
    fn op(&mut self, rng: &mut Rng, k0: u64) {
        let u = unit();
        let mut k = k0;
        // bucket / proof ops without a live bucket / proof are mostly replaced by a producer
        if [12, 16, 17, 19, 20, 21].contains(&k) && self.live_b.is_empty() && !rng.chance(1, 12) {
            k = if self.wt.iter().any(|x| *x) { *rng.pick(&[9, 10, 10]) } else { *rng.pick(&[0, 0, 1, 4]) };
        }
        if [22, 23].contains(&k) && self.live_p.is_empty() && !rng.chance(1, 12) {
            k = *rng.pick(&[6, 6, 7]);
        }
        if [9, 10, 11, 13, 14, 15].contains(&k) && !self.wt.iter().any(|x| *x) && !rng.chance(1, 8) {
            k = *rng.pick(&[0, 0, 1, 4]);
        }
        match k {
            0 => { let r = self.fres(rng); let a = amt(rng, r, self.va[r].min(20 * u)); self.lines.push(format!("withdraw {} {}", r, a)); self.wt[r] = true; self.wa[r] += a; self.va[r] -= a; }
            1 => { self.lines.push(format!("withdrawnf {}", ids(rng))); self.wt[NF] = true; self.wa[NF] += 2 * u; }
            2 => { let r = self.fres(rng); let a = amt(rng, r, self.va[r].min(20 * u)); self.lines.push(format!("vburn {} {}", r, a)); self.va[r] -= a; }
            3 => self.lines.push(format!("vburnnf {}", ids(rng))),
            4 => { let r = self.fres(rng); let a = amt(rng, r, self.va[r].min(20 * u)); self.lines.push(format!("recall {} {}", r, a)); self.wt[r] = true; self.wa[r] += a; self.va[r] -= a; }
            5 => { self.lines.push(format!("recallnf {}", ids(rng))); self.wt[NF] = true; self.wa[NF] += 2 * u; }
            6 => { let r = self.fres(rng); let a = amt(rng, r, self.va[r]); self.lines.push(format!("vproof {} {}", r, a)); self.live_p.push(self.np); self.np += 1; }
            7 => { self.lines.push(format!("vproofnf {}", ids(rng))); self.live_p.push(self.np); self.np += 1; }
            8 => { let r = rng.below(NRES as u64); self.lines.push(format!("balance {}", r)); }
            9 => { let r = self.res(rng); let a = amt(rng, r, self.wa[r]); self.lines.push(format!("take {} {}", r, a)); self.new_bucket(r, a); self.wa[r] -= a; if self.wa[r] <= 0 { self.wt[r] = false; } }
            10 => { let r = self.res(rng); self.lines.push(format!("takeall {}", r)); let a = self.wa[r]; self.new_bucket(r, a); self.wt[r] = false; self.wa[r] = 0; }
            11 => { self.lines.push(format!("takenf {}", ids(rng))); self.new_bucket(NF, u); }
            12 => { let b = self.bucket(rng); self.lines.push(format!("return {}", b)); if let Some((r, a)) = self.consume(b) { self.wt[r] = true; self.wa[r] += a; } }
            13 => { let r = self.res(rng); self.lines.push(format!("assertany {}", r)); }
            14 => { let r = self.res(rng); let a = amt(rng, r, self.wa[r]); self.lines.push(format!("assert {} {}", r, a)); }
            15 => self.lines.push(format!("assertnf {}", ids(rng))),
            16 => { let b = self.bucket(rng); self.lines.push(format!("burn {}", b)); self.consume(b); }
            17 => { let b = self.bucket(rng); self.lines.push(format!("deposit {}", b)); if let Some((r, a)) = self.consume(b) { self.va[r] += a; } }
            18 => { self.lines.push("depositall".to_string()); for r in 0..NRES { self.va[r] += self.wa[r]; } self.wt = [false; NRES]; self.wa = [0; NRES]; }
            19 => { let b = self.bucket(rng); let (r, a) = self.bamt(b); self.lines.push(format!("bproof {} {}", b, amt(rng, r, a))); self.live_p.push(self.np); self.np += 1; }
            20 => { let b = self.bucket(rng); self.lines.push(format!("bproofnf {} {}", b, ids(rng))); self.live_p.push(self.np); self.np += 1; }
            21 => { let b = self.bucket(rng); self.lines.push(format!("bproofall {}", b)); self.live_p.push(self.np); self.np += 1; }
            22 => { let p = self.proof(rng); self.lines.push(format!("clone {}", p)); self.live_p.push(self.np); self.np += 1; }
            23 => { let p = self.proof(rng); self.lines.push(format!("drop {}", p)); self.live_p.retain(|x| *x != p); }
            24 => { self.lines.push("dropnamed".to_string()); self.live_p.clear(); }
            _ => { self.lines.push("dropall".to_string()); self.live_p.clear(); }
        }
    }
}

pub fn gen_cases(flavor: &str, rng: &mut Rng, n: usize, out: &mut dyn std::io::Write) {
    // op kind weights
    let w10: &[(u64, u64)] = &[(0, 10), (1, 4), (2, 4), (3, 2), (4, 4), (5, 2), (6, 14), (7, 6), (8, 6), (9, 5), (10, 5), (11, 2), (12, 4), (13, 1), (14, 2), (15, 1), (16, 2), (17, 3), (18, 5), (19, 7), (20, 3), (21, 3), (22, 8), (23, 10), (24, 1), (25, 1)];
    let w09: &[(u64, u64)] = &[(0, 12), (1, 6), (2, 2), (3, 1), (4, 3), (5, 2), (6, 2), (7, 1), (8, 3), (9, 12), (10, 8), (11, 6), (12, 9), (13, 4), (14, 7), (15, 4), (16, 5), (17, 7), (18, 6), (19, 3), (20, 2), (21, 2), (22, 2), (23, 3), (24, 1), (25, 1)];
    let w = if flavor == "c10" { w10 } else { w09 };
    let total: u64 = w.iter().map(|x| x.1).sum();
    for _ in 0..n {
        writeln!(out, "reset").unwrap();
        let u = unit();
        let mut g = G { nb: 0, np: 0, live_b: vec![], live_p: vec![], wt: [false; NRES], wa: [0; NRES], va: [100 * u, 100 * u, 100 * u, 8 * u], ba: vec![], lines: vec![] };
        if rng.chance(1, 8) {
            // overlapping proofs on ONE bucket: distinct / duplicate amounts, arbitrary drop order, then the bucket
            // goes back to the account: nothing may be lost or stuck
            let r = rng.below(3) as usize;
            let total = (10 + rng.below(10) as i128) * u;
            g.lines.push(format!("withdraw {} {}", r, total));
            g.lines.push(format!("takeall {}", r));
            let k = 2 + rng.below(3) as usize;
            let mut live: Vec<(u32, i128)> = vec![];
            let mut np = 0u32;
            for _ in 0..k {
                let a = if !live.is_empty() && rng.chance(1, 4) { rng.pick(&live).1 } else { (1 + rng.below(9) as i128) * u };
                g.lines.push(format!("bproof 0 {}", a));
                live.push((np, a));
                np += 1;
                if rng.chance(1, 4) {
                    let (p, pa) = *rng.pick(&live);
                    g.lines.push(format!("clone {}", p));
                    live.push((np, pa));
                    np += 1;
                }
            }
            while !live.is_empty() {
                let i = rng.below(live.len() as u64) as usize;
                let (p, _) = live.remove(i);
                g.lines.push(format!("drop {}", p));
                if rng.chance(1, 4) && !live.is_empty() {
                    break;
                }
            }
            g.lines.push("dropnamed".to_string());
            g.lines.push(if rng.chance(1, 2) { "deposit 0".to_string() } else { "return 0".to_string() });
            g.lines.push("depositall".to_string());
            g.lines.push(format!("balance {}", r));
            for l in &g.lines {
                writeln!(out, "{}", l).unwrap();
            }
            writeln!(out, "end").unwrap();
            continue;
        }
        if flavor == "c10" && rng.chance(1, 5) {
            // overlapping-proofs stress on ONE vault: several live proofs (distinct and duplicate amounts, clones),
            // dropped in an arbitrary order; then exactly the unlocked remainder must be withdrawable and not one unit more
            let r = rng.below(3) as usize;
            let k = 3 + rng.below(3) as usize;
            let mut amts: Vec<i128> = vec![];
            let mut live: Vec<(u32, i128)> = vec![];
            let mut np = 0u32;
            for _ in 0..k {
                let a = if !amts.is_empty() && rng.chance(1, 4) { *rng.pick(&amts) } else { (1 + rng.below(9) as i128) * u };
                amts.push(a);
                g.lines.push(format!("vproof {} {}", r, a));
                live.push((np, a));
                np += 1;
                if rng.chance(1, 4) {
                    let (p, pa) = *rng.pick(&live);
                    g.lines.push(format!("clone {}", p));
                    live.push((np, pa));
                    np += 1;
                }
            }
            let drops = 1 + rng.below(live.len() as u64 - 1) as usize;
            for _ in 0..drops {
                let i = rng.below(live.len() as u64) as usize;
                let (p, _) = live.remove(i);
                g.lines.push(format!("drop {}", p));
                if rng.chance(1, 3) {
                    g.lines.push(format!("balance {}", r));
                }
            }
            let m = live.iter().map(|x| x.1).max().unwrap_or(0);
            let free = 100 * u - m;
            if rng.chance(1, 2) {
                g.lines.push(format!("withdraw {} {}", r, free));
                g.lines.push(format!("withdraw {} {}", r, u));
            } else {
                g.lines.push(format!("withdraw {} {}", r, free + u));
            }
            g.lines.push("dropnamed".to_string());
            g.lines.push("depositall".to_string());
            for l in &g.lines {
                writeln!(out, "{}", l).unwrap();
            }
            writeln!(out, "end").unwrap();
            continue;
        }
        let long = rng.chance(1, 5);
        let len = 1 + rng.below(if long { 24 } else { 10 });
        for _ in 0..len {
            let mut x = rng.below(total);
            let mut k = 0;
            for (kk, ww) in w {
                if x < *ww {
                    k = *kk;
                    break;
                }
                x -= *ww;
            }
            g.op(rng, k);
        }
        // tidy-up suffix so that a good share of the cases can succeed
        if rng.chance(3, 4) {
            if rng.chance(1, 2) && !g.live_p.is_empty() {
                g.lines.push("dropnamed".to_string());
            }
            let bs: Vec<u32> = g.live_b.iter().map(|x| x.0).collect();
            for b in bs {
                if rng.chance(1, 2) { g.lines.push(format!("return {}", b)); } else { g.lines.push(format!("deposit {}", b)); }
            }
            g.lines.push("depositall".to_string());
        }
        // malformed stream
        if rng.chance(1, 40) {
            let junk = ["withdraw 3 1000000000000000000", "withdraw 0 1.5", "take 4 1", "frobnicate", "drop -1", "takenf 1,,2", "withdraw 0 01", "bproof 0", "vproofnf 1001", "assert 0 +5"];
            let at = rng.below(g.lines.len() as u64 + 1) as usize;
            g.lines.insert(at, junk[rng.below(junk.len() as u64) as usize].to_string());
        }
        for l in &g.lines {
            writeln!(out, "{}", l).unwrap();
        }
        writeln!(out, "end").unwrap();
    }
}


// ---------------------------------------------------------------------------------------------
// Property oracles. They judge the IMPLEMENTATION's receipts against a direct, spec-level reading of
// the properties (amount arithmetic only: what a container holds, which proofs are alive, what is on
// the worktop) — no lock multisets, no index orders, nothing shared with the Lean model.
//   * `check_success`: the transaction succeeded, so every instruction succeeded; replay the ops at
//     spec level and check each property clause at the point where it applies.
//   * `predict_pure`: for the fungible-only fragments where the properties determine the outcome
//     completely, predict success / the failing class and compare.
// ---------------------------------------------------------------------------------------------

fn valid_amt(a: i128, r: usize) -> bool {
    if r == NF {
        a >= 0 && a % unit() == 0
    } else {
        a >= 0 && a % 10i128.pow(18 - DIVS[r] as u32) == 0
    }
}

#[derive(Clone)]
struct Obj {
    res: usize,
    total: i128,           // what the bucket holds (liquid + locked), attos
    ids: BTreeSet<u64>,    // non-fungible content (meaningless once `fuzzy`)
}
#[derive(Clone, PartialEq)]
enum PSrc {
    Vault(usize),
    Obj(usize),
}
#[derive(Clone)]
struct PProof {
    src: PSrc,
    amt: i128,
    ids: BTreeSet<u64>,
}

fn fail(k: &str, i: usize, op: &Op, d: String) -> Option<(String, String)> {
    Some((format!("{}:{}", k, format!("{:?}", op).split('(').next().unwrap_or("")), format!("op #{} {:?}: {}", i, op, d)))
}

/// The transaction SUCCEEDED: every clause of C09/C10 that applies to a successful run.
pub fn check_success(ops: &[Op], queries: &[Decimal], balances: &[Decimal], supplies: &[Decimal], nf_ids: &str, deltas: &BTreeMap<usize, String>, foreign_vault: bool, new_vaults: usize) -> Option<(String, String)> {
    let u = unit();
    let mut t: [i128; NRES] = [100 * u, 100 * u, 100 * u, 8 * u];
    let mut vids: BTreeSet<u64> = (1..=NF_START).collect();
    let mut burned: [i128; NRES] = [0; NRES];
    let mut objs: Vec<Obj> = vec![];
    let mut wt: [Option<usize>; NRES] = [None; NRES];
    let mut named: Vec<Option<usize>> = vec![];
    let mut proofs: Vec<Option<PProof>> = vec![];
    let mut fuzzy = false; // an amount-based non-fungible take happened: which ids moved is not known at spec level
    let mut qi = 0usize;
    let set = |v: &Vec<u64>| -> BTreeSet<u64> { v.iter().cloned().collect() };
    let maxlive = |proofs: &Vec<Option<PProof>>, src: &PSrc| -> i128 { proofs.iter().flatten().filter(|p| &p.src == src).map(|p| p.amt).max().unwrap_or(0) };
    let lockedids = |proofs: &Vec<Option<PProof>>, src: &PSrc| -> BTreeSet<u64> { proofs.iter().flatten().filter(|p| &p.src == src).flat_map(|p| p.ids.iter().cloned()).collect() };
    // put an object on the worktop (merging into an existing bucket of the resource)
    fn wput(objs: &mut Vec<Obj>, wt: &mut [Option<usize>; NRES], o: usize) {
        let r = objs[o].res;
        if objs[o].total == 0 {
            return;
        }
        match wt[r] {
            Some(e) => {
                let (tt, ii) = (objs[o].total, objs[o].ids.clone());
                objs[e].total += tt;
                objs[e].ids.extend(ii);
            }
            None => wt[r] = Some(o),
        }
    }
    for (i, op) in ops.iter().enumerate() {
        match op {
            Op::Withdraw(r, a) | Op::VBurn(r, a) | Op::Recall(r, a) => {
                if !valid_amt(*a, *r) {
                    return fail("c10-divisibility", i, op, "an amount violating the divisibility was taken".into());
                }
                let ml = maxlive(&proofs, &PSrc::Vault(*r));
                if *a > t[*r] - ml {
                    return fail("c10-take-under-proof", i, op, format!("took {} from a vault holding {} with a live proof of {}", a, t[*r], ml));
                }
                t[*r] -= *a;
                if let Op::VBurn(..) = op {
                    burned[*r] += *a;
                } else {
                    objs.push(Obj { res: *r, total: *a, ids: BTreeSet::new() });
                    let o = objs.len() - 1;
                    wput(&mut objs, &mut wt, o);
                }
            }
            Op::WithdrawNf(ids) | Op::VBurnNf(ids) | Op::RecallNf(ids) => {
                let is = set(ids);
                let locked = lockedids(&proofs, &PSrc::Vault(NF));
                if let Some(x) = is.iter().find(|x| locked.contains(x)) {
                    return fail("c10-take-under-proof", i, op, format!("non-fungible {} was taken while a proof of it is alive", x));
                }
                if let Some(x) = is.iter().find(|x| !vids.contains(x)) {
                    return fail("c09-take-more-than-put", i, op, format!("non-fungible {} taken from a vault that does not hold it", x));
                }
                for x in &is {
                    vids.remove(x);
                }
                t[NF] -= is.len() as i128 * u;
                if let Op::VBurnNf(..) = op {
                    burned[NF] += is.len() as i128 * u;
                } else {
                    objs.push(Obj { res: NF, total: is.len() as i128 * u, ids: is });
                    let o = objs.len() - 1;
                    wput(&mut objs, &mut wt, o);
                }
            }
            Op::VProof(r, a) => {
                if !valid_amt(*a, *r) || *a == 0 {
                    return fail("c10-divisibility", i, op, "a proof of an invalid or zero amount was created".into());
                }
                if *a > t[*r] {
                    return fail("c10-proof-exceeds-total", i, op, format!("proof of {} on a vault holding {}", a, t[*r]));
                }
                proofs.push(Some(PProof { src: PSrc::Vault(*r), amt: *a, ids: BTreeSet::new() }));
            }
            Op::VProofNf(ids) => {
                let is = set(ids);
                if is.is_empty() || is.iter().any(|x| !vids.contains(x)) {
                    return fail("c10-proof-exceeds-total", i, op, "proof of non-fungibles the vault does not hold (or empty)".into());
                }
                proofs.push(Some(PProof { src: PSrc::Vault(NF), amt: 0, ids: is }));
            }
            Op::Balance(r) => {
                let got = queries[qi].attos().to_string();
                qi += 1;
                if got != t[*r].to_string() {
                    return fail("c10-total-changed", i, op, format!("vault reports {} but holds {} by the books (proofs must not change the amount)", got, t[*r]));
                }
            }
            Op::Take(r, a) => {
                if *a == 0 {
                    objs.push(Obj { res: *r, total: 0, ids: BTreeSet::new() });
                    named.push(Some(objs.len() - 1));
                    continue;
                }
                let e = match wt[*r] {
                    Some(e) => e,
                    None => return fail("c09-take-more-than-put", i, op, "took a non-zero amount of a resource that is not on the worktop".into()),
                };
                if *a > objs[e].total || *a < 0 {
                    return fail("c09-take-more-than-put", i, op, format!("took {} with {} on the worktop", a, objs[e].total));
                }
                if *a == objs[e].total {
                    wt[*r] = None;
                    named.push(Some(e));
                } else {
                    if !valid_amt(*a, *r) {
                        return fail("c10-divisibility", i, op, "an amount violating the divisibility was taken".into());
                    }
                    let ml = if *r == NF { lockedids(&proofs, &PSrc::Obj(e)).len() as i128 * u } else { maxlive(&proofs, &PSrc::Obj(e)) };
                    if *a > objs[e].total - ml {
                        return fail("c10-take-under-proof", i, op, format!("took {} from a bucket holding {} with {} behind live proofs", a, objs[e].total, ml));
                    }
                    objs[e].total -= *a;
                    if *r == NF {
                        fuzzy = true;
                    }
                    objs.push(Obj { res: *r, total: *a, ids: BTreeSet::new() });
                    named.push(Some(objs.len() - 1));
                }
            }
            Op::TakeAll(r) => match wt[*r].take() {
                Some(e) => named.push(Some(e)),
                None => {
                    objs.push(Obj { res: *r, total: 0, ids: BTreeSet::new() });
                    named.push(Some(objs.len() - 1));
                }
            },
            Op::TakeNf(ids) => {
                let is = set(ids);
                if is.is_empty() {
                    objs.push(Obj { res: NF, total: 0, ids: BTreeSet::new() });
                    named.push(Some(objs.len() - 1));
                    continue;
                }
                let e = match wt[NF] {
                    Some(e) => e,
                    None => return fail("c09-take-more-than-put", i, op, "took non-fungibles from an empty worktop".into()),
                };
                if !fuzzy {
                    if let Some(x) = is.iter().find(|x| !objs[e].ids.contains(x)) {
                        return fail("c09-take-more-than-put", i, op, format!("took non-fungible {} which is not on the worktop", x));
                    }
                }
                if is.len() as i128 * u > objs[e].total {
                    return fail("c09-take-more-than-put", i, op, "took more non-fungibles than the worktop holds".into());
                }
                if is.len() as i128 * u == objs[e].total {
                    wt[NF] = None;
                    named.push(Some(e));
                } else {
                    let locked = lockedids(&proofs, &PSrc::Obj(e));
                    if let Some(x) = is.iter().find(|x| locked.contains(x)) {
                        return fail("c10-take-under-proof", i, op, format!("non-fungible {} was taken out of a bucket while a proof of it is alive", x));
                    }
                    for x in &is {
                        objs[e].ids.remove(x);
                    }
                    objs[e].total -= is.len() as i128 * u;
                    objs.push(Obj { res: NF, total: is.len() as i128 * u, ids: is });
                    named.push(Some(objs.len() - 1));
                }
            }
            Op::Return(b) | Op::Burn(b) | Op::Deposit(b) => {
                let o = match named.get_mut(*b as usize).and_then(|x| x.take()) {
                    Some(o) => o,
                    None => return fail("c09-use-after-consume", i, op, "a bucket id that is not live was accepted".into()),
                };
                let has_proof = proofs.iter().flatten().any(|p| p.src == PSrc::Obj(o));
                match op {
                    Op::Return(_) => {
                        if has_proof && objs[o].total != 0 && wt[objs[o].res].is_some() {
                            return fail("c10-take-under-proof", i, op, "a bucket with a live proof was merged away".into());
                        }
                        wput(&mut objs, &mut wt, o);
                    }
                    Op::Burn(_) => {
                        if has_proof {
                            return fail("c10-take-under-proof", i, op, "a bucket with a live proof was burned".into());
                        }
                        burned[objs[o].res] += objs[o].total;
                    }
                    _ => {
                        if has_proof {
                            return fail("c10-take-under-proof", i, op, "a bucket with a live proof was deposited".into());
                        }
                        let r = objs[o].res;
                        t[r] += objs[o].total;
                        if r == NF {
                            vids.extend(objs[o].ids.iter().cloned());
                        }
                    }
                }
            }
            Op::DepositAll => {
                for r in 0..NRES {
                    if let Some(o) = wt[r].take() {
                        if proofs.iter().flatten().any(|p| p.src == PSrc::Obj(o)) {
                            return fail("c10-take-under-proof", i, op, "a bucket with a live proof was deposited".into());
                        }
                        t[r] += objs[o].total;
                        if r == NF {
                            vids.extend(objs[o].ids.iter().cloned());
                        }
                    }
                }
            }
            Op::AssertAny(r) => {
                if wt[*r].map(|e| objs[e].total).unwrap_or(0) == 0 {
                    return fail("c09-assert-passed", i, op, "assertion passed on an empty worktop".into());
                }
            }
            Op::Assert(r, a) => {
                let have = wt[*r].map(|e| objs[e].total).unwrap_or(0);
                if have < *a {
                    return fail("c09-assert-passed", i, op, format!("assertion of {} passed with {} on the worktop", a, have));
                }
            }
            Op::AssertNf(ids) => {
                if !fuzzy {
                    let have = wt[NF].map(|e| objs[e].ids.clone()).unwrap_or_default();
                    if let Some(x) = ids.iter().find(|x| !have.contains(x)) {
                        return fail("c09-assert-passed", i, op, format!("assertion passed although {} is not on the worktop", x));
                    }
                }
            }
            Op::BProof(b, _) | Op::BProofNf(b, _) | Op::BProofAll(b) => {
                let o = match named.get(*b as usize).and_then(|x| *x) {
                    Some(o) => o,
                    None => return fail("c09-use-after-consume", i, op, "a bucket id that is not live was accepted".into()),
                };
                let (amt, is) = match op {
                    Op::BProof(_, a) => (*a, BTreeSet::new()),
                    Op::BProofNf(_, ids) => (0, set(ids)),
                    _ => (if objs[o].res == NF { 0 } else { objs[o].total }, objs[o].ids.clone()),
                };
                if objs[o].res != NF {
                    if !valid_amt(amt, objs[o].res) || amt == 0 {
                        return fail("c10-divisibility", i, op, "a proof of an invalid or zero amount was created".into());
                    }
                    if amt > objs[o].total {
                        return fail("c10-proof-exceeds-total", i, op, format!("proof of {} on a bucket holding {}", amt, objs[o].total));
                    }
                } else if !fuzzy {
                    if let Some(x) = is.iter().find(|x| !objs[o].ids.contains(x)) {
                        return fail("c10-proof-exceeds-total", i, op, format!("proof of non-fungible {} the bucket does not hold", x));
                    }
                }
                proofs.push(Some(PProof { src: PSrc::Obj(o), amt, ids: is }));
            }
            Op::Clone(p) => {
                let pr = match proofs.get(*p as usize).and_then(|x| x.clone()) {
                    Some(pr) => pr,
                    None => return fail("c09-use-after-consume", i, op, "a proof id that is not live was accepted".into()),
                };
                proofs.push(Some(pr));
            }
            Op::Drop(p) => {
                if proofs.get_mut(*p as usize).and_then(|x| x.take()).is_none() {
                    return fail("c09-use-after-consume", i, op, "a proof id that is not live was accepted".into());
                }
            }
            Op::DropAll | Op::DropNamed => {
                for p in proofs.iter_mut() {
                    *p = None;
                }
            }
        }
    }
    // end of a successful transaction: nothing may be left behind
    for r in 0..NRES {
        if let Some(e) = wt[r] {
            if objs[e].total != 0 {
                return Some(("c09-leftover:worktop".into(), format!("transaction succeeded with {} of resource {} left on the worktop", objs[e].total, r)));
            }
        }
    }
    if named.iter().any(|x| x.is_some()) {
        return Some(("c09-leftover:bucket".into(), "transaction succeeded with an unconsumed named bucket".into()));
    }
    // conservation: what the account holds + what was burned = what it held at the start; the receipt
    // agrees with the books
    for r in 0..NRES {
        let start = if r == NF { 8 * u } else { 100 * u };
        let bal = balances[r].attos().to_string();
        let sup = supplies[r].attos().to_string();
        if bal != t[r].to_string() {
            return Some(("c09-conservation:balance".into(), format!("resource {}: account holds {} but the books say {}", r, bal, t[r])));
        }
        if sup != (start - burned[r]).to_string() {
            return Some(("c09-conservation:supply".into(), format!("resource {}: total supply {} but start {} minus burned {}", r, sup, start, burned[r])));
        }
        if r != NF {
            let d = deltas.get(&r).cloned().unwrap_or("0".to_string());
            if d != (t[r] - start).to_string() {
                return Some(("c09-conservation:receipt".into(), format!("resource {}: receipt vault delta {} but balance changed by {}", r, d, t[r] - start)));
            }
        }
    }
    if !fuzzy {
        let v: Vec<String> = vids.iter().map(|x| x.to_string()).collect();
        let want = if v.is_empty() { "-".to_string() } else { v.join(",") };
        if want != nf_ids {
            return Some(("c09-conservation:nf-ids".into(), format!("account holds non-fungibles {} but the books say {}", nf_ids, want)));
        }
    }
    if foreign_vault || new_vaults != 0 {
        return Some(("c09-conservation:foreign-vault".into(), "resources ended up in a vault other than the account's".into()));
    }
    None
}

/// Fully determined fragments. `which` = "c10": vault + proof life cycle on fungible vaults;
/// "c09": worktop / named-bucket traffic on fungibles without proofs. Returns the predicted answer
/// class (`ok` or an `err …` string, possibly only a prefix ending in ':').
pub fn predict_pure(which: &str, ops: &[Op]) -> Option<String> {
    let u = unit();
    let pure = ops.iter().all(|op| match (which, op) {
        ("c10", Op::Withdraw(..) | Op::VBurn(..) | Op::Recall(..) | Op::VProof(..) | Op::Clone(_) | Op::Drop(_) | Op::DropNamed | Op::Balance(_) | Op::DepositAll) => true,
        ("c09", Op::Withdraw(..) | Op::Recall(..) | Op::Take(..) | Op::TakeAll(_) | Op::Return(_) | Op::Assert(..) | Op::AssertAny(_) | Op::Burn(_) | Op::Deposit(_) | Op::DepositAll | Op::Balance(_)) => true,
        _ => false,
    });
    let no_nf = ops.iter().all(|op| match op {
        Op::Balance(r) | Op::Take(r, _) | Op::TakeAll(r) | Op::Assert(r, _) | Op::AssertAny(r) => *r != NF,
        _ => true,
    });
    if !pure || !no_nf {
        return None;
    }
    let mut t = [100 * u; 3];
    let mut live: Vec<Option<(usize, i128)>> = vec![];
    let mut wt = [0i128; 3];
    let mut named: Vec<Option<(usize, i128)>> = vec![];
    for op in ops {
        match op {
            Op::Withdraw(r, a) | Op::VBurn(r, a) | Op::Recall(r, a) => {
                if !valid_amt(*a, *r) {
                    return Some(format!("err vault:invalid-amount:{}", a));
                }
                let ml = live.iter().flatten().filter(|p| p.0 == *r).map(|p| p.1).max().unwrap_or(0);
                if *a > t[*r] - ml {
                    return Some(format!("err vault:insufficient:{}:{}", a, t[*r] - ml));
                }
                t[*r] -= *a;
                if !matches!(op, Op::VBurn(..)) {
                    wt[*r] += *a;
                }
            }
            Op::VProof(r, a) => {
                if !valid_amt(*a, *r) {
                    return Some(format!("err vault:invalid-amount:{}", a));
                }
                if *a > t[*r] {
                    // the part above the current maximum is what is missing from the liquid balance
                    let ml = live.iter().flatten().filter(|p| p.0 == *r).map(|p| p.1).max().unwrap_or(0);
                    return Some(format!("err vault:insufficient:{}:{}", a - ml, t[*r] - ml));
                }
                if *a == 0 {
                    return Some("err vault:empty-proof".to_string());
                }
                live.push(Some((*r, *a)));
            }
            Op::Clone(p) => match live.get(*p as usize).and_then(|x| *x) {
                Some(x) => live.push(Some(x)),
                None => return Some(format!("err tp:proof-not-found:{}", p)),
            },
            Op::Drop(p) => {
                if live.get_mut(*p as usize).and_then(|x| x.take()).is_none() {
                    return Some(format!("err tp:proof-not-found:{}", p));
                }
            }
            Op::DropNamed => live.iter_mut().for_each(|x| *x = None),
            Op::Balance(_) => {}
            Op::DepositAll => {
                for r in 0..3 {
                    t[r] += wt[r];
                    wt[r] = 0;
                }
            }
            Op::Take(r, a) => {
                if *a == 0 {
                    named.push(Some((*r, 0)));
                } else if wt[*r] == 0 || wt[*r] < *a {
                    return Some("err worktop:insufficient".to_string());
                } else if wt[*r] == *a {
                    wt[*r] = 0;
                    named.push(Some((*r, *a)));
                } else if !valid_amt(*a, *r) {
                    return Some(format!("err bucket:invalid-amount:{}", a));
                } else {
                    wt[*r] -= *a;
                    named.push(Some((*r, *a)));
                }
            }
            Op::TakeAll(r) => {
                named.push(Some((*r, wt[*r])));
                wt[*r] = 0;
            }
            Op::Return(b) | Op::Burn(b) | Op::Deposit(b) => {
                let (r, a) = match named.get_mut(*b as usize).and_then(|x| x.take()) {
                    Some(x) => x,
                    None => return Some(format!("err tp:bucket-not-found:{}", b)),
                };
                match op {
                    Op::Return(_) => wt[r] += a,
                    Op::Deposit(_) => t[r] += a,
                    _ => {}
                }
            }
            Op::AssertAny(r) => {
                if wt[*r] == 0 {
                    return Some("err worktop:assertion".to_string());
                }
            }
            Op::Assert(r, a) => {
                if wt[*r] < *a {
                    return Some("err worktop:assertion".to_string());
                }
            }
            _ => return None,
        }
    }
    if wt.iter().any(|x| *x != 0) {
        return Some("err rm:drop-non-empty".to_string());
    }
    if named.iter().any(|x| x.is_some()) {
        return Some("err kernel:orphaned-nodes".to_string());
    }
    Some("ok".to_string())
}

pub fn oracle_for(which: &str, ops: &[Op], out: &Outcome) -> Option<(String, String)> {
    let verdict = match out {
        Outcome::Ok { queries, balances, supplies, nf_ids, deltas, foreign_vault, new_vaults } => check_success(ops, queries, balances, supplies, nf_ids, deltas, *foreign_vault, *new_vaults),
        Outcome::Err(c, _) => {
            if c.starts_with("kernel:") && c != "kernel:node-borrowed" && c != "kernel:orphaned-nodes" || c.starts_with("system:") || c.starts_with("other:") || c == "rejected" || c == "aborted" {
                Some((format!("{}-unexpected-error:{}", which, c), format!("transaction failed with an error outside the resource rules: {}", c)))
            } else {
                None
            }
        }
    };
    // keep only the clauses of the property being checked
    let verdict = verdict.filter(|(k, _)| k.starts_with(which));
    if verdict.is_some() {
        return verdict;
    }
    if let Some(pred) = predict_pure(which, ops) {
        let got = match out {
            Outcome::Ok { .. } => "ok".to_string(),
            Outcome::Err(c, _) => format!("err {}", c),
        };
        if got != pred {
            return Some((format!("{}-pure-outcome:{}", which, pred.split(':').take(2).collect::<Vec<_>>().join(":")), format!("the property determines the outcome `{}` but the engine answered `{}`", pred, got)));
        }
    }
    None
}
