//! C05 area `c05e` (engine level, oracle only) — see bin/c05.rs header.  (stub, filled in below)
use harness::util::*;
use std::io::Write;

pub struct E;
impl Area for E {
    fn gen(&self, _rng: &mut Rng, _n: usize, _out: &mut dyn Write) {}
    fn runner(&self) -> Box<dyn Runner> {
        Box::new(ER)
    }
}
struct ER;
impl Runner for ER {
    fn step(&mut self, _line: &str) -> Answer {
        Answer::ok("bad-op")
    }
}
