//! C05 area `c05e` (engine level, oracle only) — see bin/c05.rs header.
//! Every line is one or a few real transactions on a `LedgerSimulator`; after every line the repo's
//! `KernelDatabaseChecker` and `SystemDatabaseChecker<RoleAssignmentDatabaseChecker>` scan the whole
//! substate database.  (`ResourceDatabaseChecker` is not used: it is `todo!()` for the
//! LockedBalance / FreezeStatus vault fields and panics on any ledger that has them.)
use harness::util::*;
use radix_common::prelude::*;
use radix_engine::system::checkers::*;
use radix_engine_interface::prelude::*;
use radix_transactions::prelude::*;
use scrypto_test::prelude::*;
use std::io::Write;

pub struct E;

impl Area for E {
    fn gen(&self, rng: &mut Rng, n: usize, out: &mut dyn Write) {
        for _ in 0..n {
            writeln!(out, "reset").unwrap();
            let mut accts = 0u64;
            let mut res = 0u64;
            let len = 6 + rng.below(8);
            for _ in 0..len {
                if accts == 0 || rng.chance(1, 6) {
                    writeln!(out, "acct").unwrap();
                    accts += 1;
                    continue;
                }
                match rng.below(12) {
                    0..=1 => {
                        writeln!(out, "fres {} {}", rng.below(accts), *rng.pick(&[0u64, 2, 18])).unwrap();
                        res += 1;
                    }
                    2 => {
                        writeln!(out, "nfres {}", rng.below(accts)).unwrap();
                        res += 1;
                    }
                    3 => {
                        writeln!(out, "restricted {}", rng.below(accts)).unwrap();
                        res += 3;
                    }
                    4..=6 if res > 0 => writeln!(out, "xfer {} {} {} {}", rng.below(accts), rng.below(accts), rng.below(res), 1 + rng.below(3)).unwrap(),
                    7 => writeln!(out, "xrd {} {}", rng.below(accts), rng.below(accts)).unwrap(),
                    8 => writeln!(out, "over {}", rng.below(accts)).unwrap(),
                    9 => writeln!(out, "validator {}", rng.below(accts)).unwrap(),
                    10 => writeln!(out, "identity").unwrap(),
                    _ => writeln!(out, "badcall {}", rng.below(accts)).unwrap(),
                }
            }
        }
    }
    fn runner(&self) -> Box<dyn Runner> {
        Box::new(ER { ledger: None, accts: vec![], res: vec![], n: 0 })
    }
}

type L = LedgerSimulator<NoExtension, InMemorySubstateDatabase>;

struct ER {
    ledger: Option<L>,
    accts: Vec<(Secp256k1PublicKey, ComponentAddress)>,
    res: Vec<ResourceAddress>,
    n: u64,
}

fn outcome(r: &TransactionReceipt) -> &'static str {
    match &r.result {
        TransactionResult::Commit(c) => match c.outcome {
            TransactionOutcome::Success(_) => "success",
            TransactionOutcome::Failure(_) => "failure",
        },
        TransactionResult::Reject(_) => "reject",
        TransactionResult::Abort(_) => "abort",
    }
}

impl ER {
    fn check(&mut self, ans: String) -> Answer {
        self.n += 1;
        let ledger = self.ledger.as_ref().unwrap();
        let r = catch(|| {
            if let Err(e) = KernelDatabaseChecker::new().check_db(ledger.substate_db()) {
                let k = format!("{:?}", e);
                let k: String = k.chars().take_while(|c| c.is_alphanumeric()).collect();
                return Some((format!("kernel-db-checker:{}", k), format!("{:?}", e)));
            }
            match ledger.check_db::<RoleAssignmentDatabaseChecker>() {
                Err(e) => return Some(("system-db-checker".to_string(), format!("{:?}", e).chars().take(300).collect())),
                Ok((_, violations)) => {
                    if !violations.is_empty() {
                        return Some(("role-assignment-checker".to_string(), format!("{:?}", violations).chars().take(300).collect()));
                    }
                }
            }
            None
        });
        match r {
            Ok(None) => Answer::ok(ans),
            Ok(Some((k, d))) => Answer::fail(ans, k, d),
            Err(m) => Answer::fail(ans, "db-checker-panic", m),
        }
    }
}

impl Runner for ER {
    fn step(&mut self, line: &str) -> Answer {
        let t: Vec<&str> = line.split(' ').filter(|w| !w.is_empty()).collect();
        let p = |i: usize| -> Option<usize> { t.get(i).and_then(|s| if s.len() < 6 && s.bytes().all(|b| b.is_ascii_digit()) { s.parse().ok() } else { None }) };
        if t.is_empty() {
            return Answer::ok("bad-op");
        }
        if t[0] == "reset" && t.len() == 1 {
            self.ledger = Some(LedgerSimulatorBuilder::new().without_kernel_trace().build());
            self.accts.clear();
            self.res.clear();
            return self.check("ok".into());
        }
        if self.ledger.is_none() {
            return Answer::ok("bad-op");
        }
        let na = self.accts.len();
        let nr = self.res.len();
        let ledger = self.ledger.as_mut().unwrap();
        let ans: String = match (t[0], t.len()) {
            ("acct", 1) => {
                let (pk, _, a) = ledger.new_allocated_account();
                self.accts.push((pk, a));
                "ok".into()
            }
            ("identity", 1) => {
                let (pk, _) = ledger.new_key_pair();
                ledger.new_identity(pk, false);
                "ok".into()
            }
            ("fres", 3) => match (p(1), p(2)) {
                (Some(a), Some(d)) if a < na && d <= 18 => {
                    let r = ledger.create_fungible_resource(dec!(100), d as u8, self.accts[a].1);
                    self.res.push(r);
                    "ok".into()
                }
                _ => return Answer::ok("bad-op"),
            },
            ("nfres", 2) => match p(1) {
                Some(a) if a < na => {
                    let r = ledger.create_non_fungible_resource(self.accts[a].1);
                    self.res.push(r);
                    "ok".into()
                }
                _ => return Answer::ok("bad-op"),
            },
            ("restricted", 2) => match p(1) {
                Some(a) if a < na => {
                    let r = ledger.create_restricted_token(self.accts[a].1);
                    self.res.extend([r.0, r.1, r.2]);
                    "ok".into()
                }
                _ => return Answer::ok("bad-op"),
            },
            ("validator", 2) => match p(1) {
                Some(a) if a < na => {
                    let (pk, _) = ledger.new_key_pair();
                    ledger.new_validator_with_pub_key(pk, self.accts[a].1);
                    "ok".into()
                }
                _ => return Answer::ok("bad-op"),
            },
            ("xfer", 5) => match (p(1), p(2), p(3), p(4)) {
                (Some(a), Some(b), Some(r), Some(amt)) if a < na && b < na && r < nr => {
                    let res = self.res[r];
                    let m = if res.is_fungible() {
                        ManifestBuilder::new().lock_fee_from_faucet().withdraw_from_account(self.accts[a].1, res, Decimal::from(amt as u64)).try_deposit_entire_worktop_or_abort(self.accts[b].1, None).build()
                    } else {
                        ManifestBuilder::new().lock_fee_from_faucet().withdraw_from_account(self.accts[a].1, res, Decimal::from(1u64)).try_deposit_entire_worktop_or_abort(self.accts[b].1, None).build()
                    };
                    let rc = ledger.execute_manifest(m, vec![NonFungibleGlobalId::from_public_key(&self.accts[a].0)]);
                    outcome(&rc).into()
                }
                _ => return Answer::ok("bad-op"),
            },
            ("xrd", 3) => match (p(1), p(2)) {
                (Some(a), Some(b)) if a < na && b < na => {
                    let m = ManifestBuilder::new().lock_fee_from_faucet().withdraw_from_account(self.accts[a].1, XRD, dec!(5)).try_deposit_entire_worktop_or_abort(self.accts[b].1, None).build();
                    let rc = ledger.execute_manifest(m, vec![NonFungibleGlobalId::from_public_key(&self.accts[a].0)]);
                    outcome(&rc).into()
                }
                _ => return Answer::ok("bad-op"),
            },
            ("over", 2) => match p(1) {
                Some(a) if a < na => {
                    let m = ManifestBuilder::new().lock_fee_from_faucet().withdraw_from_account(self.accts[a].1, XRD, dec!(100000000)).try_deposit_entire_worktop_or_abort(self.accts[a].1, None).build();
                    let rc = ledger.execute_manifest(m, vec![NonFungibleGlobalId::from_public_key(&self.accts[a].0)]);
                    outcome(&rc).into()
                }
                _ => return Answer::ok("bad-op"),
            },
            ("badcall", 2) => match p(1) {
                Some(a) if a < na => {
                    // leaves a bucket on the worktop: the transaction fails after state was touched
                    let m = ManifestBuilder::new().lock_fee_from_faucet().withdraw_from_account(self.accts[a].1, XRD, dec!(1)).build();
                    let rc = ledger.execute_manifest(m, vec![NonFungibleGlobalId::from_public_key(&self.accts[a].0)]);
                    outcome(&rc).into()
                }
                _ => return Answer::ok("bad-op"),
            },
            _ => return Answer::ok("bad-op"),
        };
        self.check(ans)
    }
}
