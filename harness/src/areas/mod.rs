use crate::util::Area;

pub mod c13;

pub fn lookup(name: &str) -> Option<Box<dyn Area>> {
    match name {
        "c13" => Some(Box::new(c13::A)),
        _ => None,
    }
}
