//! Shared by the C32 and C33 harness binaries: generators of real V1 / V2 / partial transactions
//! built with the public builders and test keys. Every random choice comes from the given `Rng`.
#![allow(dead_code)]
use harness::util::*;
use radix_common::prelude::*;
use radix_transactions::prelude::*;

pub fn key(n: u64, ed: bool) -> PrivateKey {
    if ed {
        PrivateKey::Ed25519(Ed25519PrivateKey::from_u64(n).unwrap())
    } else {
        PrivateKey::Secp256k1(Secp256k1PrivateKey::from_u64(n).unwrap())
    }
}

/// key spec: (id, is_ed25519)
pub type KeySpec = (u64, bool);

pub fn rand_key(rng: &mut Rng, pool: u64) -> KeySpec {
    (1 + rng.below(pool), rng.chance(1, 2))
}

pub fn account(n: u64) -> ComponentAddress {
    let mut a = [EntityType::GlobalPreallocatedSecp256k1Account as u8; NodeId::LENGTH];
    a[1..9].copy_from_slice(&n.to_le_bytes());
    ComponentAddress::new_or_panic(a)
}

pub fn gen_message_v1(rng: &mut Rng) -> MessageV1 {
    match rng.below(4) {
        0 | 1 => MessageV1::None,
        2 => MessageV1::Plaintext(PlaintextMessageV1 { mime_type: "text/plain".into(), message: MessageContentsV1::String("m".repeat(rng.below(20) as usize)) }),
        _ => MessageV1::Plaintext(PlaintextMessageV1 { mime_type: "application/octet-stream".into(), message: MessageContentsV1::Bytes({ let n = rng.below(24) as usize; rng.bytes(n) }) }),
    }
}

pub fn gen_message_v2(rng: &mut Rng) -> MessageV2 {
    match rng.below(4) {
        0 | 1 => MessageV2::None,
        2 => MessageV2::Plaintext(PlaintextMessageV1 { mime_type: "text/plain".into(), message: MessageContentsV1::String("m".repeat(rng.below(20) as usize)) }),
        _ => MessageV2::Plaintext(PlaintextMessageV1 { mime_type: "application/octet-stream".into(), message: MessageContentsV1::Bytes({ let n = rng.below(24) as usize; rng.bytes(n) }) }),
    }
}

/// A small valid V1 manifest (valid for the basic and for the interpreter rulesets), optionally with blobs.
pub fn gen_manifest_v1(rng: &mut Rng, with_blobs: bool) -> TransactionManifestV1 {
    let mut b = ManifestBuilder::new().lock_fee_from_faucet();
    let n = rng.below(4);
    for i in 0..n {
        match rng.below(4) {
            0 => b = b.drop_auth_zone_proofs(),
            1 => b = b.call_method(account(rng.below(5)), "m", (rng.below(1000) as u32, "x".repeat(rng.below(6) as usize))),
            2 => b = b.get_free_xrd_from_faucet().take_all_from_worktop(XRD, format!("b{}", i)).try_deposit_or_abort(account(rng.below(5)), None, format!("b{}", i)),
            _ => b = b.drop_all_proofs(),
        }
    }
    let mut m = b.build();
    if with_blobs {
        let nb = rng.below(4);
        for _ in 0..nb {
            let len = *rng.pick(&[0usize, 1, 2, 31, 32, 33, 100]);
            let blob = rng.bytes(len);
            m.blobs.insert(hash(&blob), blob);
        }
    }
    m
}

pub struct V1Spec {
    pub notary: KeySpec,
    pub notary_is_signatory: bool,
    pub signers: Vec<KeySpec>,
    pub with_blobs: bool,
}

pub fn gen_v1_spec(rng: &mut Rng, max_signers: u64, pool: u64) -> V1Spec {
    let n = rng.below(max_signers + 1);
    V1Spec { notary: rand_key(rng, pool), notary_is_signatory: rng.chance(1, 2), signers: (0..n).map(|_| rand_key(rng, pool)).collect(), with_blobs: rng.chance(1, 2) }
}

pub fn build_v1(rng: &mut Rng, spec: &V1Spec) -> NotarizedTransactionV1 {
    let notary = key(spec.notary.0, spec.notary.1);
    let start = rng.below(100);
    let header = TransactionHeaderV1 {
        network_id: NetworkDefinition::simulator().id,
        start_epoch_inclusive: Epoch::of(start),
        end_epoch_exclusive: Epoch::of(start + 1 + rng.below(50)),
        nonce: rng.next() as u32,
        notary_public_key: notary.public_key(),
        notary_is_signatory: spec.notary_is_signatory,
        tip_percentage: rng.below(20) as u16,
    };
    let mut b = TransactionBuilder::new().header(header).manifest(gen_manifest_v1(rng, spec.with_blobs)).message(gen_message_v1(rng));
    let signers: Vec<PrivateKey> = spec.signers.iter().map(|k| key(k.0, k.1)).collect();
    b = b.multi_sign(signers.iter());
    b.notarize(&notary).build()
}

/// when set, V2 intent headers use one fixed epoch window and no timestamps (so that all intents of a
/// transaction have a common validity range and validation reaches the signature checks)
pub static FIXED_HEADERS: std::sync::atomic::AtomicBool = std::sync::atomic::AtomicBool::new(false);

pub fn intent_header_v2(rng: &mut Rng, disc: u64) -> IntentHeaderV2 {
    if FIXED_HEADERS.load(std::sync::atomic::Ordering::Relaxed) {
        return IntentHeaderV2 {
            network_id: NetworkDefinition::simulator().id,
            start_epoch_inclusive: Epoch::of(10),
            end_epoch_exclusive: Epoch::of(20),
            min_proposer_timestamp_inclusive: None,
            max_proposer_timestamp_exclusive: None,
            intent_discriminator: disc ^ (rng.next() << 20),
        };
    }
    let start = rng.below(100);
    IntentHeaderV2 {
        network_id: NetworkDefinition::simulator().id,
        start_epoch_inclusive: Epoch::of(start),
        end_epoch_exclusive: Epoch::of(start + 1 + rng.below(50)),
        min_proposer_timestamp_inclusive: if rng.chance(1, 3) { Some(Instant::new(rng.below(1000) as i64)) } else { None },
        max_proposer_timestamp_exclusive: if rng.chance(1, 3) { Some(Instant::new(2000 + rng.below(1000) as i64)) } else { None },
        intent_discriminator: disc,
    }
}

/// a leaf partial transaction (one subintent yielding to its parent) signed by `signers`
pub fn build_leaf_partial(rng: &mut Rng, disc: u64, signers: &[KeySpec]) -> SignedPartialTransactionV2 {
    let keys: Vec<PrivateKey> = signers.iter().map(|k| key(k.0, k.1)).collect();
    let pad = rng.below(3);
    PartialTransactionV2Builder::new()
        .intent_header(intent_header_v2(rng, disc))
        .message(gen_message_v2(rng))
        .manifest_builder(|mut mb| {
            for _ in 0..pad {
                mb = mb.drop_auth_zone_proofs();
            }
            mb.yield_to_parent(())
        })
        .multi_sign(keys.iter())
        .build_minimal()
}

/// a partial transaction with `children` leaf children
pub fn build_partial(rng: &mut Rng, disc: u64, signers: &[KeySpec], children: &[Vec<KeySpec>]) -> SignedPartialTransactionV2 {
    let keys: Vec<PrivateKey> = signers.iter().map(|k| key(k.0, k.1)).collect();
    let mut b = PartialTransactionV2Builder::new();
    let mut names = vec![];
    for (i, c) in children.iter().enumerate() {
        let child = build_leaf_partial(rng, disc * 1000 + 1 + i as u64, c);
        let name = format!("c{:02}", i);
        b = b.add_signed_child(&name, child);
        names.push(name);
    }
    b.intent_header(intent_header_v2(rng, disc))
        .message(gen_message_v2(rng))
        .manifest_builder(|mut mb| {
            for n in &names {
                mb = mb.yield_to_child(n, ());
            }
            mb.yield_to_parent(())
        })
        .multi_sign(keys.iter())
        .build_minimal()
}

pub struct V2Spec {
    pub notary: KeySpec,
    pub notary_is_signatory: bool,
    pub signers: Vec<KeySpec>,
    /// one entry per direct child of the root: (its signers, signers of each of its own leaf children)
    pub children: Vec<(Vec<KeySpec>, Vec<Vec<KeySpec>>)>,
}

pub fn gen_v2_spec(rng: &mut Rng, max_signers: u64, pool: u64, max_children: u64) -> V2Spec {
    let sigs = |rng: &mut Rng| -> Vec<KeySpec> {
        let n = rng.below(max_signers + 1);
        (0..n).map(|_| rand_key(rng, pool)).collect()
    };
    let nc = rng.below(max_children + 1);
    let mut children = vec![];
    for _ in 0..nc {
        let s = sigs(rng);
        let ng = if rng.chance(1, 4) { 1 + rng.below(2) } else { 0 };
        let grand = (0..ng).map(|_| sigs(rng)).collect();
        children.push((s, grand));
    }
    V2Spec { notary: rand_key(rng, pool), notary_is_signatory: rng.chance(1, 2), signers: sigs(rng), children }
}

pub fn build_v2(rng: &mut Rng, spec: &V2Spec) -> NotarizedTransactionV2 {
    let notary = key(spec.notary.0, spec.notary.1);
    let keys: Vec<PrivateKey> = spec.signers.iter().map(|k| key(k.0, k.1)).collect();
    let mut b = TransactionV2Builder::new();
    let mut names = vec![];
    for (i, (s, grand)) in spec.children.iter().enumerate() {
        let child = build_partial(rng, 1 + i as u64, s, grand);
        let name = format!("c{:02}", i);
        b = b.add_signed_child(&name, child);
        names.push(name);
    }
    let pad = rng.below(3);
    b.intent_header(intent_header_v2(rng, 0))
        .transaction_header(TransactionHeaderV2 { notary_public_key: notary.public_key(), notary_is_signatory: spec.notary_is_signatory, tip_basis_points: rng.below(100) as u32 })
        .message(gen_message_v2(rng))
        .manifest_builder(|mut mb| {
            mb = mb.lock_fee_from_faucet();
            for n in &names {
                mb = mb.yield_to_child(n, ());
            }
            for _ in 0..pad {
                mb = mb.drop_auth_zone_proofs();
            }
            mb
        })
        .multi_sign(keys.iter())
        .notarize(&notary)
        .build_minimal_no_validate()
}
