#!/bin/sh
# Build the framework from files on disk only (offline).
set -e
cd "$(dirname "$0")"
export CARGO_NET_OFFLINE=true
python3 tools/sync.py >/dev/null
FEATURES=$(python3 -c "
import json,glob
fs=set()
for f in glob.glob('checks/C*.json'):
    fs|=set(json.load(open(f)).get('harness_features',[]))
print(','.join(sorted(fs)))")
BINS=$(python3 -c "
import json,glob
bs=set()
for f in glob.glob('checks/C*.json'):
    bs|={a.get('bin',a['area']) for a in json.load(open(f))['areas']}
print(' '.join('--bin '+b for b in sorted(bs)))")
(cd harness && cargo build --offline $BINS ${FEATURES:+--features $FEATURES})
DRIVERS=$(python3 -c "
import json,glob
ds=[]
for f in glob.glob('checks/C*.json'):
    ds+=[a['driver'] for a in json.load(open(f))['areas'] if a.get('driver')]
print(' '.join(sorted(set(ds))))")
(cd lean && lake build RadixModel $DRIVERS)
