#!/bin/sh
# Build the framework from files on disk only (offline). Every check rebuilds what it needs itself,
# so a failure of one area here must not prevent the others from being prepared.
cd "$(dirname "$0")"
export CARGO_NET_OFFLINE=true
python3 tools/sync.py >/dev/null 2>&1
BINS=$(python3 -c "
import json,glob
bs=set()
for f in glob.glob('checks/C*.json'):
    bs|={a.get('bin',a['area']) for a in json.load(open(f))['areas']}
print(' '.join('--bin '+b for b in sorted(bs)))")
(cd harness && cargo build --offline --keep-going $BINS) || echo "setup: some harness binaries failed to build (their checks will report it)"
python3 - <<'PY'
import json, glob, subprocess
for f in sorted(glob.glob('checks/C*.json')):
    c = json.load(open(f))
    targets = list(c['lean_props']) + [a['driver'] for a in c['areas'] if a.get('driver')]
    r = subprocess.run(['lake', 'build'] + targets, cwd='lean', stdout=subprocess.PIPE, stderr=subprocess.STDOUT)
    print('setup: lake build %s -> %s' % (c['id'], 'ok' if r.returncode == 0 else 'FAILED'))
PY
exit 0
