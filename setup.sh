#!/bin/sh
# Build the framework from files on disk only (offline).
set -e
cd "$(dirname "$0")"
export CARGO_NET_OFFLINE=true
FEATURES=$(python3 -c "
import json,glob
fs=set()
for f in glob.glob('checks/C*.json'):
    fs|=set(json.load(open(f)).get('harness_features',[]))
print(','.join(sorted(fs)))")
(cd harness && cargo build --offline --bin harness ${FEATURES:+--features $FEATURES})
(cd lean && lake build RadixModel Driver $(python3 -c "
import json,glob
ds=[]
for f in glob.glob('../checks/C*.json'):
    ds+=[a['driver'] for a in json.load(open(f))['areas'] if a.get('driver')]
print(' '.join(sorted(set(ds))))"))
