#!/bin/sh
# tools/confirm_mutant.sh <worktree> "<demo cmd>" ["<existing tests cmd>"]
# Confirms in the scratch worktree: demo fails with the patch, passes without it; existing tests pass with it.
WT="$1"; DEMO="$2"; EXIST="${3:-}"
cd "$WT" || exit 2
export CARGO_TARGET_DIR="$WT/target" CARGO_NET_OFFLINE=true
git checkout -q -- . 2>/dev/null
echo "--- without patch: demo"
sh -c "$DEMO" > /tmp/confirm_without.log 2>&1; RW=$?
echo "rc=$RW"
git apply DELIVERY/patch.diff || { echo "patch does not apply"; exit 2; }
echo "--- with patch: demo"
sh -c "$DEMO" > /tmp/confirm_with.log 2>&1; RP=$?
echo "rc=$RP"
if [ -n "$EXIST" ]; then
  echo "--- with patch: existing tests"
  sh -c "$EXIST" > /tmp/confirm_exist.log 2>&1; RE=$?
  echo "rc=$RE $(grep -E '^test result' /tmp/confirm_exist.log | head -3 | tr '\n' '|')"
fi
git checkout -q -- .
if [ $RW -eq 0 ] && [ $RP -ne 0 ] && { [ -z "$EXIST" ] || [ $RE -eq 0 ]; }; then echo "CONFIRMED"; else echo "NOT CONFIRMED"; fi
