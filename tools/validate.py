#!/usr/bin/env python3
import json, glob, jsonschema, sys
jsonschema.validate(json.load(open('/verif/MANIFEST.json')), json.load(open('/root/.vp/MANIFEST.schema.json')))
s = json.load(open('/root/.vp/EVIDENCE.schema.json'))
bad = []
for f in sorted(glob.glob('/verif/evidence/*.json')):
    e = json.load(open(f))
    jsonschema.validate(e, s)
    # evidence kept in the repository must describe a run on the unchanged tree: no violation, no disagreement
    c = e.get('coverage', {})
    if e.get('violations', 0) or c.get('correspondence', {}).get('disagreements', 0) \
            or c.get('obligations') != c.get('discharged'):
        bad.append(f)
if bad:
    print('evidence files that do not describe a quiet run on the unchanged tree: ' + ' '.join(bad))
    sys.exit(1)
print('manifest + %d evidence files valid' % len(glob.glob('/verif/evidence/*.json')))
