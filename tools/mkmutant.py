#!/usr/bin/env python3
"""tools/mkmutant.py Cxx [suffix] : create a scratch worktree /tmp/mut/Cxx[suffix] of /repo HEAD and the prompt file
for a fresh mutation sub-agent (which gets only the property text, nothing from /verif)."""
import sys, json, subprocess, os
pid = sys.argv[1]; suf = sys.argv[2] if len(sys.argv) > 2 else ""
wt = "/tmp/mut/%s%s" % (pid, suf)
os.makedirs("/tmp/mut", exist_ok=True)
if not os.path.exists(wt):
    subprocess.check_call(["git", "-C", "/repo", "worktree", "add", "-q", "--detach", wt, "HEAD"], stdout=subprocess.DEVNULL, stderr=subprocess.DEVNULL)
p = [json.loads(l) for l in open("/verif/properties.jsonl") if json.loads(l)["id"] == pid][0]
t = open("/verif/tools/mutant_prompt.txt").read()
t = t.replace("{WT}", wt).replace("{TITLE}", p["title"]).replace("{STATEMENT}", p["statement"]).replace("{QUANT}", p["quantifier"]["text"]).replace("{ID}", pid)
os.makedirs("/tmp/mut/prompts", exist_ok=True)
f = "/tmp/mut/prompts/%s%s.txt" % (pid, suf)
open(f, "w").write(t)
print(f)
