#!/usr/bin/env python3
import subprocess, glob, os, time, sys
V = os.path.dirname(os.path.dirname(os.path.abspath(__file__)))
ids = sys.argv[1:] or sorted(os.path.basename(f)[:-5] for f in glob.glob(os.path.join(V, "checks", "C*.json")))
for i in ids:
    t = time.time()
    p = subprocess.run(["./check", i, "--tier", "quick"], cwd=V, stdout=subprocess.PIPE, stderr=subprocess.STDOUT)
    out = p.stdout.decode(errors="replace").strip().splitlines()
    last = [l for l in out if l.startswith(i + " tier=") or l.startswith("VIOLATION")]
    print("%s rc=%d t=%.0fs :: %s" % (i, p.returncode, time.time() - t, " | ".join(l[:200] for l in last)), flush=True)
