#!/usr/bin/env python3
import sys
ids, hours, notes = sys.argv[1], sys.argv[2], sys.argv[3]
t = open('/verif/tools/agent_prompt.txt').read()
first = ids.split(',')[0].strip()
print(t.replace('{IDS}', ids).replace('{ID}', 'Cxx').replace('{FIRSTID}', first).replace('{HOURS}', hours).replace('{NOTES}', notes))
