#!/usr/bin/env python3
"""Regenerate /verif/MANIFEST.json from checks/*.json + tools/not_applicable.json."""
import json, glob, os
V = os.path.dirname(os.path.dirname(os.path.abspath(__file__)))
props = [json.loads(l)["id"] for l in open(os.path.join(V, "properties.jsonl"))]
checks = []
claimed = set()
for f in sorted(glob.glob(os.path.join(V, "checks", "C*.json"))):
    c = json.load(open(f))
    pid = c["id"]
    claimed.add(pid)
    checks.append({
        "property_id": pid,
        "quick_cmd": "./check %s --tier quick" % pid,
        "thorough_cmd": "./check %s --tier thorough" % pid,
        "evidence_file": "/verif/evidence/%s.json" % pid,
        "replay_cmd_template": "./check %s --replay {path}" % pid,
        "engine": "lean4-proof+correspondence",
        "level_claimed": {"category": c.get("level", "proof") if c.get("level", "proof") in ("exploration","fault_enumeration","model_checking","proof","translation_validation","other") else "proof", "text": c["level_text"], "design_ref": "DESIGN.md §4 " + pid},
        "level_note": c["level_note"],
        "technique": c.get("technique", "Lean 4 theorem about an executable model + differential correspondence with the implementation"),
    })
na = json.load(open(os.path.join(V, "tools", "not_applicable.json")))
na = [x for x in na if x["property_id"] not in claimed]
listed = claimed | {x["property_id"] for x in na}
for p in props:
    if p not in listed:
        na.append({"property_id": p, "reason": "not yet claimed: model/proof/correspondence for this property is not built yet (planned in DESIGN.md §4); no check is registered, so nothing is asserted about it"})
na.sort(key=lambda x: x["property_id"])
hooks = json.load(open(os.path.join(V, "tools", "hooks.json")))
m = {
    "version": 1,
    "setup_cmd": "./setup.sh",
    "hooks": hooks,
    "engines": [{"name": "lean4-proof+correspondence", "path": "/verif/check", "serves_properties": sorted(claimed),
                 "kind_free_text": "Lean 4 theorems (lake build + axiom audit) about hand-written executable models in /verif/lean, tied to /repo by a Rust correspondence harness (/verif/harness, path deps on /repo, rebuilt every run) that runs implementation and model on the same op streams, plus constants regenerated from the compiled tree into RadixModel/Generated"}],
    "checks": checks,
    "not_applicable": na,
    "notes": "See DESIGN.md. Every check: rebuild harness from /repo working tree (cfg radixdlt_radixdlt_scrypto_verif on), regenerate Generated/*.lean, lake build + axiom audit of Props/<id>, corpus + generated correspondence, property oracle on the implementation, evidence. Known findings in known_findings.txt.",
}
_tmp = os.path.join(V, "MANIFEST.json.tmp%d" % os.getpid())
json.dump(m, open(_tmp, "w"), indent=1)
os.replace(_tmp, os.path.join(V, "MANIFEST.json"))
print("claimed", len(claimed), "not_applicable", len(na))
