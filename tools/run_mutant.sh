#!/bin/sh
# tools/run_mutant.sh <seeded dir containing patch.diff> <Cxx> [<Cxx> ...]
# Applies the seeded change to /repo, runs the given checks (quick tier), and undoes the change straight afterwards.
set -u
D="$(cd "$1" && pwd)"; shift
cd /verif
if [ -n "$(git -C /repo status --porcelain --untracked-files=no)" ]; then echo "run_mutant: /repo has uncommitted changes, refusing"; exit 2; fi
git -C /repo apply "$D/patch.diff" || { echo "run_mutant: patch does not apply"; exit 2; }
trap 'git -C /repo checkout -- . ; echo "run_mutant: /repo restored"' EXIT INT TERM
# The evidence a check writes while the seeded change is applied describes the changed tree, not /repo:
# it is moved next to the log and the committed evidence file is put back.
for id in "$@"; do
  echo "=== $id with $(basename $D)"
  ./check "$id" --tier quick > "work/mutant_$(basename $D)_$id.log" 2>&1
  echo "rc=$? $(grep -E '^(VIOLATION|KNOWN-FINDING|C[0-9]+ tier)' work/mutant_$(basename $D)_$id.log | cut -c1-220 | tr '\n' '|')"
  [ -f "evidence/$id.json" ] && mv "evidence/$id.json" "work/mutant_$(basename $D)_$id.evidence.json"
  git checkout -q -- "evidence/$id.json" 2>/dev/null || true
done
