#!/bin/sh
# tools/mutcheck.sh setup | sync | run <seeded dir> <Cxx>...
# A private copy of /verif + a private worktree of /repo under /tmp/mutcheck, so seeded changes can be
# evaluated while builders keep using /repo. (The final confirmation runs use tools/run_mutant.sh on /repo itself.)
M=/tmp/mutcheck
syncsrc() {
  rsync -a --delete --exclude .git --exclude harness/target --exclude lean/.lake --exclude work --exclude replays --exclude evidence /verif/ $M/verif/
  sed -i "s#/repo/#$M/repo/#g" $M/verif/harness/Cargo.toml
  grep -l '"/repo' $M/verif/harness/src/bin/*.rs $M/verif/harness/src/*.rs 2>/dev/null | xargs -r sed -i "s#\"/repo#\"$M/repo#g"
  mkdir -p $M/verif/evidence $M/verif/work
}
case "$1" in
 setup)
  rm -rf $M/verif; mkdir -p $M
  [ -d $M/repo ] || git -C /repo worktree add -q --detach $M/repo HEAD
  mkdir -p $M/verif
  rsync -a --exclude .git /verif/ $M/verif/
  syncsrc
  ;;
 sync)
  syncsrc
  git -C $M/repo checkout -q -- . ; git -C $M/repo checkout -q --detach $(git -C /repo rev-parse HEAD)
  ;;
 run)
  D="$2"; shift 2
  git -C $M/repo checkout -q -- .
  git -C $M/repo apply "$D/patch.diff" || { echo "patch does not apply"; exit 2; }
  cd $M/verif
  for id in "$@"; do
    VERIF_REPO=$M/repo ./check "$id" --tier quick > "work/mutant_$(basename $D)_$id.log" 2>&1
    echo "$id rc=$? $(grep -E '^(VIOLATION|C[0-9]+ tier)' work/mutant_$(basename $D)_$id.log | cut -c1-200 | tr '\n' '|')"
  done
  git -C $M/repo checkout -q -- .
  ;;
esac
